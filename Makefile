# /verif/Makefile — setup: build the Coq development, extract, compile the model driver
setup:
	python3 harness/setup.py
manifest:
	python3 harness/manifest_gen.py
clean:
	$(MAKE) -C coq clean
	rm -rf build .cache
.PHONY: setup manifest clean
