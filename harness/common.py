"""Shared machinery for the per-property checks.

Everything that touches /repo is rebuilt from the current working tree; build
products are cached under /verif/.cache keyed by a content hash of the sources
they were built from (so an edit to /repo always triggers a rebuild)."""
import fcntl
import hashlib
import json
import os
import re
import shutil
import subprocess
import sys
import tempfile
import time

VERIF = os.path.dirname(os.path.dirname(os.path.abspath(__file__)))
REPO = os.environ.get("VERIF_REPO", "/repo")
COQ = os.path.join(VERIF, "coq")
BUILD = os.path.join(VERIF, "build")
CACHE = os.path.join(VERIF, ".cache")
MINICONDA = "/root/miniconda"
HOOK_GUARD = "SBEPP_VERIF"

FORBIDDEN = re.compile(
    r"\b(Admitted|admit|Axiom|Axioms|Parameter|Parameters|Conjecture|Conjectures|"
    r"Hypothesis|Hypotheses|Variable|Variables|Abort|bypass_check)\b|"
    r"Unset\s+Guard|Unset\s+Positivity|Unset\s+Universe|Admit\s+Obligations|"
    r"type-in-type|impredicative-set")


class SplitMix64:
    def __init__(self, seed):
        self.s = seed & 0xFFFFFFFFFFFFFFFF

    def next(self):
        self.s = (self.s + 0x9E3779B97F4A7C15) & 0xFFFFFFFFFFFFFFFF
        z = self.s
        z = ((z ^ (z >> 30)) * 0xBF58476D1CE4E5B9) & 0xFFFFFFFFFFFFFFFF
        z = ((z ^ (z >> 27)) * 0x94D049BB133111EB) & 0xFFFFFFFFFFFFFFFF
        return z ^ (z >> 31)

    def below(self, n):
        return self.next() % n if n > 0 else 0

    def choice(self, xs):
        return xs[self.below(len(xs))]

    def chance(self, num, den):
        return self.below(den) < num

    def shuffle(self, xs):
        for i in range(len(xs) - 1, 0, -1):
            j = self.below(i + 1)
            xs[i], xs[j] = xs[j], xs[i]

    def fork(self, tag):
        h = hashlib.sha256(("%d:%s" % (self.s, tag)).encode()).digest()
        return SplitMix64(int.from_bytes(h[:8], "little"))


def log(*a):
    print(*a, file=sys.stderr, flush=True)


def sh(cmd, timeout=None, cwd=None, env=None, inp=None, check=False):
    """run a command (list), return (rc, stdout, stderr) as text"""
    try:
        p = subprocess.run(cmd, cwd=cwd, env=env, input=inp, timeout=timeout,
                           stdout=subprocess.PIPE, stderr=subprocess.PIPE)
        out = p.stdout.decode("utf-8", "replace")
        err = p.stderr.decode("utf-8", "replace")
        rc = p.returncode
    except subprocess.TimeoutExpired as e:
        out = (e.stdout or b"").decode("utf-8", "replace")
        err = (e.stderr or b"").decode("utf-8", "replace") + "\nTIMEOUT"
        rc = 124
    if check and rc != 0:
        raise RuntimeError("command failed (%d): %s\n%s\n%s" % (rc, " ".join(cmd), out[-4000:], err[-4000:]))
    return rc, out, err


class Lock:
    def __init__(self, name):
        os.makedirs(CACHE, exist_ok=True)
        self.path = os.path.join(CACHE, name + ".lock")

    def __enter__(self):
        self.f = open(self.path, "w")
        fcntl.flock(self.f, fcntl.LOCK_EX)
        return self

    def __exit__(self, *a):
        fcntl.flock(self.f, fcntl.LOCK_UN)
        self.f.close()


def hash_files(paths):
    h = hashlib.sha256()
    for p in sorted(paths):
        h.update(p.encode())
        try:
            with open(p, "rb") as f:
                h.update(f.read())
        except OSError:
            h.update(b"<missing>")
    return h.hexdigest()[:20]


def tree_files(root, exts=None):
    out = []
    for d, _, fs in os.walk(root):
        for f in fs:
            if exts is None or os.path.splitext(f)[1] in exts:
                out.append(os.path.join(d, f))
    return out


# --------------------------------------------------------------------------
# Coq side
# --------------------------------------------------------------------------

def coq_sources():
    return sorted(f for f in os.listdir(COQ) if f.endswith(".v"))


def forbidden_gate():
    """grep gate over the whole development; returns list of offending lines"""
    bad = []
    for f in coq_sources():
        txt = open(os.path.join(COQ, f)).read()
        # strip comments (non-nested is enough for our files; nested handled by loop)
        prev = None
        while prev != txt:
            prev = txt
            txt = re.sub(r"\(\*(?:(?!\(\*|\*\)).)*\*\)", lambda m: "\n" * m.group(0).count("\n"), txt, flags=re.S)
        in_section = 0
        for i, line in enumerate(txt.split("\n"), 1):
            if re.match(r"\s*Section\b", line):
                in_section += 1
            if re.match(r"\s*End\b", line) and in_section:
                in_section -= 1
            m = FORBIDDEN.search(line)
            if m:
                w = m.group(0)
                if w in ("Variable", "Variables", "Hypothesis", "Hypotheses") and in_section:
                    continue
                bad.append("%s:%d: %s" % (f, i, line.strip()))
    return bad


def gen_coq_project():
    """_CoqProject and Extract.v are generated: every *.v in coq/ is part of the
    project; Extract.v is assembled from coq/extract.d/*.txt (first lines
    starting with From/Require are imports, the rest are names to extract)"""
    imports, names = [], []
    ed = os.path.join(COQ, "extract.d")
    for f in sorted(os.listdir(ed)):
        if not f.endswith(".txt"):
            continue
        for line in open(os.path.join(ed, f)):
            line = line.strip()
            if not line or line.startswith("#"):
                continue
            if line.startswith(("From ", "Require ")):
                if line not in imports:
                    imports.append(line)
            elif line.startswith("ocaml:"):
                pass
            else:
                names += line.split()
    ext = ("(* Extract.v -- GENERATED from extract.d/*.txt by harness/common.py; do not edit.\n"
           "   Only ExtrOcamlBasic is used: Z, N, positive, nat stay the extracted inductive types. *)\n"
           "From Coq Require Import Extraction ExtrOcamlBasic.\n" + "\n".join(imports) +
           "\nExtraction Language OCaml.\nSeparate Extraction\n  " + "\n  ".join(names) + ".\n")
    p = os.path.join(COQ, "Extract.v")
    if not os.path.exists(p) or open(p).read() != ext:
        open(p, "w").write(ext)
    vs = sorted(f for f in os.listdir(COQ) if f.endswith(".v"))
    proj = "-Q . Sbepp\n" + "\n".join(vs) + "\n"
    p = os.path.join(COQ, "_CoqProject")
    if not os.path.exists(p) or open(p).read() != proj:
        open(p, "w").write(proj)


def ensure_model(force=False):
    """build all .vo files, extract model.ml and compile the OCaml driver"""
    with Lock("model"):
        # translator: the table-like parts of /repo's CURRENT sources become coq/SrcTables.v on every run
        import srctables
        _changed, _err = srctables.regenerate(REPO, COQ)
        if _err:
            sys.stderr.write("[translate] /repo tables could not be translated: %s\n" % _err)
        # translator, expression level: clang's typed AST of small integer functions of sbepp.hpp -> coq/SrcExprs.v
        import srcexprs
        _changed2, _err2 = srcexprs.regenerate(REPO, COQ)
        if _err2:
            sys.stderr.write("[translate] /repo expressions could not be translated: %s\n" % _err2)
        srcs = [os.path.join(COQ, f) for f in coq_sources() if f != "Extract.v"] + \
               tree_files(os.path.join(COQ, "extract.d")) + \
               tree_files(os.path.join(VERIF, "ocaml"), {".ml"})
        key = hash_files(srcs)
        stamp = os.path.join(BUILD, "model.stamp")
        drv = os.path.join(BUILD, "model_driver")
        if not force and os.path.exists(stamp) and open(stamp).read() == key and os.path.exists(drv):
            return drv
        os.makedirs(BUILD, exist_ok=True)
        t0 = time.time()
        gen_coq_project()
        for f in ("Extract.vo", "Extract.glob", "Extract.vos", "Extract.vok"):
            try:
                os.remove(os.path.join(COQ, f))   # extraction output is a side effect of compiling Extract.v
            except OSError:
                pass
        sh(["coq_makefile", "-f", "_CoqProject", "-o", "Makefile.coq"], cwd=COQ, check=True)
        rc, out, err = sh(["make", "-f", "Makefile.coq", "-k", "-j16"], cwd=COQ, timeout=3000)
        # a broken proof file must not prevent the model from being extracted
        if not os.path.exists(os.path.join(COQ, "Extract.vo")) or rc != 0:
            rc2, out2, err2 = sh(["make", "-f", "Makefile.coq", "Extract.vo"], cwd=COQ, timeout=3000)
            if rc2 != 0:
                raise RuntimeError("Coq model does not build:\n" + out2[-3000:] + err2[-3000:])
        # Separate Extraction leaves one .ml/.mli per Coq module in coq/
        for f in os.listdir(BUILD):
            if f.endswith((".ml", ".mli", ".cmi", ".cmx", ".o")):
                os.remove(os.path.join(BUILD, f))
        gen = [f for f in os.listdir(COQ) if f.endswith((".ml", ".mli"))]
        for f in gen:
            shutil.move(os.path.join(COQ, f), os.path.join(BUILD, f))
        # model.ml: prelude re-exporting the extracted modules (directives `ocaml: ...` in extract.d)
        prelude = ["(* GENERATED prelude: re-exports of the separately extracted Coq modules *)"]
        ed = os.path.join(COQ, "extract.d")
        for f in sorted(os.listdir(ed)):
            for line in open(os.path.join(ed, f)):
                if line.startswith("ocaml:"):
                    prelude.append(line[len("ocaml:"):].strip())
        open(os.path.join(BUILD, "model.ml"), "w").write("\n".join(prelude) + "\n")
        mls = sorted(f for f in os.listdir(os.path.join(VERIF, "ocaml")) if f.endswith(".ml"))
        for f in mls:
            shutil.copy(os.path.join(VERIF, "ocaml", f), os.path.join(BUILD, f))
        rc3, out3, err3 = sh(["ocamlfind", "ocamldep", "-sort"] + sorted(f for f in os.listdir(BUILD) if f.endswith((".ml", ".mli"))),
                             cwd=BUILD, check=True)
        order = [f for f in out3.split() if f != "drv_main.ml"] + ["drv_main.ml"]
        sh(["ocamlfind", "ocamlopt", "-w", "-a", "-o", "model_driver"] + order, cwd=BUILD, check=True)
        open(stamp, "w").write(key)
        log("[model] built in %.1fs (make rc=%d)" % (time.time() - t0, rc))
        return drv


def coq_check(pid):
    """(re)check Properties_<pid>.v.  Returns dict with obligations, discharged,
    assumptions (per theorem), ok, log"""
    ensure_model()
    fn = "Properties_%s.v" % pid
    path = os.path.join(COQ, fn)
    res = {"file": fn, "obligations": 0, "discharged": 0, "assumptions": {}, "ok": False, "log": "",
           "theorems": []}
    if not os.path.exists(path):
        res["log"] = "missing " + fn
        return res
    txt = open(path).read()
    thms = re.findall(r"^\s*Theorem\s+(\w+)", txt, flags=re.M)
    res["theorems"] = thms
    res["obligations"] = len(thms)
    with Lock("model"):
        rc, out, err = sh(["make", "-f", "Makefile.coq", "Properties_%s.vo" % pid], cwd=COQ, timeout=3000)
        if rc == 0:
            # re-run coqc on the property file itself to capture Print Assumptions
            rc, out, err = sh(["coqc", "-Q", ".", "Sbepp", fn], cwd=COQ, timeout=1800)
    res["log"] = (out + err)[-6000:]
    if rc != 0:
        return res
    # split Print Assumptions output: one block per theorem, in order
    blocks = re.split(r"(?=Closed under the global context|Axioms:)", out)
    blocks = [b.strip() for b in blocks if b.strip().startswith(("Closed", "Axioms:"))]
    for name, b in zip(thms, blocks):
        res["assumptions"][name] = b if b.startswith("Axioms:") else "Closed under the global context"
    res["discharged"] = len(thms) if len(blocks) >= len(thms) else len(blocks)
    res["ok"] = (res["discharged"] == res["obligations"] and res["obligations"] > 0)
    return res


class Model:
    """pipe to the extracted model driver"""

    def __init__(self):
        self.path = ensure_model()

    def run(self, lines):
        if not lines:
            return []
        rc, out, err = sh([self.path], inp=("\n".join(lines) + "\n").encode(), timeout=3600)
        if rc != 0:
            raise RuntimeError("model driver failed: " + err[-2000:])
        res = out.split("\n")
        if res and res[-1] == "":
            res.pop()
        if len(res) != len(lines):
            raise RuntimeError("model driver: %d lines in, %d out" % (len(lines), len(res)))
        return res


# --------------------------------------------------------------------------
# C++ side
# --------------------------------------------------------------------------

SBEPP_HPP = os.path.join(REPO, "sbepp/src/sbepp/sbepp.hpp")
SBEPPC_SRC = os.path.join(REPO, "sbeppc/src")


def repo_hash(parts=("sbepp", "sbeppc")):
    fs = []
    if "sbepp" in parts:
        fs += tree_files(os.path.join(REPO, "sbepp/src"))
    if "sbeppc" in parts:
        fs += tree_files(SBEPPC_SRC)
    return hash_files(fs)


def gc_cache(keep=600):
    """keep the cache bounded: remove oldest hash dirs"""
    try:
        ds = [os.path.join(CACHE, d) for d in os.listdir(CACHE) if os.path.isdir(os.path.join(CACHE, d))]
        ds.sort(key=os.path.getmtime, reverse=True)
        for d in ds[keep:]:
            shutil.rmtree(d, ignore_errors=True)
    except OSError:
        pass


def build_sbeppc(sanitize=False):
    """compile sbeppc from /repo's working tree (one TU). Returns path or raises"""
    key = repo_hash() + ("-san" if sanitize else "")
    d = os.path.join(CACHE, "sbeppc-" + key)
    exe = os.path.join(d, "sbeppc")
    with Lock("sbeppc-" + key):
        if os.path.exists(exe):
            os.utime(d)
            return exe
        gc_cache()
        os.makedirs(d, exist_ok=True)
        bi = os.path.join(d, "build_info.cpp")
        open(bi, "w").write(
            '#include <sbepp/sbeppc/build_info.hpp>\n'
            'namespace sbepp::sbeppc { std::string_view build_info::get_version(){ return "verif"; } }\n')
        flags = ["-O1"]
        if sanitize:
            flags = ["-O1", "-g", "-fsanitize=address,undefined", "-fno-sanitize-recover=all",
                     "-UNDEBUG", "-D_GLIBCXX_ASSERTIONS", "-fno-omit-frame-pointer"]
        cmd = ["g++", "-std=c++17"] + flags + [
            "-D" + HOOK_GUARD, "-DFMT_SHARED", "-I" + SBEPPC_SRC, "-I" + os.path.join(REPO, "sbepp/src"),
            "-isystem", MINICONDA + "/include",
            os.path.join(SBEPPC_SRC, "sbepp/sbeppc/main.cpp"), bi, "-o", exe + ".tmp",
            "-Wl,-rpath," + MINICONDA + "/lib", MINICONDA + "/lib/libfmt.so",
            "/usr/lib/x86_64-linux-gnu/libpugixml.so"]
        t0 = time.time()
        rc, out, err = sh(cmd, timeout=1200)
        if rc != 0:
            raise BuildError("sbeppc does not build from /repo:\n" + err[-4000:])
        os.rename(exe + ".tmp", exe)
        log("[sbeppc] built%s in %.1fs" % (" (sanitized)" if sanitize else "", time.time() - t0))
        return exe


class BuildError(Exception):
    pass


def run_sbeppc(exe, xml_path, out_dir, extra=(), timeout=60, env=None):
    os.makedirs(out_dir, exist_ok=True)
    return sh([exe, "--output-dir", out_dir] + list(extra) + [xml_path], timeout=timeout, env=env)


def compile_cpp(src, exe, std="c++17", cxx="g++", flags=(), includes=(), defines=(), timeout=900,
                syntax_only=False):
    cmd = [cxx, "-std=" + std, "-I" + os.path.join(REPO, "sbepp/src"), "-I" + os.path.join(VERIF, "cpp")]
    cmd += ["-I" + i for i in includes]
    cmd += ["-D" + d for d in defines] + ["-D" + HOOK_GUARD]
    cmd += list(flags)
    if syntax_only:
        cmd += ["-fsyntax-only", src]
    else:
        cmd += [src, "-o", exe]
    rc, out, err = sh(cmd, timeout=timeout)
    return rc, err


def cached_cpp(name, src_text_or_path, std="c++17", cxx="g++", flags=("-O1",), includes=(), defines=(),
               extra_hash="", timeout=900):
    """compile a harness, cached by (harness source, sbepp.hpp, flags...)"""
    if os.path.exists(src_text_or_path):
        src = src_text_or_path
        src_hash = hash_files([src] + tree_files(os.path.join(VERIF, "cpp")))
    else:
        raise ValueError("source path expected")
    key = hashlib.sha256(("|".join([name, src_hash, repo_hash(("sbepp",)), std, cxx, " ".join(flags),
                                   " ".join(includes), " ".join(defines), extra_hash])).encode()).hexdigest()[:20]
    d = os.path.join(CACHE, "cpp-" + key)
    exe = os.path.join(d, name)
    with Lock("cpp-" + key):
        if os.path.exists(exe):
            os.utime(d)
            return exe
        gc_cache(keep=600)
        os.makedirs(d, exist_ok=True)
        t0 = time.time()
        rc, err = compile_cpp(src, exe + ".tmp", std, cxx, flags, includes, defines, timeout)
        if rc != 0:
            shutil.rmtree(d, ignore_errors=True)
            raise BuildError("harness %s does not build against /repo (%s %s):\n%s" % (name, cxx, std, err[-4000:]))
        os.rename(exe + ".tmp", exe)
        log("[cpp] %s %s %s built in %.1fs" % (name, cxx, std, time.time() - t0))
        return exe


def run_lines(exe, lines, timeout=3600, env=None):
    rc, out, err = sh([exe], inp=("\n".join(lines) + "\n").encode(), timeout=timeout, env=env)
    res = out.split("\n")
    if res and res[-1] == "":
        res.pop()
    return rc, res, err


# --------------------------------------------------------------------------
# Evidence / violations / known findings
# --------------------------------------------------------------------------

def load_known():
    p = os.path.join(VERIF, "known_findings.json")
    if not os.path.exists(p):
        return {"open": [], "fixed": []}
    return json.load(open(p))


class Result:
    def __init__(self, pid, tier, seed):
        self.pid = pid
        self.tier = tier
        self.seed = seed
        self.t0 = time.time()
        self.evaluations = 0
        self.nontrivial = set()
        self.samples = []
        self.violations = []      # (signature, description, replay dict)
        self.known_hits = {}      # signature -> description
        self.violation_counts = {}
        self.extra = {}
        self.rule = ""
        self.assumptions = []
        self.coq = None
        self.known = load_known()

    def count(self, case_key, nontrivial=True):
        self.evaluations += 1
        if nontrivial:
            self.nontrivial.add(hashlib.sha1(str(case_key).encode()).digest()[:8])

    def sample(self, s, limit=6):
        if len(self.samples) < limit:
            self.samples.append(s)

    def violation(self, signature, what, replay):
        """record a violation unless its signature is a listed open known finding"""
        for k in self.known.get("open", []):
            if k["property"] == self.pid and re.fullmatch(k["signature"], signature):
                self.known_hits.setdefault(k["signature"], k["what"])
                return False
        self.violation_counts[signature] = self.violation_counts.get(signature, 0) + 1
        if self.violation_counts[signature] == 1 and len(self.violations) < 200:
            self.violations.append((signature, what, replay))
        return True

    def finish(self, level="proof", checker_cmd="", trusted=None, extra_cov=None):
        wall = time.time() - self.t0
        if level not in ("exploration", "fault_enumeration", "model_checking", "proof", "translation_validation", "other"):
            self.extra["level_detail"] = level       # free-text refinement; the schema level stays "proof"
            level = "proof"
        os.makedirs(os.path.join(VERIF, "evidence"), exist_ok=True)
        os.makedirs(os.path.join(VERIF, "replays"), exist_ok=True)
        cov = {
            "evaluations": self.evaluations,
            "distinct_nontrivial": len(self.nontrivial),
            "rule": self.rule,
            "samples": self.samples[:8] or ["(none)"],
        }
        if self.coq is not None:
            cov["obligations"] = self.coq["obligations"]
            cov["discharged"] = self.coq["discharged"]
            cov["checker_cmd"] = checker_cmd or ("make -C coq Properties_%s.vo && coqc -Q . Sbepp Properties_%s.v" % (self.pid, self.pid))
            tb = list(trusted or [])
            tb.append("Coq 8.16.1 kernel (coqc); vm_compute used for closed Examples only; no native_compute")
            for th, a in self.coq["assumptions"].items():
                tb.append("Print Assumptions %s: %s" % (th, a.replace("\n", " ")))
            cov["trusted_base"] = tb
            cov["theorems"] = self.coq["theorems"]
        if extra_cov:
            cov.update(extra_cov)
        cov.update(self.extra)
        ev = {
            "property_id": self.pid,
            "tier": self.tier,
            "seed": self.seed,
            "level": level,
            "coverage": cov,
            "assumptions": self.assumptions,
            "wall_s": round(wall, 2),
            "violations": len(self.violations),
            "known_findings_hit": sorted(self.known_hits),
            "violation_signatures": self.violation_counts,
        }
        with open(os.path.join(VERIF, "evidence", self.pid + ".json"), "w") as f:
            json.dump(ev, f, indent=1)
        for sig, what in sorted(self.known_hits.items()):
            print("KNOWN-FINDING: property=%s %s" % (self.pid, what))
        if not self.violations:
            print("OK property=%s tier=%s evaluations=%d wall=%.1fs" % (self.pid, self.tier, self.evaluations, wall))
            return 0
        seen = set()
        for sig, what, replay in self.violations:
            if sig in seen:
                continue
            seen.add(sig)
            dig = hashlib.sha1((sig + json.dumps(replay, sort_keys=True, default=str)).encode()).hexdigest()[:12]
            path = os.path.join(VERIF, "replays", "%s-%s.json" % (self.pid, dig))
            replay = dict(replay)
            replay.update({"property": self.pid, "signature": sig, "what": what, "seed": self.seed,
                           "tier": self.tier})
            with open(path, "w") as f:
                json.dump(replay, f, indent=1, default=str)
            tail = " no-failing-input-found" if replay.get("no_failing_input") else ""
            print("VIOLATION property=%s replay=%s%s" % (self.pid, path, tail))
            log("  " + what)
        return 1


def proof_step(res):
    """run the Coq side of a check; on failure record a violation (the caller
    still runs the correspondence to look for a failing input)"""
    bad = forbidden_gate()
    coq = coq_check(res.pid)
    res.coq = coq
    if bad:
        coq["ok"] = False
        coq["discharged"] = 0
        coq["log"] = "forbidden constructs:\n" + "\n".join(bad)
    return coq["ok"]


def proof_failure_violation(res, found_input):
    """called at the end when the proof step failed"""
    if found_input:
        return
    res.violations.append((
        "proof:%s" % res.pid,
        "theorems of %s no longer check and no failing input was found" % res.coq["file"],
        {"no_failing_input": True, "theorem_file": res.coq["file"], "theorems": res.coq["theorems"],
         "coqc_log": res.coq["log"][-3000:]}))


def tmpdir(prefix="sbepp-verif-"):
    return tempfile.mkdtemp(prefix=prefix)


def gen_headers(name, xml_text, extra=(), sanitize=False):
    """run /repo's sbeppc on a schema text; returns (include_dir, rc, stdout).
    Cached by (schema text, sbeppc sources)."""
    exe = build_sbeppc(sanitize)
    key = hashlib.sha256((xml_text + repo_hash() + " ".join(extra)).encode()).hexdigest()[:20]
    d = os.path.join(CACHE, "gen-" + key)
    with Lock("gen-" + key):
        meta = os.path.join(d, "meta.json")
        if os.path.exists(meta):
            os.utime(d)
            m = json.load(open(meta))
            return os.path.join(d, "out"), m["rc"], m["out"]
        gc_cache(keep=600)
        shutil.rmtree(d, ignore_errors=True)
        os.makedirs(d)
        xml = os.path.join(d, name + ".xml")
        open(xml, "w").write(xml_text)
        rc, out, err = run_sbeppc(exe, xml, os.path.join(d, "out"), extra)
        json.dump({"rc": rc, "out": out + err}, open(meta, "w"))
        return os.path.join(d, "out"), rc, out + err


SCHEMA_HEAD = '''<?xml version="1.0" encoding="UTF-8"?>
<sbe:messageSchema xmlns:sbe="http://fixprotocol.io/2016/sbe"
    package="%(package)s" id="%(id)d" version="%(version)d" byteOrder="%(order)s">
'''

STD_TYPES = '''
    <composite name="messageHeader">
        <type name="blockLength" primitiveType="uint16"/>
        <type name="templateId" primitiveType="uint16"/>
        <type name="schemaId" primitiveType="uint16"/>
        <type name="version" primitiveType="uint16"/>
    </composite>
    <composite name="groupSizeEncoding">
        <type name="blockLength" primitiveType="uint16"/>
        <type name="numInGroup" primitiveType="uint16"/>
    </composite>
    <composite name="varDataEncoding">
        <type name="length" primitiveType="uint32"/>
        <type name="varData" primitiveType="uint8" length="0"/>
    </composite>
'''


def schema_xml(package, types_xml, messages_xml="", order="littleEndian", sid=1, version=0, std_types=True):
    s = SCHEMA_HEAD % {"package": package, "id": sid, "version": version, "order": order}
    s += "<types>\n" + (STD_TYPES if std_types else "") + types_xml + "\n</types>\n"
    s += messages_xml + "\n</sbe:messageSchema>\n"
    return s
