"""Generated translation units for C07 / C18 over a namegen schema:

  touch_tu(s, names, params)   C07: names every entity through its documented
      public path (<schema>::types::X, <schema>::messages::M<char>,
      <schema>::schema::types::X::member tags ...), instantiates every
      accessor, by-tag accessor, cursor accessor, trait and visitor entry
      point, and pins the implementation names the naming model predicts
      (static_assert is_same with <schema>::detail::...).
  dump_tu(s) / dump_expected(s, derived)   C18: prints every trait of every
      entity in a canonical text format, and the same text computed from the
      AST (copy-through traits) and from the Coq model (derived traits).
"""
import struct
import sys
from namegen import *

PRES_IDX = {"required": 0, "optional": 1, "constant": 2}
WRAP = {p: "::sbepp::%s_t" % p for p in PRIMS}
WRAP_OPT = {p: "::sbepp::%s_opt_t" % p for p in PRIMS}


def cstr(s):
    """a C++ string literal for a Python str (UTF-8 bytes, everything escaped)"""
    return '"' + "".join("\\%03o" % b for b in s.encode("utf-8")) + '"'


def hexs(s):
    b = s.encode("utf-8")
    return b.hex() if b else "-"


class Paths:
    def __init__(self, s):
        self.s = s
        self.P = "::" + s.package
        self.TT = self.P + "::schema::types"
        self.MT = self.P + "::schema::messages"

    def traits_name(self, t):
        return {"type": "type_traits", "enum": "enum_traits", "set": "set_traits", "composite": "composite_traits"}[t.kind]

    def value_type(self, tag, t):
        """expression for the representation type of encoding t with tag [tag] (through its traits)"""
        tr = "::sbepp::%s<%s>" % (self.traits_name(t), tag)
        if t.kind == "composite" or (t.kind == "type" and t.length != 1 and t.presence != "constant"):
            return tr + "::value_type<char>"
        return tr + "::value_type"

    def is_template(self, t):
        return t.kind == "composite" or (t.kind == "type" and t.length != 1 and t.presence != "constant")

    def public_type(self, t):
        return "%s::types::%s%s" % (self.P, t.name, "<char>" if self.is_template(t) else "")

    def field_value_type(self, f):
        """(expected type expression, is_template, value_type_tag expr or None) of a field"""
        s = self.s
        if f.type_name in PSIZE:
            if f.presence == "constant":
                return CPP_T[f.type_name], False, None
            w = (WRAP_OPT if f.presence == "optional" else WRAP)[f.type_name]
            return w, False, w
        t = s.lookup(f.type_name)
        tag = "%s::%s" % (self.TT, t.name)
        if t.kind == "type" and t.presence == "constant":
            if t.length != 1:
                return "%s::types::%s" % (self.P, t.name), False, None
            return CPP_T[t.prim], False, None
        if t.kind == "enum" and f.presence == "constant":
            return "%s::types::%s" % (self.P, t.name), False, None
        if self.is_template(t):
            return "%s::types::%s<char>" % (self.P, t.name), True, tag
        return "%s::types::%s" % (self.P, t.name), False, tag


def actual_presence(s, f):
    if f.type_name in PSIZE:
        return f.presence or "required"
    t = s.lookup(f.type_name)
    if t.kind == "type":
        return t.presence
    if t.kind == "composite":
        return f.presence or "required"
    if t.kind == "enum":
        return "constant" if f.presence == "constant" else "required"
    return "required"


# ======================================================================
# C07: touch everything
# ======================================================================

class Touch:
    def __init__(self, s, names=None, params=None):
        self.s, self.p = s, Paths(s)
        self.names = names or {}      # "types" -> {key: (impl, mangled)}, "msgs" -> {key: (impl, entry, mangled)}, tag names
        self.params = params or {}    # key -> number of size_bytes parameters
        self.o = []
        self.n = 0

    def w(self, line):
        self.o.append(line)

    def uid(self):
        self.n += 1
        return self.n

    # ---- encodings ----
    def enc(self, t, tag, key, public):
        p, w = self.p, self.w
        k = self.uid()
        tr = "::sbepp::%s<%s>" % (p.traits_name(t), tag)
        vt = p.value_type(tag, t)
        w("  { // %s" % key)
        w("    using Tr%d = %s; using V%d = %s;" % (k, tr, k, vt))
        w("    c07::use(Tr%d::name()); c07::use(Tr%d::description()); c07::use(Tr%d::since_version());" % (k, k, k))
        if t.depr is not None:
            w("    c07::use(Tr%d::deprecated());" % k)
        if public:
            w("    static_assert(std::is_same<V%d, %s>::value, \"public alias %s\");" % (k, p.public_type(t), key))
            w("    static_assert(std::is_same<%s::%s, %s>::value, \"tag %s\");" % (p.TT, t.name, tag, key))
        info = self.names.get("types", {}).get(key)
        if info:
            impl, mangled = info
            ns = "types" if (public and not mangled) else "detail::types"
            w("    static_assert(std::is_same<V%d, %s::%s::%s%s>::value, \"implementation name %s\");"
              % (k, p.P, ns, impl, "<char>" if p.is_template(t) else "", key))
            if public:
                w("    static_assert(std::is_same<%s, %s::detail::schema::types::%s>::value, \"tag implementation name %s\");"
                  % (tag, p.P, impl, key))
        if t.kind == "type":
            w("    c07::use(Tr%d::presence()); c07::use(Tr%d::length()); c07::use(Tr%d::semantic_type()); c07::use(Tr%d::character_encoding());" % (k, k, k, k))
            w("    static_assert(std::is_same<Tr%d::primitive_type, %s>::value, \"primitive_type %s\");" % (k, CPP_T[t.prim], key))
            if t.presence == "constant":
                w("    static_assert(sizeof(V%d) > 0, \"\");" % k)
            elif t.length != 1:
                w("    V%d a{buf, n}; c07::use(a.size()); c07::use(a.begin()); c07::use(a.end()); c07::use(a.data());" % k)
                w("    static_assert(std::is_same<::sbepp::traits_tag_t<V%d>, %s>::value, \"traits_tag %s\");" % (k, tag, key))
                w("    static_assert(::sbepp::is_array_type<V%d>::value, \"\");" % k)
            else:
                w("    V%d x{}; c07::use(*x); c07::use(x.value()); c07::use(x.in_range()); x = V%d{V%d::min_value()};" % (k, k, k))
                w("    c07::use(V%d::min_value()); c07::use(V%d::max_value()); c07::use(Tr%d::min_value()); c07::use(Tr%d::max_value());" % (k, k, k, k))
                if t.presence == "optional":
                    w("    c07::use(V%d::null_value()); c07::use(Tr%d::null_value()); c07::use(x.has_value());" % (k, k))
                w("    static_assert(std::is_same<::sbepp::traits_tag_t<V%d>, %s>::value, \"traits_tag %s\");" % (k, tag, key))
                w("    static_assert(::sbepp::is_%s_type<V%d>::value, \"\");" % ("optional" if t.presence == "optional" else "required", k))
        elif t.kind == "enum":
            w("    V%d e{}; c07::use(::sbepp::to_underlying(e)); ::sbepp::visit(e, vis); c07::use(::sbepp::enum_to_string(e));" % k)
            w("    static_assert(std::is_same<Tr%d::encoding_type, %s>::value, \"encoding_type %s\");" % (k, CPP_T[self.s.enc_prim(t)], key))
            w("    static_assert(std::is_same<::sbepp::traits_tag_t<V%d>, %s>::value, \"traits_tag %s\");" % (k, tag, key))
            w("    static_assert(::sbepp::is_enum<V%d>::value, \"\");" % k)
            for v in t.values:
                w("    e = V%d::%s; using VT%d_%d = ::sbepp::enum_value_traits<%s::%s>;" % (k, v.name, k, self.uid(), tag, v.name))
                w("    static_assert(::sbepp::enum_value_traits<%s::%s>::value() == V%d::%s, \"enum value %s\");" % (tag, v.name, k, v.name, key))
                w("    c07::use(::sbepp::enum_value_traits<%s::%s>::name()); c07::use(::sbepp::enum_value_traits<%s::%s>::description());" % (tag, v.name, tag, v.name))
        elif t.kind == "set":
            w("    V%d st{}; c07::use(*st); ::sbepp::visit(st, vis); ::sbepp::visit_set(st, c07::set_string_visitor{});" % k)
            w("    static_assert(std::is_same<Tr%d::encoding_type, %s>::value, \"encoding_type %s\");" % (k, CPP_T[self.s.enc_prim(t)], key))
            w("    static_assert(std::is_same<::sbepp::traits_tag_t<V%d>, %s>::value, \"traits_tag %s\");" % (k, tag, key))
            w("    static_assert(::sbepp::is_set<V%d>::value, \"\");" % k)
            for v in t.values:
                w("    c07::use(st.%s()); st.%s(true); c07::use(::sbepp::get_by_tag<%s::%s>(st)); ::sbepp::set_by_tag<%s::%s>(st, false);"
                  % (v.name, v.name, tag, v.name, tag, v.name))
                w("    static_assert(::sbepp::set_choice_traits<%s::%s>::index() == %s, \"choice index %s\");" % (tag, v.name, v.value, key))
                w("    c07::use(::sbepp::set_choice_traits<%s::%s>::name());" % (tag, v.name))
        else:
            w("    V%d c{buf, n}; c07::use(::sbepp::size_bytes(c)); c07::use(::sbepp::addressof(c)); ::sbepp::visit(c, vis); ::sbepp::visit_children(c, vis);" % k)
            w("    c07::use(Tr%d::semantic_type()); c07::use(Tr%d::size_bytes());" % (k, k))
            w("    static_assert(std::is_same<::sbepp::traits_tag_t<V%d>, %s>::value, \"traits_tag %s\");" % (k, tag, key))
            w("    static_assert(::sbepp::is_composite<V%d>::value, \"\");" % k)
            for m in t.members:
                tgt = self.s.lookup(m.ref) if m.kind == "ref" else m
                w("    { auto x = c.%s(); c07::use(x); auto y = ::sbepp::get_by_tag<%s::%s>(c); c07::use(y);" % (m.name, tag, m.name))
                if not tgt.is_const() and tgt.kind != "composite" and not (tgt.kind == "type" and tgt.length != 1):
                    w("      c.%s(x); ::sbepp::set_by_tag<%s::%s>(c, x);" % (m.name, tag, m.name))
                w("    }")
                if m.kind == "ref":
                    w("    c07::use(::sbepp::%s<%s::%s>::name()); c07::use(::sbepp::%s<%s::%s>::since_version());"
                      % (p.traits_name(tgt), tag, m.name, p.traits_name(tgt), tag, m.name))
        w("  }")
        if t.kind == "composite":
            for m in t.members:
                if m.kind != "ref":
                    self.enc(m, "%s::%s" % (tag, m.name), "%s/%s" % (key, m.name), False)

    # ---- message levels ----
    def level(self, lv, var, tag, key, cur):
        p, w, s = self.p, self.w, self.s
        for f in lv.fields:
            ftag = "%s::%s" % (tag, f.name)
            pres = actual_presence(s, f)
            vt, is_t, vtag = p.field_value_type(f)
            w("    { auto x = %s.%s(); c07::use(x); c07::use(::sbepp::get_by_tag<%s>(%s));" % (var, f.name, ftag, var))
            if pres != "constant":
                w("      c07::use(%s.%s(%s));" % (var, f.name, cur))
            w("      static_assert(std::is_same<decltype(x), %s>::value, \"field type %s/%s\");" % (vt, key, f.name))
            settable = pres != "constant"
            if settable and f.type_name not in PSIZE:
                t = s.lookup(f.type_name)
                settable = not (t.kind == "composite" or (t.kind == "type" and t.length != 1))
            if settable:
                w("      %s.%s(x); ::sbepp::set_by_tag<%s>(%s, x); %s.%s(x, %s);" % (var, f.name, ftag, var, var, f.name, cur))
            w("      using FT = ::sbepp::field_traits<%s>; c07::use(FT::name()); c07::use(FT::id()); c07::use(FT::description());" % ftag)
            w("      c07::use(FT::presence()); c07::use(FT::offset()); c07::use(FT::since_version());")
            if f.depr is not None:
                w("      c07::use(FT::deprecated());")
            w("      static_assert(std::is_same<FT::value_type%s, %s>::value, \"field value_type %s/%s\");"
              % ("<char>" if is_t else "", vt, key, f.name))
            if vtag:
                w("      static_assert(std::is_same<FT::value_type_tag, %s>::value, \"field value_type_tag %s/%s\");" % (vtag, key, f.name))
            w("    }")
        for g in lv.groups:
            gtag = "%s::%s" % (tag, g.name)
            gkey = "%s/%s" % (key, g.name)
            k = self.uid()
            w("    { auto g%d = %s.%s(); c07::use(g%d.size()); c07::use(g%d.empty()); ::sbepp::fill_group_header(g%d, 0); g%d.resize(0);"
              % (k, var, g.name, k, k, k, k))
            w("      c07::use(::sbepp::get_by_tag<%s>(%s)); c07::use(::sbepp::size_bytes(g%d)); c07::use(::sbepp::get_header(g%d)); g%d.clear();" % (gtag, var, k, k, k))
            w("      using GT = ::sbepp::group_traits<%s>; c07::use(GT::name()); c07::use(GT::id()); c07::use(GT::description());" % gtag)
            w("      c07::use(GT::block_length()); c07::use(GT::semantic_type()); c07::use(GT::since_version());")
            if g.depr is not None:
                w("      c07::use(GT::deprecated());")
            w("      static_assert(std::is_same<GT::value_type<char>, decltype(g%d)>::value, \"group value_type %s\");" % (k, gkey))
            w("      static_assert(std::is_same<GT::dimension_type<char>, %s::types::%s<char>>::value, \"dimension_type %s\");" % (p.P, g.dim, gkey))
            w("      static_assert(std::is_same<::sbepp::traits_tag_t<GT::value_type<char>>, %s>::value, \"group traits_tag %s\");" % (gtag, gkey))
            w("      static_assert(std::is_same<::sbepp::traits_tag_t<GT::entry_type<char>>, %s>::value, \"entry traits_tag %s\");" % (gtag, gkey))
            info = self.names.get("msgs", {}).get(gkey)
            if info:
                impl, entry, mangled = info
                w("      static_assert(std::is_same<GT::value_type<char>, %s::detail::messages::%s<char>>::value, \"group implementation name %s\");" % (p.P, impl, gkey))
                w("      static_assert(std::is_same<GT::entry_type<char>, %s::detail::messages::%s<char>>::value, \"entry implementation name %s\");" % (p.P, entry, gkey))
            np = self.params.get(gkey)
            if np is not None:
                w("      c07::use(GT::size_bytes(%s));" % ", ".join(["0"] * np))
            w("      for(auto e%d : g%d) {" % (k, k))
            w("        static_assert(std::is_same<decltype(e%d), GT::entry_type<char>>::value, \"entry type %s\");" % (k, gkey))
            w("        auto ec%d = ::sbepp::init_cursor(e%d); c07::use(::sbepp::size_bytes(e%d));" % (k, k, k))
            self.level(g, "e%d" % k, gtag, gkey, "ec%d" % k)
            w("      }")
            w("      { auto gc = %s.%s(%s); for(auto e : gc.cursor_range(%s)) { c07::use(e); } }" % (var, g.name, cur, cur))
            w("    }")
        for d in lv.data:
            dtag = "%s::%s" % (tag, d.name)
            w("    { auto d = %s.%s(); c07::use(d.size()); d.resize(0); c07::use(::sbepp::get_by_tag<%s>(%s)); c07::use(%s.%s(%s)); c07::use(::sbepp::size_bytes(d));"
              % (var, d.name, dtag, var, var, d.name, cur))
            w("      using DT = ::sbepp::data_traits<%s>; c07::use(DT::name()); c07::use(DT::id()); c07::use(DT::description()); c07::use(DT::since_version()); c07::use(DT::size_bytes(0));" % dtag)
            if d.depr is not None:
                w("      c07::use(DT::deprecated());")
            w("      static_assert(std::is_same<DT::value_type<char>, decltype(d)>::value, \"data value_type %s/%s\");" % (key, d.name))
            w("      static_assert(std::is_same<DT::length_type_tag, %s::%s::length>::value, \"length_type_tag %s/%s\");" % (p.TT, d.type_name, key, d.name))
            w("    }")

    def message(self, m):
        p, w = self.p, self.w
        tag = "%s::%s" % (p.MT, m.name)
        w("  { // message %s" % m.name)
        w("    auto m = ::sbepp::make_view<%s::messages::%s>(buf, n); auto cm = ::sbepp::make_const_view<%s::messages::%s>(buf, n); c07::use(cm);"
          % (p.P, m.name, p.P, m.name))
        w("    static_assert(std::is_same<decltype(m), %s::messages::%s<char>>::value, \"message type %s\");" % (p.P, m.name, m.name))
        w("    using MTr = ::sbepp::message_traits<%s>; c07::use(MTr::name()); c07::use(MTr::description()); c07::use(MTr::id());" % tag)
        w("    c07::use(MTr::block_length()); c07::use(MTr::semantic_type()); c07::use(MTr::since_version());")
        if m.depr is not None:
            w("    c07::use(MTr::deprecated());")
        w("    static_assert(std::is_same<MTr::value_type<char>, decltype(m)>::value, \"message value_type %s\");" % m.name)
        w("    static_assert(std::is_same<MTr::schema_tag, %s::schema>::value, \"schema_tag %s\");" % (p.P, m.name))
        w("    static_assert(std::is_same<::sbepp::traits_tag_t<decltype(m)>, %s>::value, \"message traits_tag %s\");" % (tag, m.name))
        info = self.names.get("msgs", {}).get(m.name)
        if info:
            impl, _, mangled = info
            ns = "detail::messages" if mangled else "messages"
            w("    static_assert(std::is_same<decltype(m), %s::%s::%s<char>>::value, \"message implementation name %s\");" % (p.P, ns, impl, m.name))
        np = self.params.get(m.name)
        if np is not None:
            w("    c07::use(MTr::size_bytes(%s));" % ", ".join(["0"] * np))
        w("    c07::use(::sbepp::fill_message_header(m)); c07::use(::sbepp::get_header(m)); c07::use(::sbepp::size_bytes(m));")
        w("    c07::use(::sbepp::size_bytes_checked(m, n)); c07::use(::sbepp::addressof(m)); ::sbepp::visit(m, vis);")
        w("    auto cur = ::sbepp::init_cursor(m); ::sbepp::visit(m, cur, vis); cur = ::sbepp::init_cursor(m);")
        self.level(m, "m", tag, m.name, "cur")
        w("  }")

    def text(self):
        s, p, w = self.s, self.p, self.w
        w("// generated by harness/touchgen.py (C07)")
        w("#include <%s/%s.hpp>" % (s.package, s.package))
        w('#include "c07_touch.hpp"')
        w("void touch_types(char* buf, std::size_t n) {")
        w("  c07::deep_visitor vis; c07::use(buf); c07::use(n);")
        w("  { using ST = ::sbepp::schema_traits<%s::schema>; c07::use(ST::package()); c07::use(ST::id()); c07::use(ST::version());" % p.P)
        w("    c07::use(ST::semantic_version()); c07::use(ST::byte_order()); c07::use(ST::description());")
        w("    static_assert(std::is_same<ST::header_type<char>, %s::types::%s<char>>::value, \"header_type\");" % (p.P, s.header))
        w("    static_assert(std::is_same<ST::header_type_tag, %s::%s>::value, \"header_type_tag\");" % (p.TT, s.header))
        w("    static_assert(::sbepp::is_schema_tag<%s::schema>::value, \"\"); }" % p.P)
        tt = self.names.get("tagtypes")
        if tt and tt != "-":
            w("  static_assert(std::is_same<%s::schema::types, %s::detail::schema::%s>::value, \"mangled types tag\");" % (p.P, p.P, tt))
        tm = self.names.get("tagmsgs")
        if tm and tm != "-":
            w("  static_assert(std::is_same<%s::schema::messages, %s::detail::schema::%s>::value, \"mangled messages tag\");" % (p.P, p.P, tm))
        for t in s.types.values():
            self.enc(t, "%s::%s" % (p.TT, t.name), t.name, True)
        w("}")
        w("void touch_messages(char* buf, std::size_t n) {")
        w("  c07::deep_visitor vis; c07::use(buf); c07::use(n);")
        for m in s.messages:
            self.message(m)
        w("}")
        w("int main() { char b[4096] = {}; touch_types(b, sizeof(b)); touch_messages(b, sizeof(b)); return 0; }")
        return "\n".join(self.o) + "\n"


def touch_tu(s, names=None, params=None):
    return Touch(s, names, params).text()


# ======================================================================
# C18: trait dump
# ======================================================================
FLT = {"float": (1.17549435082228751e-38, 3.40282346638528860e+38), "double": (sys.float_info.min, sys.float_info.max)}
INT_DEFAULT = {}
for _p in INT_PRIMS:
    _b = PSIZE[_p] * 8
    if _p == "char":
        INT_DEFAULT[_p] = (32, 126, 0)
    elif _p.startswith("u"):
        INT_DEFAULT[_p] = (0, 2 ** _b - 2, 2 ** _b - 1)
    else:
        INT_DEFAULT[_p] = (-(2 ** (_b - 1) - 1), 2 ** (_b - 1) - 1, -(2 ** (_b - 1)))


def fp_expected(prim, text, which):
    """'%.17g' of the value a float/double trait must report"""
    if text is None:
        v = [FLT[prim][0], FLT[prim][1], float("nan")][which]
    elif text == "NaN":
        v = float("nan")
    elif text in ("INF", "+INF"):
        v = float("inf")
    elif text == "-INF":
        v = float("-inf")
    else:
        v = float(text)
    if prim == "float" and v == v and abs(v) != float("inf"):
        v = struct.unpack("f", struct.pack("f", v))[0]
    r = "%.17g" % v
    return "f:" + ("nan" if v != v else r)


class Dump:
    """emits the dump TU and, in the same walk, the expected text"""

    def __init__(self, s, derived):
        self.s, self.p = s, Paths(s)
        self.d = derived           # {"enc": {key: (size, off)}, "lvl": {key: bl}, "fld": {key: (off, pres)}, "kinds": {path: bits}}
        self.o = []                # C++ statements
        self.e = []                # expected lines

    def c(self, line):
        self.o.append("  " + line)

    def x(self, key, trait, value):
        self.e.append("%s %s %s" % (key, trait, value))

    def s_(self, key, trait, expr, value):
        self.c("c18::str(%s, \"%s\", %s);" % (cstr(key), trait, expr))
        self.x(key, trait, "s:" + hexs(value))

    def n_(self, key, trait, expr, value):
        self.c("c18::val(%s, \"%s\", %s);" % (cstr(key), trait, expr))
        self.x(key, trait, "i:%d" % value)

    def same(self, key, trait, a, b):
        self.c("c18::same<%s, %s>(%s, \"%s\");" % (a, b, cstr(key), trait))
        self.x(key, trait, "ok")

    def opt(self, key, trait, tr, value):
        """optional trait: value None = must be absent"""
        self.c("c18::opt_%s<%s>(%s);" % (trait, tr, cstr(key)))
        self.x(key, trait, "-" if value is None else value)

    def lst(self, key, trait, tr, names):
        self.c("c18::list_names<%s::%s>::print(%s, \"%s\");" % (tr, trait, cstr(key), trait))
        self.x(key, trait, "l:" + ",".join(names))

    def kinds(self, key, tag, path):
        self.c("c18::kinds<%s>(%s);" % (tag, cstr(key)))
        self.x(key, "kinds", self.d["kinds"].get(path, "?"))

    def common(self, key, tr, e):
        self.s_(key, "name", tr + "::name()", e.name)
        self.s_(key, "description", tr + "::description()", e.desc)
        self.n_(key, "since_version", tr + "::since_version()", e.since)
        self.opt(key, "deprecated", tr, None if e.depr is None else "i:%d" % e.depr)

    def int_value(self, prim, text, which):
        if text is None:
            return INT_DEFAULT[prim][which]
        return int(text)

    # ---- encodings ----
    def enc(self, t, tag, key, path, ref=None):
        """ref = (name, since, depr) when this is the traits of a <ref> element (inherits from the target's)"""
        s, p = self.s, self.p
        tr = "::sbepp::%s<%s>" % (p.traits_name(t), tag)
        size, off = self.d["enc"][key]
        self.kinds(key, tag, path)
        if ref is None:
            self.common(key, tr, t)
        else:
            r = ref
            self.s_(key, "name", tr + "::name()", r.name)
            self.s_(key, "description", tr + "::description()", t.desc)
            self.n_(key, "since_version", tr + "::since_version()", r.since)
            # X_traits<ref tag> derives from X_traits<target tag>: what the <ref> does not state is inherited
            dep = r.depr if r.depr is not None else t.depr
            self.opt(key, "deprecated", tr, None if dep is None else "i:%d" % dep)
        self.opt(key, "offset", tr, None if off == "-" else "i:" + off)
        if t.kind == "type":
            self.n_(key, "presence", "static_cast<int>(%s::presence())" % tr, PRES_IDX[t.presence])
            self.n_(key, "length", tr + "::length()", t.length)
            self.s_(key, "semantic_type", tr + "::semantic_type()", t.semtype)
            self.s_(key, "character_encoding", tr + "::character_encoding()", t.charenc or "")
            self.same(key, "primitive_type", tr + "::primitive_type", CPP_T[t.prim])
            has = t.length == 1 and t.presence != "constant"
            for i, (nm, txt) in enumerate((("min_value", t.minv), ("max_value", t.maxv), ("null_value", t.nullv))):
                if not has or (nm == "null_value" and t.presence != "optional"):
                    self.opt(key, nm, tr, None)
                elif t.prim in ("float", "double"):
                    self.opt(key, nm, tr, fp_expected(t.prim, txt, i))
                else:
                    self.opt(key, nm, tr, "i:%d" % self.int_value(t.prim, txt, i))
            if has:
                self.same(key, "traits_tag", "::sbepp::traits_tag_t<%s::value_type>" % tr, tag if ref is None else
                          "%s::%s" % (p.TT, t.name))
            elif t.presence != "constant":
                self.same(key, "traits_tag", "::sbepp::traits_tag_t<%s::value_type<char>>" % tr, tag if ref is None else
                          "%s::%s" % (p.TT, t.name))
        elif t.kind in ("enum", "set"):
            self.same(key, "encoding_type", tr + "::encoding_type", CPP_T[s.enc_prim(t)])
            self.same(key, "traits_tag", "::sbepp::traits_tag_t<%s::value_type>" % tr,
                      tag if ref is None else "%s::%s" % (p.TT, t.name))
            self.lst(key, "value_tags" if t.kind == "enum" else "choice_tags", tr, [v.name for v in t.values])
            if ref is None:
                for v in t.values:
                    vkey, vtag = "%s/%s" % (key, v.name), "%s::%s" % (tag, v.name)
                    vtr = "::sbepp::%s<%s>" % ("enum_value_traits" if t.kind == "enum" else "set_choice_traits", vtag)
                    self.kinds(vkey, vtag, path + "/" + v.name)
                    self.common(vkey, vtr, v)
                    if t.kind == "set":
                        self.n_(vkey, "index", vtr + "::index()", int(v.value))
                    elif s.enc_prim(t) == "char":
                        self.n_(vkey, "value", "::sbepp::to_underlying(%s::value())" % vtr,
                                v.value.encode()[0] - (256 if v.value.encode()[0] > 127 else 0))
                    else:
                        self.n_(vkey, "value", "::sbepp::to_underlying(%s::value())" % vtr, int(v.value))
        else:
            self.s_(key, "semantic_type", tr + "::semantic_type()", t.semtype)
            self.n_(key, "size_bytes", tr + "::size_bytes()", int(size))
            self.same(key, "traits_tag", "::sbepp::traits_tag_t<%s::value_type<char>>" % tr,
                      tag if ref is None else "%s::%s" % (p.TT, t.name))
            self.lst(key, "element_tags", tr, [m.name for m in t.members])
            if ref is None:
                for m in t.members:
                    mkey, mtag, mpath = "%s/%s" % (key, m.name), "%s::%s" % (tag, m.name), path + "/" + m.name
                    if m.kind == "ref":
                        self.enc(s.lookup(m.ref), mtag, mkey, mpath, ref=m)
                    else:
                        self.enc(m, mtag, mkey, mpath)

    # ---- levels ----
    def level(self, lv, tag, key, path, tr):
        s, p = self.s, self.p
        self.lst(key, "field_tags", tr, [f.name for f in lv.fields])
        self.lst(key, "group_tags", tr, [g.name for g in lv.groups])
        self.lst(key, "data_tags", tr, [d.name for d in lv.data])
        for f in lv.fields:
            fkey, ftag = "%s/%s" % (key, f.name), "%s::%s" % (tag, f.name)
            ftr = "::sbepp::field_traits<%s>" % ftag
            off, pres = self.d["fld"][fkey]
            self.kinds(fkey, ftag, path + "/" + f.name)
            self.common(fkey, ftr, f)
            self.n_(fkey, "id", ftr + "::id()", f.id)
            self.n_(fkey, "presence", "static_cast<int>(%s::presence())" % ftr, {"r": 0, "o": 1, "c": 2}[pres])
            self.n_(fkey, "offset", ftr + "::offset()", int(off))
            vt, is_t, vtag = p.field_value_type(f)
            self.same(fkey, "value_type", ftr + "::value_type" + ("<char>" if is_t else ""), vt)
            if vtag:
                self.same(fkey, "value_type_tag", ftr + "::value_type_tag", vtag)
        for g in lv.groups:
            gkey, gtag, gpath = "%s/%s" % (key, g.name), "%s::%s" % (tag, g.name), path + "/" + g.name
            gtr = "::sbepp::group_traits<%s>" % gtag
            self.kinds(gkey, gtag, gpath)
            self.common(gkey, gtr, g)
            self.n_(gkey, "id", gtr + "::id()", g.id)
            self.n_(gkey, "block_length", gtr + "::block_length()", int(self.d["lvl"][gkey]))
            self.s_(gkey, "semantic_type", gtr + "::semantic_type()", g.semtype)
            self.same(gkey, "dimension_type", gtr + "::dimension_type<char>", "%s::types::%s<char>" % (p.P, g.dim))
            self.same(gkey, "dimension_type_tag", gtr + "::dimension_type_tag", "%s::%s" % (p.TT, g.dim))
            self.same(gkey, "traits_tag", "::sbepp::traits_tag_t<%s::value_type<char>>" % gtr, gtag)
            self.same(gkey, "entry_traits_tag", "::sbepp::traits_tag_t<%s::entry_type<char>>" % gtr, gtag)
            self.level(g, gtag, gkey, gpath, gtr)
        for d in lv.data:
            dkey, dtag = "%s/%s" % (key, d.name), "%s::%s" % (tag, d.name)
            dtr = "::sbepp::data_traits<%s>" % dtag
            self.kinds(dkey, dtag, path + "/" + d.name)
            self.common(dkey, dtr, d)
            self.n_(dkey, "id", dtr + "::id()", d.id)
            comp = s.lookup(d.type_name)
            ln = [m for m in comp.members if m.name == "length"][0]
            lt = s.lookup(ln.ref) if ln.kind == "ref" else ln
            self.same(dkey, "length_type_tag", dtr + "::length_type_tag", "%s::%s::length" % (p.TT, comp.name))
            self.n_(dkey, "length_size", "sizeof(%s::length_type)" % dtr, PSIZE[lt.prim])
            self.n_(dkey, "size_bytes_3", dtr + "::size_bytes(3)", PSIZE[lt.prim] + 3)

    def text(self):
        s, p = self.s, self.p
        st = "::sbepp::schema_traits<%s::schema>" % p.P
        self.kinds("schema", p.P + "::schema", ".")
        self.s_("schema", "package", st + "::package()", s.package)
        self.n_("schema", "id", st + "::id()", s.id)
        self.n_("schema", "version", st + "::version()", s.version)
        self.s_("schema", "semantic_version", st + "::semantic_version()", s.semver)
        self.n_("schema", "byte_order", "static_cast<int>(%s::byte_order() == ::sbepp::endian::big)" % st, 1 if s.big_endian else 0)
        self.s_("schema", "description", st + "::description()", s.desc)
        self.same("schema", "header_type", st + "::header_type<char>", "%s::types::%s<char>" % (p.P, s.header))
        self.same("schema", "header_type_tag", st + "::header_type_tag", "%s::%s" % (p.TT, s.header))
        self.lst("schema", "message_tags", st, [m.name for m in s.messages])
        # type_tags is documented as unordered: printed sorted by the TU
        self.c("c18::list_names<%s::type_tags>::print(\"schema\", \"type_tags\");" % st)
        self.x("schema", "type_tags", "l:" + ",".join(t.name for t in s.types.values()))
        for t in s.types.values():
            self.enc(t, "%s::%s" % (p.TT, t.name), t.name, "types/" + t.name)
        for m in s.messages:
            tag, key, path = "%s::%s" % (p.MT, m.name), "msg:" + m.name, "messages/" + m.name
            tr = "::sbepp::message_traits<%s>" % tag
            self.kinds(key, tag, path)
            self.common(key, tr, m)
            self.n_(key, "id", tr + "::id()", m.id)
            self.n_(key, "block_length", tr + "::block_length()", int(self.d["lvl"][key]))
            self.s_(key, "semantic_type", tr + "::semantic_type()", m.semtype)
            self.same(key, "schema_tag", tr + "::schema_tag", p.P + "::schema")
            self.same(key, "value_type", tr + "::value_type<char>", "%s::messages::%s<char>" % (p.P, m.name))
            self.same(key, "traits_tag", "::sbepp::traits_tag_t<%s::value_type<char>>" % tr, tag)
            self.level(m, tag, key, path, tr)
        src = ["// generated by harness/touchgen.py (C18)", "#include <%s/%s.hpp>" % (s.package, s.package),
               '#include "c18_dump.hpp"']
        # split into functions of bounded size to keep the optimiser out of the way
        chunks = [self.o[i:i + 400] for i in range(0, len(self.o), 400)] or [[]]
        for i, ch in enumerate(chunks):
            src.append("static void part%d() {" % i)
            src += ch
            src.append("}")
        src.append("int main() {")
        src += ["  part%d();" % i for i in range(len(chunks))]
        src.append("  return 0; }")
        return "\n".join(src) + "\n", self.e


def dump_tu(s, derived):
    return Dump(s, derived).text()
