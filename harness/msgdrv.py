"""Generates the per-schema C++ driver (one TU) that executes the message-level
command protocol against the headers sbeppc generated for that schema."""
from msggen import *


def nonconst_fields(s, lv):
    return [f for f in lv.fields if not s.field_is_const(f)]


def field_kind(s, f):
    r = s.resolve(f.type_name)
    return r[0]   # 'S' | 'A' | 'C'


def comp_members_nonconst(s, type_name):
    """[(member name, resolved type)] of non-constant members of a named composite"""
    t = s.types[type_name]
    out = []
    for m in t.members:
        off, const, r = s.member_triple(m)
        if not const:
            out.append((m.name, r))
    return out


def count_groups(lv):
    return sum(1 + count_groups(g) for g in lv.groups)


def has_data(lv):
    return bool(lv.data) or any(has_data(g) for g in lv.groups)


def is_flat(g):
    return not g.groups and not g.data


class DriverGen:
    def __init__(self, s):
        self.s = s
        self.n = 0
        self.funcs = []

    def level_fn(self, lv, tag=None):
        """emit function for this level (children first); returns its name"""
        s = self.s
        if tag is None:
            tag = "::%s::schema::messages::%s" % (s.package, lv.name)
        child = [self.level_fn(g, tag + "::" + g.name) for g in lv.groups]
        self.n += 1
        name = "lvl_%d" % self.n
        c = []
        c.append("template<typename V> std::string %s(V v, const mh::Cmd& c, std::size_t depth)\n{" % name)
        c.append("  if(depth < c.path.size()) {")
        c.append("    const long long idx = c.path[depth].second;")
        c.append("    switch(c.path[depth].first) {")
        for i, g in enumerate(lv.groups):
            c.append("    case %d: { auto g = v.%s();" % (i, g.name))
            c.append("      if(idx < 0 || static_cast<unsigned long long>(idx) >= g.size()) return \"OOB\";")
            if is_flat(g):
                c.append("      auto e = g[static_cast<typename decltype(g)::size_type>(idx)];")
            else:
                c.append("      auto it = g.begin(); for(long long i = 0; i < idx; i++) ++it; auto e = *it;")
            c.append("      return %s(e, c, depth + 1); }" % child[i])
        c.append("    default: return \"ERRPATH\"; }")
        c.append("  }")
        nf = nonconst_fields(s, lv)
        # scalar get/set
        c.append("  if(c.op == \"getf\") switch(c.k) {")
        for k, f in enumerate(nf):
            if field_kind(s, f) == "S":
                c.append("    case %d: return mh::show(v.%s());" % (k, f.name))
        c.append("    default: return \"ERRK\"; }")
        c.append("  if(c.op == \"getfc\") switch(c.k) {")
        for k, f in enumerate(nf):
            if field_kind(s, f) == "S":
                c.append("    case %d: return mh::show_choices(v.%s());" % (k, f.name))
        c.append("    default: return \"ERRK\"; }")
        c.append("  if(c.op == \"setf\") switch(c.k) {")
        for k, f in enumerate(nf):
            if field_kind(s, f) == "S":
                c.append("    case %d: v.%s(mh::make<decltype(v.%s())>(c.arg)); return \"ok\";" % (k, f.name, f.name))
        c.append("    default: return \"ERRK\"; }")
        c.append("  if(c.op == \"getb\") switch(c.k) {")
        for k, f in enumerate(nf):
            if field_kind(s, f) in "AC":
                c.append("    case %d: return mh::show_bytes(v.%s());" % (k, f.name))
        c.append("    default: return \"ERRK\"; }")
        c.append("  if(c.op == \"geta\") switch(c.k) {")
        for k, f in enumerate(nf):
            if field_kind(s, f) == "A":
                c.append("    case %d: return mh::show_array(v.%s());" % (k, f.name))
        c.append("    default: return \"ERRK\"; }")
        c.append("  if(c.op == \"getar\") switch(c.k) {")
        for k, f in enumerate(nf):
            if field_kind(s, f) == "A":
                c.append("    case %d: return mh::show_array_raw(v.%s());" % (k, f.name))
        c.append("    default: return \"ERRK\"; }")
        c.append("  if(c.op == \"setb\") switch(c.k) {")
        for k, f in enumerate(nf):
            kind = field_kind(s, f)
            if kind == "A":
                c.append("    case %d: return mh::assign_array(v.%s(), c.arg);" % (k, f.name))
            elif kind == "C":
                c.append("    case %d: return mh::write_bytes(v.%s(), c.arg);" % (k, f.name))
        c.append("    default: return \"ERRK\"; }")
        # composite members
        c.append("  if(c.op == \"getcm\" || c.op == \"setcm\") switch(c.k) {")
        for k, f in enumerate(nf):
            if field_kind(s, f) == "C":
                c.append("    case %d: { auto cv = v.%s(); switch(c.j) {" % (k, f.name))
                for j, (mn, r) in enumerate(comp_members_nonconst(s, f.type_name)):
                    if r[0] == "S":
                        c.append("      case %d: if(c.op == \"getcm\") return mh::show(cv.%s()); "
                                 "cv.%s(mh::make<decltype(cv.%s())>(c.arg)); return \"ok\";" % (j, mn, mn, mn))
                    else:
                        c.append("      case %d: if(c.op == \"getcm\") return mh::show_bytes(cv.%s()); return \"ERRK\";" % (j, mn))
                c.append("      default: return \"ERRJ\"; } }")
        c.append("    default: return \"ERRK\"; }")
        c.append("  if(c.op == \"ginfo\" || c.op == \"gsize\" || c.op == \"gresize\" || c.op == \"gfill\") switch(c.k) {")
        for i, g in enumerate(lv.groups):
            c.append("    case %d: return mh::group_op(v.%s(), c);" % (i, g.name))
        c.append("    default: return \"ERRK\"; }")
        c.append("  if(c.op == \"getd\" || c.op == \"setd\" || c.op == \"dinfo\") switch(c.k) {")
        for i, d in enumerate(lv.data):
            c.append("    case %d: return mh::data_op(v.%s(), c);" % (i, d.name))
        c.append("    default: return \"ERRK\"; }")
        c.append("  if(c.op == \"esize\" || c.op == \"epos\") return mh::entry_info(v, c);")
        c.append("#ifdef MSGDRV_CURSOR")
        c.append("  if(c.op == \"cvisit\") switch(c.k) {")
        for k, f in enumerate(nf):
            if field_kind(s, f) == "C":
                c.append("    case %d: return mh::comp_visit(v.%s(), c.arg.empty() ? -1 : std::atol(c.arg.c_str()));" % (k, f.name))
        c.append("    default: return \"ERRK\"; }")
        c.append("#endif")
        c.append("#ifdef MSGDRV_CURSOR")
        c.append("  if(c.op == \"crange\") switch(c.k) {")
        for i, g in enumerate(lv.groups):
            c.append("    case %d: return mh::cursor_range_op(v.%s(), c, %s);" % (i, g.name, "true" if is_flat(g) else "false"))
        c.append("    default: return \"ERRK\"; }")
        c.append("#endif")
        c.append("#ifdef MSGDRV_BYTAG")
        c.append("  if(c.op == \"getft\") switch(c.k) {")
        for k, f in enumerate(nf):
            if field_kind(s, f) == "S":
                c.append("    case %d: return mh::show(sbepp::get_by_tag<%s::%s>(v));" % (k, tag, f.name))
        c.append("    default: return \"ERRK\"; }")
        c.append("  if(c.op == \"setft\") switch(c.k) {")
        for k, f in enumerate(nf):
            if field_kind(s, f) == "S":
                c.append("    case %d: sbepp::set_by_tag<%s::%s>(v, mh::make<decltype(v.%s())>(c.arg)); return \"ok\";" % (k, tag, f.name, f.name))
        c.append("    default: return \"ERRK\"; }")
        c.append("  if(c.op == \"getbt\") switch(c.k) {")
        for k, f in enumerate(nf):
            if field_kind(s, f) in "AC":
                c.append("    case %d: return mh::show_bytes(sbepp::get_by_tag<%s::%s>(v));" % (k, tag, f.name))
        c.append("    default: return \"ERRK\"; }")
        c.append("  if(c.op == \"ginfot\") { mh::Cmd c2 = c; c2.op = \"ginfo\"; switch(c.k) {")
        for i, g in enumerate(lv.groups):
            c.append("    case %d: return mh::group_op(sbepp::get_by_tag<%s::%s>(v), c2);" % (i, tag, g.name))
        c.append("    default: return \"ERRK\"; } }")
        c.append("  if(c.op == \"dinfot\") { mh::Cmd c2 = c; c2.op = \"dinfo\"; switch(c.k) {")
        for i, d in enumerate(lv.data):
            c.append("    case %d: return mh::data_op(sbepp::get_by_tag<%s::%s>(v), c2);" % (i, tag, d.name))
        c.append("    default: return \"ERRK\"; } }")
        c.append("#endif")
        for opname, sfx, guard in (("cur", "", "#ifdef MSGDRV_CURSOR"),
                                   ("curt", "t", "#if defined(MSGDRV_CURSOR) && defined(MSGDRV_BYTAG)")):
            # "curt": the same call sequences through sbepp::get_by_tag<Tag>(view, cursor)
            c.append(guard)
            c.append("  if(c.op == \"%s\") {" % opname)
            c.append("    sbepp::cursor<char> cur; std::ostringstream os; bool first = true;")
            c.append("    if(c.arg == \"init\") cur = sbepp::init_cursor(v); else cur.pointer() = reinterpret_cast<char*>(c.base) + std::atoll(c.arg.c_str());")
            c.append("    for(const auto& ops : c.ops) { mh::cur_op o = mh::parse_cur_op(ops); std::string r = \"ERRK\";")
            c.append("      std::string body = ops.substr(0, ops.find(':'));")
            c.append("      int st = hu::guarded([&]{")
            c.append("        if(o.kind == 'f') switch(o.k) {")
            for k, f in enumerate(nf):
                c.append("          case %d: r = mh::cur_field_op<%s_%sf%d>(v, cur, o.w, c.base); break;" % (k, name, sfx, k))
            c.append("          default: break; }")
            c.append("        else if(o.kind == 'g') switch(o.k) {")
            for i, g in enumerate(lv.groups):
                c.append("          case %d: r = mh::cur_group_op<%s_%sg%d>(v, cur, o.w, c.base); break;" % (i, name, sfx, i))
            c.append("          default: break; }")
            c.append("        else if(o.kind == 'd') switch(o.k) {")
            for i, d in enumerate(lv.data):
                c.append("          case %d: r = mh::cur_group_op<%s_%sd%d>(v, cur, o.w, c.base); break;" % (i, name, sfx, i))
            c.append("          default: break; }")
            c.append("      });")
            c.append("      if(!first) os << ' '; first = false;")
            c.append("      if(st == 1) { os << body << \":ASSERT\"; break; }")
            c.append("      if(st == 2) { os << body << \":FAULT\"; break; }")
            c.append("      os << body << r << \",c\" << mh::off_of(cur.pointer(), c.base); }")
            c.append("    return os.str(); }")
            c.append("#endif")
        pre = ["#ifdef MSGDRV_CURSOR"]
        for k, f in enumerate(nf):
            pre.append("struct %s_f%d { template<typename V, typename C> auto operator()(V v, C&& c) const -> decltype(v.%s(std::forward<C>(c))) { return v.%s(std::forward<C>(c)); } };" % (name, k, f.name, f.name))
        for i, g in enumerate(lv.groups):
            pre.append("struct %s_g%d { template<typename V, typename C> auto operator()(V v, C&& c) const -> decltype(v.%s(std::forward<C>(c))) { return v.%s(std::forward<C>(c)); } };" % (name, i, g.name, g.name))
        for i, d in enumerate(lv.data):
            pre.append("struct %s_d%d { template<typename V, typename C> auto operator()(V v, C&& c) const -> decltype(v.%s(std::forward<C>(c))) { return v.%s(std::forward<C>(c)); } };" % (name, i, d.name, d.name))
        pre.append("#endif")
        pre.append("#if defined(MSGDRV_CURSOR) && defined(MSGDRV_BYTAG)")
        for kind, members in (("f", nf), ("g", lv.groups), ("d", lv.data)):
            for k, mem in enumerate(members):
                pre.append("struct %s_t%s%d { template<typename V, typename C> auto operator()(V v, C&& c) const -> "
                           "decltype(sbepp::get_by_tag<%s::%s>(v, std::forward<C>(c))) { return sbepp::get_by_tag<%s::%s>(v, std::forward<C>(c)); } };"
                           % (name, kind, k, tag, mem.name, tag, mem.name))
        pre.append("#endif")
        self.funcs.append("\n".join(pre))
        c.append("  return \"ERROP\";\n}\n")
        self.funcs.append("\n".join(c))
        return name

    def generate(self):
        s = self.s
        roots = [(m, self.level_fn(m)) for m in s.messages]
        out = ["// generated by harness/msgdrv.py", "#include <%s/%s.hpp>" % (s.package, s.package),
               "#include \"msg_harness.hpp\"", ""]
        out += self.funcs
        out.append("int main()\n{\n  hu::install_signal_handlers();\n  std::string line, cur;\n"
                   "  std::vector<unsigned char> content;\n  std::unique_ptr<hu::guarded_buffer> gb;\n"
                   "  long long base = 0;\n"
                   "  while(std::getline(std::cin, line)) {\n    auto a = hu::split(line);\n"
                   "    if(a.empty()) { std::cout << \"\\n\"; continue; }\n"
                   "    std::string res = \"ERR\";\n"
                   "    if(a[0] == \"use\") { cur = a[1]; res = \"ok\"; }\n"
                   "    else if(a[0] == \"buf\") { content = hu::unhex(a[1]); gb.reset(new hu::guarded_buffer(content.size()));\n"
                   "      std::copy(content.begin(), content.end(), gb->begin); res = \"ok\"; }\n"
                   "    else if(a[0] == \"base\") { base = std::atoll(a[1].c_str()); res = \"ok\"; }\n"
                   "    else if(a[0] == \"dump\") { res = gb && gb->size ? hu::hex(gb->begin, gb->size) : \"-\"; }\n"
                   "    else if(gb) {\n"
                   "      mh::Cmd c; c.op = a[0]; c.base = gb->begin + base;\n"
                   "      char* p = reinterpret_cast<char*>(gb->begin) + base;\n"
                   "      const std::size_t n = gb->size - static_cast<std::size_t>(base);\n"
                   "      int st = hu::guarded([&]{\n")
        for m, fn in roots:
            out.append("        if(cur == \"%s\") { ::%s::messages::%s<char> m{p, n};" % (m.name, s.package, m.name))
            out.append("          if(a[0] == \"size\") res = std::to_string(static_cast<unsigned long long>(sbepp::size_bytes(m)));")
            out.append("          else if(a[0] == \"sbc\") { auto r = sbepp::size_bytes_checked(m, n); res = r.valid ? (\"valid \" + std::to_string(static_cast<unsigned long long>(r.size))) : std::string(\"invalid\"); }")
            out.append("          else if(a[0] == \"sbcn\") { auto r = sbepp::size_bytes_checked(m, static_cast<std::size_t>(std::strtoull(a[1].c_str(), nullptr, 10))); res = r.valid ? (\"valid \" + std::to_string(static_cast<unsigned long long>(r.size))) : std::string(\"invalid\"); }")
            out.append("          else if(a[0] == \"fillhdr\") { auto h = sbepp::fill_message_header(m); res = (sbepp::addressof(h) == sbepp::addressof(m)) ? \"ok\" : \"ERRHDRVIEW\"; }")
            ng = count_groups(m)
            args = ", ".join(["static_cast<decltype(mh::arg_type<%d>(&sbepp::message_traits<::%s::schema::messages::%s>::size_bytes))>(std::strtoull(a[%d].c_str(), nullptr, 10))" % (i, s.package, m.name, i + 1) for i in range(ng + (1 if has_data(m) else 0))])
            out.append("          else if(a[0] == \"traitsize\") res = std::to_string(static_cast<unsigned long long>(sbepp::message_traits<::%s::schema::messages::%s>::size_bytes(%s)));" % (s.package, m.name, args))
            out.append("#ifdef MSGDRV_CURSOR")
            out.append("          else if(a[0] == \"ctrav\") { mh::rec_visitor rv(c.base, a.size() > 1 ? std::atol(a[1].c_str()) : -1); auto cur = sbepp::init_cursor(m);")
            out.append("            sbepp::visit(m, cur, rv); std::string ev = rv.os.str(); if(!ev.empty() && ev.back() == ' ') ev.pop_back();")
            out.append("            res = ev + (ev.empty() ? \"\" : \" \") + \"c=\" + mh::off_of(cur.pointer(), c.base) + \" | \" + rv.names.str(); }")
            out.append("          else if(a[0] == \"cur\" || a[0] == \"curt\") { c.path = mh::parse_path(a[1]); c.arg = a[2]; c.ops.assign(a.begin() + 3, a.end()); res = %s(m, c, 0); }" % fn)
            out.append("#endif")
            out.append("          else { c.path = mh::parse_path(a.size() > 1 ? a[1] : \".\");")
            out.append("            if(a.size() > 2) c.k = std::atoi(a[2].c_str());")
            out.append("            if(c.op == \"getcm\" || c.op == \"setcm\") { c.j = std::atoi(a[3].c_str()); if(a.size() > 5) c.arg = a[5]; }")
            out.append("            else if(c.op == \"getf\") {}")
            out.append("            else if(c.op == \"crange\") { c.ops.assign(a.begin() + 3, a.end()); }")
            out.append("            else if(c.op == \"setf\" || c.op == \"setft\") { c.arg = a[4]; }")
            out.append("            else if(a.size() > 3) c.arg = a[3];")
            out.append("            res = %s(m, c, 0); } }" % fn)
        out.append("      }, 3);\n      if(st == 1) res = \"ASSERT\"; else if(st == 2) res = \"FAULT\"; else if(st == 3) res = \"TIMEOUT\";\n    }\n"
                   "    std::cout << res << \"\\n\";\n  }\n  return 0;\n}\n")
        return "\n".join(out).replace("#include \"msg_harness.hpp\"", "#include <memory>\n#include \"msg_harness.hpp\"")


def gen_driver_cpp(s):
    return DriverGen(s).generate()
