#!/bin/bash
# usage: seedtest.sh <patch.diff> <check id>...   applies the patch to /repo, runs the checks, reverts
set -u
P=$1; shift
git -C /repo apply "$P" || { echo "PATCH DOES NOT APPLY"; exit 2; }
# evidence files are rewritten by every run: keep the ones of the unchanged tree
EVSAVE=$(mktemp -d /tmp/seedtest-ev.XXXXXX); cp /verif/evidence/*.json "$EVSAVE"/
for c in "$@"; do
  out=$(cd /verif && ./check $c 2>&1 | grep -E "^(OK|VIOLATION|KNOWN)" | head -4 | cut -c1-220)
  echo "[$c] $out"
done
git -C /repo checkout -- . 
cp "$EVSAVE"/*.json /verif/evidence/; rm -rf "$EVSAVE"
git -C /repo status --short | grep -v _build
python3 -c "import sys; sys.path.insert(0,\"/verif/harness\"); import srctables; srctables.regenerate(\"/repo\",\"/verif/coq\"); import srcexprs; srcexprs.regenerate(\"/repo\",\"/verif/coq\")"
