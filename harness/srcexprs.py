"""Translator (expression level): regenerates coq/SrcExprs.v from the CURRENT sbepp.hpp under /repo.

clang parses a tiny translation unit that includes /repo's sbepp.hpp and explicitly instantiates a handful of small
integer-only member functions at every relevant type; `-ast-dump=json` gives their typed AST in which every integral
promotion, usual arithmetic conversion and implicit conversion is an explicit cast node that carries the type clang
computed.  This module copies those trees into terms of coq/CExpr.v (`cexpr`): it decides nothing about C++ semantics,
it maps node kinds / operators / literal values / clang's types one to one and REFUSES (TranslationError) anything it
does not know.  coq/SrcExprsProofs.v (hand written) proves that the regenerated terms evaluate to what the hand-written
models (Bitset.v, GroupIter.v, Bytes.v) say, for all arguments, so the property theorems apply to what the source says
now.  A semantic change of one of these functions breaks that proof; a harmless rewrite can break it too (reported as a
broken proof, and the correspondence run then searches for a failing input).
"""
import json
import os
import subprocess
import tempfile


class TranslationError(Exception):
    pass


ITY = {
    "unsigned char": "U8", "unsigned short": "U16", "unsigned int": "U32", "unsigned long": "U64",
    "unsigned long long": "U64", "signed char": "I8", "char": "I8", "short": "I16", "int": "I32", "long": "I64",
    "long long": "I64", "bool": "U8",
}
STD = {"U8": "std::uint8_t", "U16": "std::uint16_t", "U32": "std::uint32_t", "U64": "std::uint64_t",
       "I8": "std::int8_t", "I16": "std::int16_t", "I32": "std::int32_t", "I64": "std::int64_t"}
UNS = ["U8", "U16", "U32", "U64"]
SGN = {"U8": "I8", "U16": "I16", "U32": "I32", "U64": "I64"}

TU = r"""
#define SBEPP_ENABLE_ASSERTS_WITH_HANDLER
#include <sbepp/sbepp.hpp>
namespace srcexprs {
struct entry { entry(char*, char*, std::size_t) {} entry(char*, std::nullptr_t, std::size_t) {} };
template<typename S> bool srcexprs_seteq(const S& a, const S& b)
{
    return (a == b) | (a != b);
}
template<typename It> bool srcexprs_cmp(const It& a, const It& b)
{
    return (a == b) | (a != b) | (a < b) | (a <= b) | (a > b) | (a >= b);
}
template<typename T> struct opt : sbepp::detail::optional_base<T, opt<T>>
{
    using sbepp::detail::optional_base<T, opt<T>>::optional_base;
    static T min_value() noexcept;      // declared only: opaque values of type T for the translator
    static T max_value() noexcept;
    static T null_value() noexcept;
};
template<typename T> struct req : sbepp::detail::required_base<T, req<T>>
{
    using sbepp::detail::required_base<T, req<T>>::required_base;
    static T min_value() noexcept;
    static T max_value() noexcept;
};
template<typename R> bool srcexprs_reqcmp(const R& a, const R& b)
{
    return (a == b) | (a != b) | (a < b) | (a <= b) | (a > b) | (a >= b) | a.in_range() | (a.value() == *b);
}
template<typename O> bool srcexprs_optcmp(const O& a, const O& b)
{
    return (a == b) | (a != b) | (a < b) | (a <= b) | (a > b) | (a >= b) | a.has_value() | a.in_range()
           | static_cast<bool>(a) | (a.value() == *b);
}
inline void srcexprs_size_check(const char* begin, const char* end, std::size_t offset, std::size_t size)
{
    SBEPP_SIZE_CHECK(begin, end, offset, size);
}
}
%s
"""


def _tu_text():
    lines = []
    for t in UNS:
        lines.append("template class sbepp::detail::bitset_base<%s>;" % STD[t])
        lines.append("template bool srcexprs::srcexprs_seteq(const sbepp::detail::bitset_base<%s>&, "
                     "const sbepp::detail::bitset_base<%s>&);" % (STD[t], STD[t]))
    for s in UNS:
        for b in UNS:
            it = "sbepp::detail::random_access_iterator<char, srcexprs::entry, %s, %s, %s>" % (STD[b], STD[SGN[s]], STD[s])
            lines.append("template class %s;" % it)
            lines.append("template bool srcexprs::srcexprs_cmp(const %s&, const %s&);" % (it, it))
    for t in UNS + [SGN[u] for u in UNS]:
        lines.append("template bool srcexprs::srcexprs_optcmp(const srcexprs::opt<%s>&, const srcexprs::opt<%s>&);"
                     % (STD[t], STD[t]))
        lines.append("template bool srcexprs::srcexprs_reqcmp(const srcexprs::req<%s>&, const srcexprs::req<%s>&);"
                     % (STD[t], STD[t]))
    return TU % "\n".join(lines)


def _parse_many(txt):
    dec = json.JSONDecoder()
    i, out = 0, []
    n = len(txt)
    while i < n:
        while i < n and txt[i].isspace():
            i += 1
        if i >= n:
            break
        o, i = dec.raw_decode(txt, i)
        out.append(o)
    return out


def _dump(repo, flt, std="c++17", defs=()):
    with tempfile.TemporaryDirectory(prefix="srcexprs") as d:
        p = os.path.join(d, "tu.cpp")
        open(p, "w").write(_tu_text())
        cmd = ["clang++", "-std=" + std, "-I", os.path.join(repo, "sbepp", "src"), "-fsyntax-only", "-w"] + \
              ["-D" + x for x in defs] + ["-Xclang", "-ast-dump=json", "-Xclang", "-ast-dump-filter=" + flt, p]
        r = subprocess.run(cmd, stdout=subprocess.PIPE, stderr=subprocess.PIPE, timeout=300)
        if r.returncode != 0:
            raise TranslationError("clang failed on the instantiation unit (%s): %s" % (flt, r.stderr.decode()[-600:]))
        return _parse_many(r.stdout.decode())


def _ty(n):
    t = n.get("type", {})
    q = t.get("desugaredQualType") or t.get("qualType") or ""
    q = q.replace("const ", "").replace("volatile ", "").strip()
    return q


def _ity(n, what):
    q = _ty(n)
    if q not in ITY:
        raise TranslationError("%s: type '%s' is not a fixed-width integer type" % (what, q))
    return ITY[q]


def _is_ptr(n):
    return _ty(n).endswith("*")


def _find(n, pred, out):
    if n.get("kind") is None:
        return out
    if pred(n):
        out.append(n)
    for c in n.get("inner", []):
        _find(c, pred, out)
    return out


BIN = {"+": "OAdd", "-": "OSub", "*": "OMul", "&": "OAnd", "|": "OOr", "^": "OXor"}
CMP = {"<": "CLt", "<=": "CLe", ">": "CGt", ">=": "CGe", "==": "CEq", "!=": "CNe"}
PASS = {"ParenExpr", "ConstantExpr", "ExprWithCleanups", "SubstNonTypeTemplateParmExpr", "MaterializeTemporaryExpr"}
CASTS = {"ImplicitCastExpr", "CXXStaticCastExpr", "CXXFunctionalCastExpr", "CStyleCastExpr"}
BSWAP = {"__builtin_bswap16": 2, "__builtin_bswap32": 4, "__builtin_bswap64": 8}


CMPNAMES = {"operator==": "eq", "operator!=": "ne", "operator<": "lt", "operator<=": "le", "operator>": "gt",
            "operator>=": "ge"}
INLINE = {}      # name -> (parameter names, translated return expression) of pure functions inlined at their calls


def _char_ptr(n):
    q = _ty(n)
    if q.replace(" ", "") not in ("char*", "unsignedchar*", "signedchar*"):
        raise TranslationError("pointer to '%s' (only byte pointers are flat addresses)" % q)


def _z(v):
    v = int(v)
    return "(%d)" % v


# --- inlining of calls to small functions of the same class (optional_base): context of the function being expanded
CTX = {"this": "", "obj": {}, "subst": {}, "decls": {}, "depth": 0}


def _strip(n):
    while n["kind"] in PASS or (n["kind"] in CASTS and n.get("castKind") in
                                ("NoOp", "LValueToRValue", "UncheckedDerivedToBase", "DerivedToBase")):
        n = n["inner"][-1]
    return n


def _object_prefix(n):
    """the object an expression of class type designates, as a prefix for its members"""
    n = _strip(n)
    if n["kind"] == "CXXThisExpr":
        return CTX["this"]
    if n["kind"] == "UnaryOperator" and n.get("opcode") == "*":
        return _object_prefix(n["inner"][0])
    if n["kind"] == "DeclRefExpr":
        nm = n["referencedDecl"]["name"]
        return CTX["obj"].get(nm, nm + ".")
    raise TranslationError("object expression %s" % n["kind"])


def _is_class(n):
    q = _ty(n)
    return q not in ITY and not q.endswith("*")


def _inline(decl_id, name, obj_prefix, args):
    d = CTX["decls"].get(decl_id)
    if d is None:
        raise TranslationError("call of %s: definition not found" % name)
    params = [c for c in d.get("inner", []) if c.get("kind") == "ParmVarDecl"]
    body = [c for c in d.get("inner", []) if c.get("kind") == "CompoundStmt"]
    if not body:
        if not params and _ty(d).split("(")[0].strip() in ITY:
            return '(EVar "%s()")' % name               # declared only: an opaque value of its return type
        raise TranslationError("call of %s: no body" % name)
    if len(params) != len(args):
        raise TranslationError("call of %s: %d arguments" % (name, len(args)))
    if CTX["depth"] > 12:
        raise TranslationError("call of %s: inlining too deep" % name)
    obj, subst = {}, {}
    for pd, a in zip(params, args):
        if _is_class(pd):
            obj[pd["name"]] = _object_prefix(a)
        else:
            subst[pd["name"]] = expr(a)
    stmts = [c for c in body[0].get("inner", []) if c.get("kind") != "NullStmt"]
    if len(stmts) != 1 or stmts[0].get("kind") != "ReturnStmt":
        raise TranslationError("call of %s: body is not a single return statement" % name)
    saved = dict(CTX)
    CTX.update({"this": obj_prefix if obj_prefix is not None else CTX["this"], "obj": obj, "subst": subst,
                "depth": CTX["depth"] + 1})
    try:
        return expr(stmts[0]["inner"][0])
    finally:
        CTX.update(saved)


def expr(n):
    k = n["kind"]
    inner = n.get("inner", [])
    if k in PASS:
        return expr(inner[0])
    if k in CASTS and n.get("castKind") == "UserDefinedConversion":
        return expr(inner[-1])
    if k == "CXXMemberCallExpr":
        callee = _strip(inner[0])
        if callee["kind"] != "MemberExpr":
            raise TranslationError("member call through %s" % callee["kind"])
        return _inline(callee.get("referencedMemberDecl"), callee.get("name"), _object_prefix(callee["inner"][0]),
                       inner[1:])
    if k == "CXXOperatorCallExpr":
        ref = _find(inner[0], lambda x: x["kind"] == "DeclRefExpr", [])
        if not ref:
            raise TranslationError("operator call without a callee")
        rd = ref[0]["referencedDecl"]
        d = CTX["decls"].get(rd.get("id"))
        if d is not None and d.get("kind") == "CXXMethodDecl":
            return _inline(rd.get("id"), rd.get("name"), _object_prefix(inner[1]), inner[2:])
        return _inline(rd.get("id"), rd.get("name"), None, inner[1:])
    if k == "UnaryOperator" and n.get("opcode") == "!":
        return "(ECond %s (ELit (0)) (ELit (1)))" % expr(inner[0])
    if k in CASTS:
        ck = n.get("castKind")
        if ck in ("LValueToRValue", "NoOp"):
            return expr(inner[-1])
        if ck == "IntegralCast":
            return "(ECast %s %s)" % (_ity(n, "cast"), expr(inner[-1]))
        if ck == "IntegralToBoolean":
            return "(EToBool %s)" % expr(inner[-1])
        if ck in ("FunctionToPointerDecay", "BuiltinFnToFnPtr"):
            return expr(inner[-1])
        if ck == "PointerToBoolean":
            _char_ptr(inner[-1])
            return "(EToBool %s)" % expr(inner[-1])
        raise TranslationError("cast kind %s" % ck)
    if k == "IntegerLiteral":
        return "(ELit %s)" % _z(n["value"])
    if k == "CXXBoolLiteralExpr":
        return "(ELit %s)" % ("(1)" if n.get("value") else "(0)")
    if k == "DeclRefExpr":
        nm = n["referencedDecl"]["name"]
        if nm in CTX["subst"]:
            return CTX["subst"][nm]
        return '(EVar "%s")' % nm
    if k == "MemberExpr" and inner and _strip(inner[0])["kind"] in ("CXXThisExpr", "UnaryOperator", "DeclRefExpr") \
            and (CTX["this"] or CTX["obj"]):
        return '(EVar "%s%s")' % (_object_prefix(inner[0]), n["name"])
    if k == "MemberExpr":
        if not inner or inner[0]["kind"] not in ("CXXThisExpr",) and not (
                inner[0]["kind"] == "ImplicitCastExpr" and inner[0]["inner"][0]["kind"] == "CXXThisExpr"):
            # rhs.index and the like: qualify with the object name
            base = inner[0]
            while base["kind"] in PASS or base["kind"] in CASTS:
                base = base["inner"][-1]
            if base["kind"] == "DeclRefExpr":
                return '(EVar "%s.%s")' % (base["referencedDecl"]["name"], n["name"])
            raise TranslationError("member of a non-this object")
        return '(EVar "%s")' % n["name"]
    if k == "BinaryOperator":
        op = n["opcode"]
        a, b = inner
        if op == "&&":
            return "(ECond %s %s (ELit (0)))" % (expr(a), expr(b))
        if op == "||":
            return "(ECond %s (ELit (1)) %s)" % (expr(a), expr(b))
        if _is_ptr(a) or _is_ptr(b):
            # only flat byte pointers: comparison and difference of two char pointers
            _char_ptr(a)
            _char_ptr(b)
            if op in CMP:
                return "(ECmp %s %s %s)" % (CMP[op], expr(a), expr(b))
            if op == "-" and _ity(n, "pointer difference") == "I64":
                return "(EBin OSub I64 %s %s)" % (expr(a), expr(b))
            raise TranslationError("pointer operator %s" % op)
        if op in BIN:
            return "(EBin %s %s %s %s)" % (BIN[op], _ity(n, "operator " + op), expr(a), expr(b))
        if op == "<<":
            return "(EShl %s %s %s)" % (_ity(n, "<<"), expr(a), expr(b))
        if op == ">>":
            return "(EShr %s %s %s)" % (_ity(n, ">>"), expr(a), expr(b))
        if op in CMP:
            _ity(a, "comparison operand")
            return "(ECmp %s %s %s)" % (CMP[op], expr(a), expr(b))
        raise TranslationError("binary operator %s" % op)
    if k == "UnaryOperator":
        op = n["opcode"]
        if op == "~":
            return "(ENot %s %s)" % (_ity(n, "~"), expr(inner[0]))
        if op == "-":
            return "(ENeg %s %s)" % (_ity(n, "unary -"), expr(inner[0]))
        if op == "+":
            return expr(inner[0])
        raise TranslationError("unary operator %s" % op)
    if k == "ConditionalOperator":
        return "(ECond %s %s %s)" % (expr(inner[0]), expr(inner[1]), expr(inner[2]))
    if k == "CallExpr":
        callee = _find(inner[0], lambda x: x["kind"] == "DeclRefExpr", [])
        name = callee[0]["referencedDecl"]["name"] if callee else "?"
        if name in BSWAP and len(inner) == 2:
            return "(EBswap %d %s)" % (BSWAP[name], expr(inner[1]))
        if callee and callee[0]["referencedDecl"].get("id") in CTX["decls"]:
            return _inline(callee[0]["referencedDecl"]["id"], name, None, inner[1:])
        if name in INLINE:
            params, body = INLINE[name]
            if len(params) != len(inner) - 1:
                raise TranslationError("call of %s with %d arguments" % (name, len(inner) - 1))
            for i, pn in enumerate(params):
                body = body.replace('(EVar "%s")' % pn, "\x00%d\x00" % i)
            for i, a in enumerate(inner[1:]):
                body = body.replace("\x00%d\x00" % i, expr(a))
            return body
        raise TranslationError("call of %s" % name)
    raise TranslationError("expression node %s" % k)


def _target(n):
    while n["kind"] in PASS:
        n = n["inner"][0]
    if n["kind"] == "MemberExpr":
        return n["name"]
    if n["kind"] == "DeclRefExpr":
        return n["referencedDecl"]["name"]
    raise TranslationError("assignment target %s" % n["kind"])


def effects(fn):
    """the body of a function as a list of effect terms"""
    body = [c for c in fn.get("inner", []) if c["kind"] == "CompoundStmt"]
    if not body:
        raise TranslationError("function %s has no body" % fn.get("name"))
    out = []
    for st in body[0].get("inner", []):
        while st.get("kind") in PASS:
            st = st["inner"][0]
        k = st.get("kind")
        if k == "NullStmt":
            continue
        if k == "ReturnStmt":
            e = st.get("inner", [None])[0]
            if e is None:
                continue
            probe = e
            while probe["kind"] in PASS or (probe["kind"] in CASTS and probe.get("castKind") in ("NoOp", "LValueToRValue")):
                probe = probe["inner"][-1]
            if probe["kind"] == "UnaryOperator" and probe.get("opcode") == "*" and \
                    probe["inner"][0]["kind"] == "CXXThisExpr":
                continue                                    # return *this;
            out.append("(Return %s)" % expr(e))
            continue
        if k == "ConditionalOperator" and _ty(st) == "void":
            calls = _find(st["inner"][2], lambda x: x["kind"] == "DeclRefExpr" and
                          x.get("referencedDecl", {}).get("name") == "assertion_failed", [])
            if not calls or _find(st["inner"][1], lambda x: x["kind"] == "CallExpr", []):
                raise TranslationError("conditional statement that is not an SBEPP_ASSERT")
            out.append("(Assert %s)" % expr(st["inner"][0]))
            continue
        if k == "UnaryOperator" and st.get("opcode") in ("++", "--"):
            # x++ / ++x / x-- / --x as a statement: x = (T)(promote(x) +- 1), computed in the promoted type of x
            lhs = st["inner"][0]
            lt = _ity(lhs, "increment target")
            pt = {"U8": "I32", "U16": "I32", "I8": "I32", "I16": "I32"}.get(lt, lt)
            name = _target(lhs)
            out.append('(Store "%s" (ECast %s (EBin %s %s (ECast %s (EVar "%s")) (ELit (1)))))'
                       % (name, lt, "OAdd" if st["opcode"] == "++" else "OSub", pt, pt, name))
            continue
        if k == "DeclStmt":
            for vd in st.get("inner", []):
                init = [c for c in vd.get("inner", []) if c.get("kind")]
                if vd.get("kind") != "VarDecl" or len(init) != 1:
                    raise TranslationError("declaration in %s" % fn.get("name"))
                _ity(vd, "local variable")
                out.append('(Local "%s" %s)' % (vd["name"], expr(init[0])))
            continue
        if k == "BinaryOperator" and st.get("opcode") == "=":
            lhs, rhs = st["inner"]
            _ity(lhs, "assignment target")
            out.append('(Store "%s" %s)' % (_target(lhs), expr(rhs)))
            continue
        if k == "CompoundAssignOperator":
            lhs, rhs = st["inner"]
            op = st["opcode"][:-1]
            name = _target(lhs)
            if _is_ptr(lhs):
                if op not in ("+", "-"):
                    raise TranslationError("pointer %s=" % op)
                _char_ptr(lhs)
                _ity(rhs, "pointer offset")      # the offset is the VALUE of the integer operand, whatever its type
                out.append('(%s "%s" %s)' % ("PtrAdd" if op == "+" else "PtrSub", name, expr(rhs)))
                continue
            lt = _ity(lhs, "compound assignment target")
            ct = st.get("computeResultType", {})
            ctq = (ct.get("desugaredQualType") or ct.get("qualType") or "").replace("const ", "")
            cl = st.get("computeLHSType", {})
            clq = (cl.get("desugaredQualType") or cl.get("qualType") or "").replace("const ", "")
            if ctq not in ITY or clq not in ITY or op not in BIN:
                raise TranslationError("compound assignment %s= in type '%s'" % (op, ctq))
            out.append('(Store "%s" (ECast %s (EBin %s %s (ECast %s (EVar "%s")) %s)))'
                       % (name, lt, BIN[op], ITY[ctq], ITY[clq], name, expr(rhs)))
            continue
        raise TranslationError("statement %s in %s" % (k, fn.get("name")))
    return out


def _methods(spec, name):
    return [m for m in spec.get("inner", []) if m["kind"] == "CXXMethodDecl" and m.get("name") == name and
            any(c["kind"] == "CompoundStmt" for c in m.get("inner", []))]


def _targs(spec):
    return [ITY.get((c.get("type", {}).get("desugaredQualType") or c.get("type", {}).get("qualType", "")), "?")
            for c in spec.get("inner", []) if c["kind"] == "TemplateArgument"]


def _targs_raw(spec):
    return [c.get("type", {}).get("qualType", "") for c in spec.get("inner", []) if c["kind"] == "TemplateArgument"]


def _param_types(m):
    return [c.get("type", {}).get("qualType", "") for c in m.get("inner", []) if c["kind"] == "ParmVarDecl"]


def translate(repo):
    defs = []       # (name, list of effects)
    # --- detail::is_within_size and the SBEPP_SIZE_CHECK macro (through a function of the instantiation unit)
    INLINE.clear()
    objs = _dump(repo, "is_within_size")
    fns = [o for o in objs if o.get("kind") == "FunctionDecl" and o.get("name") == "is_within_size"]
    if len(fns) != 1:
        raise TranslationError("is_within_size: %d definitions" % len(fns))
    effs = effects(fns[0])
    if len(effs) != 1 or not effs[0].startswith("(Return "):
        raise TranslationError("is_within_size is not a single return statement")
    params = [c["name"] for c in fns[0].get("inner", []) if c.get("kind") == "ParmVarDecl"]
    INLINE["is_within_size"] = (params, effs[0][len("(Return "):-1])
    defs.append(("src_is_within_size", effs))
    objs = _dump(repo, "srcexprs_size_check")
    fns = [o for o in objs if o.get("kind") == "FunctionDecl" and o.get("name") == "srcexprs_size_check"]
    if len(fns) != 1:
        raise TranslationError("size check probe: %d definitions" % len(fns))
    defs.append(("src_size_check_macro", effects(fns[0])))
    # --- bitset_base<T>::operator()(get_bit_tag / set_bit_tag)
    objs = _dump(repo, "bitset_base")
    specs = []
    for o in objs:
        _find(o, lambda n: n["kind"] == "ClassTemplateSpecializationDecl" and n.get("name") == "bitset_base", specs)
    seen = set()
    for s in specs:
        ta = _targs(s)
        if len(ta) != 1 or ta[0] not in UNS or ta[0] in seen:
            continue
        ms = _methods(s, "operator()")
        got = {}
        for m in ms:
            pt = _param_types(m)
            if pt and "get_bit_tag" in pt[0]:
                got["get"] = m
            elif pt and "set_bit_tag" in pt[0]:
                got["set"] = m
        if set(got) != {"get", "set"}:
            continue
        decls, fr = {}, {}
        for c in s.get("inner", []):
            if c.get("kind") == "CXXMethodDecl" and c.get("id"):
                decls[c["id"]] = c
            if c.get("kind") == "FriendDecl":
                for f in c.get("inner", []):
                    if f.get("kind") == "FunctionDecl" and f.get("name") in ("operator==", "operator!=") and \
                            any(x.get("kind") == "CompoundStmt" for x in f.get("inner", [])):
                        fr[f["name"]] = f
        if set(fr) != {"operator==", "operator!="}:
            continue
        CTX.update({"this": "", "obj": {}, "subst": {}, "decls": decls, "depth": 0})
        try:
            defs.append(("src_set_eq_" + ta[0], effects(fr["operator=="])))
            defs.append(("src_set_ne_" + ta[0], effects(fr["operator!="])))
        finally:
            CTX.update({"this": "", "obj": {}, "subst": {}, "decls": {}, "depth": 0})
        seen.add(ta[0])
        defs.append(("src_get_bit_" + ta[0], effects(got["get"])))
        defs.append(("src_set_bit_" + ta[0], effects(got["set"])))
    if seen != set(UNS):
        raise TranslationError("bitset_base: get/set bit operators found for %s only" % sorted(seen))
    # --- random_access_iterator<char, entry, B, D, S>: operator+=, operator-=, operator-(rhs)
    objs = _dump(repo, "random_access_iterator")
    specs = []
    for o in objs:
        _find(o, lambda n: n["kind"] == "ClassTemplateSpecializationDecl" and n.get("name") == "random_access_iterator",
              specs)
    seen = set()
    for s in specs:
        raw = _targs_raw(s)
        ta = _targs(s)
        if len(ta) != 5 or "srcexprs::entry" not in raw[1]:
            continue
        b, d, sx = ta[2], ta[3], ta[4]
        if sx not in UNS or b not in UNS or SGN[sx] != d or (sx, b) in seen:
            continue
        inc = [m for m in _methods(s, "operator++") if not _param_types(m)]
        dec_ = [m for m in _methods(s, "operator--") if not _param_types(m)]
        if len(inc) != 1 or len(dec_) != 1:
            continue
        defs.append(("src_it_inc_%s_%s" % (sx, b), effects(inc[0])))
        defs.append(("src_it_dec_%s_%s" % (sx, b), effects(dec_[0])))
        plus = [m for m in _methods(s, "operator+=")]
        minus = [m for m in _methods(s, "operator-") if len(_param_types(m)) == 1 and _param_types(m)[0].rstrip().endswith("&")]
        if len(plus) != 1 or len(minus) != 1:
            continue
        cmps = {}
        for c in s.get("inner", []):
            if c.get("kind") != "FriendDecl":
                continue
            for f in c.get("inner", []):
                if f.get("kind") == "FunctionDecl" and f.get("name") in CMPNAMES and \
                        any(x.get("kind") == "CompoundStmt" for x in f.get("inner", [])):
                    cmps[f["name"]] = f
        if set(cmps) != set(CMPNAMES):
            continue
        for nm, tag in CMPNAMES.items():
            defs.append(("src_it_%s_%s_%s" % (tag, sx, b), effects(cmps[nm])))
        seen.add((sx, b))
        defs.append(("src_it_add_assign_%s_%s" % (sx, b), effects(plus[0])))
        defs.append(("src_it_diff_%s_%s" % (sx, b), effects(minus[0])))
    if len(seen) != 16:
        raise TranslationError("random_access_iterator: %d of 16 instantiations found" % len(seen))
    # --- byteswap(uint16/32/64) as this compiler sees it
    objs = _dump(repo, "byteswap")
    fns = []
    for o in objs:
        _find(o, lambda n: n["kind"] == "FunctionDecl" and n.get("name") == "byteswap" and
              any(c["kind"] == "CompoundStmt" for c in n.get("inner", [])), fns)
    seen = set()
    for f in fns:
        pt = [c for c in f.get("inner", []) if c["kind"] == "ParmVarDecl"]
        if len(pt) != 1:
            continue
        q = pt[0]["type"].get("desugaredQualType") or pt[0]["type"].get("qualType")
        w = {"unsigned short": "U16", "unsigned int": "U32", "unsigned long": "U64"}.get(q)
        if w is None or w in seen or f.get("loc", {}).get("file", "x").endswith("tu.cpp"):
            continue
        seen.add(w)
        defs.append(("src_byteswap_" + w, effects(f)))
    if seen != {"U16", "U32", "U64"}:
        raise TranslationError("byteswap: overloads found for %s only" % sorted(seen))
    # --- optional_base<T, Derived>: has_value, in_range, operator bool and the six comparison operators (pre-C++20 set),
    #     for the eight integer types; Derived::min/max/null_value() are opaque values
    for base, derived, pre, need in (("optional_base", "opt", "src_opt", ("has_value", "in_range")),
                                     ("required_base", "req", "src_req", ("in_range",))):
        # one dump for the base and the probe's derived class: declaration ids are per clang run
        objs = _dump(repo, "opt" if base == "optional_base" else "req")
        specs = []
        for o in objs:
            _find(o, lambda n: n["kind"] == "ClassTemplateSpecializationDecl" and n.get("name") == base and
                  any(c.get("kind") in ("CXXMethodDecl", "FriendDecl") for c in n.get("inner", [])), specs)
        dobjs = []
        for o in objs:
            _find(o, lambda n: n["kind"] == "ClassTemplateSpecializationDecl" and n.get("name") == derived and
                  n.get("inner"), dobjs)
        seen = set()
        for sp in specs:
            raw = _targs_raw(sp)
            ta = _targs(sp)
            if len(ta) != 2 or ta[0] not in STD or ("srcexprs::%s" % derived) not in raw[1] or ta[0] in seen:
                continue
            decls, fr = {}, {}
            for c in sp.get("inner", []):
                if c.get("kind") in ("CXXMethodDecl", "CXXConversionDecl") and c.get("id"):
                    decls[c["id"]] = c
                if c.get("kind") == "FriendDecl":
                    for f in c.get("inner", []):
                        if f.get("kind") == "FunctionDecl" and f.get("id"):
                            decls[f["id"]] = f
                            if f.get("name") in CMPNAMES and any(x.get("kind") == "CompoundStmt" for x in f.get("inner", [])):
                                fr[f["name"]] = f
            # Derived's static members (declared only) are referenced by id from inside the bodies
            for dsp in dobjs:
                for c in dsp.get("inner", []):
                    if c.get("kind") == "CXXMethodDecl" and c.get("id"):
                        decls[c["id"]] = c
            meth = {m.get("name"): m for m in sp.get("inner", []) if m.get("kind") in ("CXXMethodDecl", "CXXConversionDecl")
                    and any(x.get("kind") == "CompoundStmt" for x in m.get("inner", []))}
            if set(fr) != set(CMPNAMES) or any(x not in meth for x in need):
                continue
            CTX.update({"this": "", "obj": {}, "subst": {}, "decls": decls, "depth": 0})
            try:
                for x in need:
                    defs.append(("%s_%s_%s" % (pre, x, ta[0]), effects(meth[x])))
                for nm, tag in CMPNAMES.items():
                    defs.append(("%s_%s_%s" % (pre, tag, ta[0]), effects(fr[nm])))
            finally:
                CTX.update({"this": "", "obj": {}, "subst": {}, "decls": {}, "depth": 0})
            seen.add(ta[0])
        if seen != set(STD):
            raise TranslationError("%s: translated for %s only" % (base, sorted(seen)))
    out = ["(* SrcExprs.v -- GENERATED on every run by harness/srcexprs.py from clang's typed AST of the CURRENT",
           "   /repo/sbepp/src/sbepp/sbepp.hpp.  Do not edit: SrcExprsProofs.v proves what these terms compute. *)",
           "From Coq Require Import ZArith String List.",
           "From Sbepp Require Import CInt CExpr.",
           "Import ListNotations.",
           "Local Open Scope Z_scope.",
           "Local Open Scope string_scope.",
           ""]
    for name, effs in sorted(defs):
        out.append("Definition %s : list effect :=\n  [ %s ]." % (name, ";\n    ".join(effs)))
        out.append("")
    return "\n".join(out)


def regenerate(repo, coq_dir):
    """writes coq/SrcExprs.v when its content changes; returns (changed, error)"""
    p = os.path.join(coq_dir, "SrcExprs.v")
    try:
        text = translate(repo)
    except (TranslationError, OSError, KeyError, IndexError, ValueError, subprocess.TimeoutExpired) as e:
        text = "(* SrcExprs.v -- translation FAILED: %s *)\nTranslation_of_repo_expressions_failed.\n" % \
               str(e).replace("*)", "* )").replace("(*", "( *")
        if not os.path.exists(p) or open(p).read() != text:
            open(p, "w").write(text)
        return True, str(e)
    if not os.path.exists(p) or open(p).read() != text:
        open(p, "w").write(text)
        return True, None
    return False, None


if __name__ == "__main__":
    import sys
    print(translate(sys.argv[1] if len(sys.argv) > 1 else "/repo"))
