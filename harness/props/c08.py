"""C08 — sbeppc rejects exactly the schemas that break its layout rules."""
import os
import shutil
from collections import Counter

from common import *
import mutate


def describe(case, xs_xml):
    return {"mutation": case.kind, "note": case.note,
            "expected": sorted(case.classes) if case.classes else "accept",
            "schema_xml": xs_xml}


def run(res, replay=None):
    rng = SplitMix64(res.seed)
    res.rule = ("valid random schemas (msggen.Gen) and, for each, ONE rule-breaking edit at every applicable position "
                "(composite members incl. nested/inline/ref, fields of every level incl. nested groups, types, enums, "
                "sets, headers, dimension/data composites, names, references) per rule class, plus boundary-valid "
                "neighbours (offset = minimum, blockLength = content size, value = type min/max, choice = width-1, "
                "offset = 2^64-1-size). Each schema is run through /repo's sbeppc (exit status, first Error line's "
                "class and path:line:col prefix, output directory) and through the extracted Validate.validate and "
                "Rules.rules_ok; the mutation's rule class is the specification-level oracle. Non-trivial = distinct "
                "(mutation kind, position note, base schema).")
    ok_proof = proof_step(res)
    _orig_violation = res.violation
    _seen_sigs = {}

    def _dedup(sig, what, replay_info):
        # one replay per signature; count the rest
        _seen_sigs[sig] = _seen_sigs.get(sig, 0) + 1
        if _seen_sigs[sig] > 1:
            return False
        return _orig_violation(sig, what, replay_info)
    res.violation = _dedup
    model = Model()
    found = False
    exe = build_sbeppc()

    nbase = 6 if res.tier == "quick" else 30
    cases = []          # (base index, Case)
    base_stats = Counter()
    if replay and "schema_tokens" in replay:
        bases = []
    else:
        bases = mutate.base_schemas(rng.fork("c08"), nbase, nmsg=2, max_depth=2 if res.tier == "quick" else 3)
    for bi, (xs, st) in enumerate(bases):
        for k, v in st.items():
            base_stats[k] += v
        cases.append((bi, mutate.Case("base", None, xs, "unmodified generated schema")))
        for c in mutate.c08_cases(xs, rng.fork("mut%d" % bi)):
            cases.append((bi, c))

    # the same definitions spread over two files (types from index k on live in an included file): the verdict must
    # not depend on the file boundary.  Every unmodified schema, every duplicate-public-type edit (original and copy
    # on different sides) and a sample of the other edits.
    split = {}
    extra = []
    srng = rng.fork("split")
    for (bi, c) in cases:
        nt = len(c.xs.types)
        if nt < 2:
            continue
        if c.kind == "base" or c.kind == "public-type-duplicate" or srng.chance(1, 12):
            k = nt - 1 if c.kind == "public-type-duplicate" else 1 + srng.below(nt - 1)
            for first in (False, True):
                c2 = mutate.Case(c.kind + ("+include-first" if first else "+include-after"), c.classes, c.xs,
                                 c.note + " [types[%d:] in an included file, include %s the local types]" % (k, "before" if first else "after"))
                split[id(c2)] = mutate.split_files(c.xs, k, first)
                extra.append((bi, c2))
    cases += extra
    xmls = [mutate.schema_xml(c.xs) for _, c in cases]
    lines = [mutate.model_line(c.xs) for _, c in cases]
    legacy_lines = [mutate.model_line(c.xs, "legacy") for _, c in cases]
    if replay and "schema_tokens" in replay:
        # replay: one stored case
        cases = [(0, mutate.Case(replay.get("mutation", "replay"),
                                 None if replay.get("expected") == "accept" else set(replay.get("expected", [])),
                                 None, replay.get("note", "")))]
        xmls = [replay["schema_xml"]]
        if replay.get("files"):
            split[id(cases[0][1])] = replay["files"]
        lines = ["c08 cur " + replay["schema_tokens"]]
        legacy_lines = ["c08 legacy " + replay["schema_tokens"]]

    mout = model.run(lines)
    lout = model.run(legacy_lines)

    root = tmpdir("c08-")
    try:
        verdicts = mutate.run_many(exe, root, [(split.get(id(c), {"schema.xml": x}), "schema.xml", None)
                                               for (_, c), x in zip(cases, xmls)], workers=16)
    finally:
        shutil.rmtree(root, ignore_errors=True)

    dist = Counter()
    accepted = 0
    legacy_diff = 0
    for i, ((bi, c), xml, ml, ll, v) in enumerate(zip(cases, xmls, mout, lout, verdicts)):
        res.count((bi, c.kind, c.note))
        toks = lines[i][len("c08 cur "):]
        info = describe(c, xml)
        info["schema_tokens"] = toks
        if id(c) in split:
            info["files"] = split[id(c)]
        info["model"] = ml
        info["sbeppc"] = v.brief()
        m = dict(x.split("=", 1) for x in ml.split())
        lm = dict(x.split("=", 1) for x in ll.split())
        want_accept = c.classes is None
        dist["%s:%s" % ("accept" if want_accept else "reject", c.kind)] += 1
        if lm["validate"] != m["validate"]:
            legacy_diff += 1
        # --- model vs its specification (instances of validate_iff_rules / validated_no_crash)
        m_ok = m["validate"] == "ok"
        if (m["rules"] == "1") != m_ok or m["validate"].startswith(("crash", "fuel")) or (m_ok and m["gen"] != "ok"):
            found = True
            res.violation("model-vs-spec:%s" % c.kind, "extracted validate/rules_ok/gen_lookups disagree: " + ml, info)
            continue
        # --- model vs the mutation oracle
        if m_ok != want_accept or (not m_ok and m["validate"][4:] not in c.classes):
            found = True
            res.violation("model-vs-oracle:%s" % c.kind,
                          "model says %s, the edit (%s) should give %s" % (m["validate"], c.note, info["expected"]), info)
            continue
        # --- implementation vs specification
        st = v.status()
        if st not in ("ok", "error"):
            found = True
            res.violation("crash:%s" % c.kind, "sbeppc %s (rc=%s) on %s" % (st, v.rc, c.note), info)
            continue
        if want_accept:
            accepted += 1
            if st != "ok":
                found = True
                res.violation("rejects-valid:%s" % c.kind,
                              "sbeppc rejects a schema that breaks no rule (%s): %s" % (c.note, v.first), info)
            elif not v.files:
                found = True
                res.violation("no-output:%s" % c.kind, "exit 0 but no generated files (%s)" % c.note, info)
            continue
        cls = sorted(c.classes)[0] if len(c.classes) == 1 else "+".join(sorted(c.classes))
        if st == "ok":
            found = True
            res.violation("accepts:%s" % cls,
                          "sbeppc accepts (exit 0) a schema that breaks rule %s: %s" % (cls, c.note), info)
            continue
        if v.first is None:
            found = True
            res.violation("no-diagnostic:%s" % c.kind, "non-zero exit without an Error line (%s)" % c.note, info)
            continue
        if v.cls not in c.classes:
            found = True
            res.violation("wrong-diagnostic:%s" % c.kind,
                          "diagnostic class %s (%s), expected %s for %s" % (v.cls, v.first, info["expected"], c.note), info)
            continue
        if not v.located:
            found = True
            res.violation("unlocated-diagnostic:%s" % c.kind, "diagnostic without path:line:col prefix: %s" % v.first, info)
            continue
        if v.files:
            found = True
            res.violation("files-left-behind:%s" % c.kind, "rejected schema left files: %s" % v.files[:4], info)
            continue
        if len(res.samples) < 4 and c.kind in ("member-offset-below-min", "blocklength-below-content", "choice-beyond-width",
                                               "composite-mutual-reference"):
            res.sample({"mutation": c.kind, "note": c.note, "model": ml.split(" sizes=")[0], "sbeppc": v.first})

    per_class = Counter()
    for k, n in dist.items():
        per_class[k.split(":")[0]] += n
    rule_classes = Counter()
    for _, c in cases:
        rule_classes["accept" if c.classes is None else "+".join(sorted(c.classes))] += 1
    res.extra["distribution"] = {
        "base_schemas": len(bases), "cases": len(cases), "must_accept": per_class["accept"],
        "must_reject": per_class["reject"], "accept_ratio": round(per_class["accept"] / max(1, len(cases)), 3),
        "per_rule_class": dict(sorted(rule_classes.items())),
        "per_mutation": dict(sorted(dist.items())),
        "base_generator_stats": dict(base_stats),
        "legacy_model_differs_on": legacy_diff,
    }
    res.extra["violation_signatures"] = dict(sorted(_seen_sigs.items()))
    found = bool(res.violations)
    if not ok_proof:
        proof_failure_violation(res, found)
    return res.finish(trusted=[
        "Rules.v/Validate.v are hand transcriptions of sbe_schema_validator.hpp, sbe_schema_cpp_validator.hpp and the "
        "uniqueness/range checks of schema_parser.hpp, tied to /repo by this differential run, not by proof",
        "value texts are abstracted to (from_chars integer value, FP acceptance oracle, length, first byte); float/double "
        "range acceptance (strtof/strtod ERANGE) and XML well-formedness (pugixml) are not modelled",
        "harness/mutate.py: mutation oracle (which rule class an edit breaks) and message-text -> class regexes",
        "extraction: ExtrOcamlBasic only; ocaml/drv_c08.ml token parser"])
