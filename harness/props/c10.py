"""C10 — checked builds never touch memory outside the view silently."""
from common import *
from msgcheck import *
import c04
import os

CHK = ("SBEPP_ENABLE_ASSERTS_WITH_HANDLER", "MSGDRV_CURSOR")


def safe_decode_script(s, lv, t, path="."):
    """decode script that only uses the library's own (size-checked) accessors"""
    ops = []
    for k, f in enumerate(msgdrv.nonconst_fields(s, lv)):
        r = s.resolve(f.type_name)
        if r[0] == "S":
            ops.append("getf %s %d %s" % (path, k, r[1]))
        elif r[0] == "A":
            ops.append("geta %s %d" % (path, k))
            ops.append("getar %s %d" % (path, k))
        else:
            for j, (mn, mr) in enumerate(msgdrv.comp_members_nonconst(s, f.type_name)):
                if mr[0] == "S":
                    ops.append("getcm %s %d %d %s" % (path, k, j, mr[1]))
    for gi, g in enumerate(lv.groups):
        ops.append("ginfo %s %d" % (path, gi))
        ops.append("gsize %s %d" % (path, gi))
        for ei, e in enumerate(t["groups"][gi]):
            sub = ("%d:%d" % (gi, ei)) if path == "." else (path + "/%d:%d" % (gi, ei))
            ops.append("esize %s" % sub)
            ops += safe_decode_script(s, g, e, sub)
    for di, d in enumerate(lv.data):
        ops.append("dinfo %s %d" % (path, di))
        ops.append("getd %s %d" % (path, di))
    return ops


def checked_op(op):
    """the same operation in the checked model (coq/CheckedAccess.v: explicit SBEPP_SIZE_CHECK calls);
    the cursor traversal has no checked random-access counterpart"""
    return None if op.split()[0] == "ctrav" else "c" + op


def is_oob(a):
    return a == "OOB" or a.endswith("OOB")


def data_view_cases(res, model, replay_cases):
    """container operations on <data> views that are shorter than what their length prefix says (view ending inside the
    prefix, or inside the payload while the prefix already holds the length being assigned): the Dyn.v model of the
    code with its size checks decides whether the handler must fire (cases and judgement shared with the C13 check)"""
    import c13
    found = False
    if replay_cases is None:
        dcases = [c for c in c13.gen_cases(SplitMix64(res.seed), "quick") if c.kind in ("short-view", "stale-length")]
    else:
        dcases = [c13.Case.from_json(j) for j in replay_cases]
    res.extra["data_view_container_cases"] = len(dcases)
    try:
        dexe = cached_cpp("c13_harness_char", os.path.join(VERIF, "cpp/c13_harness.cpp"), std="c++17", cxx="g++",
                          flags=("-O1",), defines=("C13_ELEM=char", "SBEPP_ENABLE_ASSERTS_WITH_HANDLER"))
        dm = c13.par_lines(model.path, [c.model_line("cur", 1) for c in dcases], 16)
        di = c13.par_lines(dexe, [c.impl_line(1) for c in dcases], 8)
        for c, ml, il in zip(dcases, dm, di):
            if c13.check_case(res, c, ml, il, "g++ -std=c++17 -O1 asserts elem=char", 1):
                found = True
    except (BuildError, RuntimeError) as e:
        found |= res.violation("harness-build:c13-cases", "the <data> view container cases could not be run",
                               {"no_failing_input": True, "correspondence": "c13_harness.cpp", "error": str(e)[-2000:]})
    return found


def run(res, replay=None):
    rng = SplitMix64(res.seed + 10)
    res.rule = ("size checks enabled (assertion handler), buffer [p, p+n) ending on a PROT_NONE page. (a) reference-encoder "
                "images truncated at every length around each header/dimension/length prefix/field boundary and at sampled "
                "lengths elsewhere x every accessor kind (scalar, array element, composite member, group geometry and size, "
                "entry size, data size and payload, message size, complete cursor traversal); (b) hostile dimension / length "
                "values steering later views past the end. Required: never a memory fault (an access at or beyond p+n that "
                "no assertion reported); the outcome of every op at every truncation point is the outcome of the checked "
                "model (coq/CheckedAccess.v: the library's SBEPP_SIZE_CHECK calls in order, interleaved with the reads; "
                "CheckedAccessProofs.v: AOk => every touched range inside the buffer and the value of the unchecked "
                "Msg.v function): model ASSERT <=> handler invoked, model value = returned value. Cross-check kept from "
                "the read-based model (Msg.v rd/in_buf): where its accessed bytes leave the buffer the checked model must "
                "assert, where both return a value the values agree; checked-model assertions with all READ bytes inside "
                "the buffer (whole-header / whole-entry checks) are counted as `conservative`. On the complete image "
                "nothing fires. Non-trivial = op reaching a group, entry or data member.")
    ok_proof = proof_step(res)
    model = Model()
    found = False
    if replay and replay.get("cases") and replay["cases"][0].get("kind") in ("short-view", "stale-length"):
        found = data_view_cases(res, model, replay["cases"])
        if not ok_proof:
            proof_failure_violation(res, found)
        return res.finish(trusted=["Dyn.v model of dynamic_array_ref with its size checks; cpp/c13_harness.cpp"])
    nschemas = 4 if res.tier == "quick" else 24
    nimgs = 2 if res.tier == "quick" else 6
    cfgs = [("g++", "c++11", ("-O1",), CHK), ("g++", "c++20", ("-O1",), CHK)]
    if res.tier == "thorough":
        cfgs += [("clang++", "c++17", ("-O1",), CHK)]
    res.extra["configurations"] = ["%s -std=%s (asserts with handler)" % (c[0], c[1]) for c in cfgs]
    cases = prepare_many(res.seed, nschemas, cfgs)
    dist = {"value": 0, "assert": 0, "full": 0, "conservative": 0}
    conservative_samples = []
    for ci, mc in enumerate(cases):
        if mc.error:
            kind, msg = mc.error
            res.violation(kind, "schema preparation failed: " + msg[-400:],
                          {"schema_xml": mc.xml, "error": msg[-3000:], "no_failing_input": True,
                           "correspondence": "T1 generated driver (checks on)"})
            continue
        s = mc.s
        trng = rng.fork("c10-%d" % ci)
        lays = [parse_layout(x) for x in model.run([model_msg_line(s, m) for m in s.messages])]
        meta = []
        for m, lay in zip(s.messages, lays):
            for ti in range(nimgs):
                wbl = lay["cbl"] + (trng.choice([0, 3]) if ti % 2 else 0)
                if wbl >= (1 << TBITS[lay["bl"][1]]):
                    wbl = lay["cbl"]
                v = gen_vlevel(trng, lay["level"], wbl, ti % 2 == 1, 0, (0, 1, 2))
                hdrbg = bytes(trng.below(256) for _ in range(lay["hdr"]))
                meta.append((m, lay, v, hdrbg))
        enc_lines = []
        for (m, lay, v, hdrbg) in meta:
            enc_lines += [model_msg_line(s, m), "encv %s %s" % (hx(hdrbg), " ".join(vtree_tokens(v)))]
        eout = model.run(enc_lines)
        import c06
        mlines, ilines, jobs = [], [], []
        for i, (m, lay, v, hdrbg) in enumerate(meta):
            img = bytes.fromhex(eout[2 * i + 1]) if eout[2 * i + 1] != "-" else b""
            if len(img) > 700 or not img:
                continue
            script = ["size", "ctrav"] + safe_decode_script(s, m, vtree_as_tree(v))
            if len(script) > 120:
                script = script[:120]
            # truncation points: around every header field boundary, block ends, and every 5th byte
            pts = {0, len(img)}
            for (off, w, what) in c06.header_fields(lay, v):
                for d in (-1, 0, 1):
                    pts.update({off + d, off + w + d})
            pts.update(range(0, len(img), 5))
            pts.update({lay["hdr"] - 1, lay["hdr"], lay["hdr"] + 1, len(img) - 1})
            pts = sorted(p for p in pts if 0 <= p <= len(img))
            cscript = [checked_op(op) for op in script]
            for n in pts:
                jobs.append((m, img, n, script, len(mlines), len(ilines)))
                mlines += [model_msg_line(s, m), "buf " + hx(img[:n])] + script + [c for c in cscript if c]
                ilines += ["use " + m.name, "buf " + hx(img[:n])] + script
        # (a') hostile (smaller) blockLength values steering the cursor accessors: the wire blockLength is untrusted
        # input, a plain-cursor traversal of a truncated buffer must still never touch bytes at or beyond p+n silently
        hm, hi, hjobs = [], [], []
        for i, (m, lay, v, hdrbg) in enumerate(meta):
            img = bytes.fromhex(eout[2 * i + 1]) if eout[2 * i + 1] != "-" else b""
            if len(img) > 400 or not img:
                continue
            for (off, w, what) in c06.header_fields(lay, v):
                if not what.endswith("blockLength"):
                    continue
                cur = int.from_bytes(img[off:off + w], "big" if s.big_endian else "little")
                for val in sorted({0, cur // 2, max(0, cur - 1)}):
                    if val == cur:
                        continue
                    mod = bytearray(img)
                    mod[off:off + w] = val.to_bytes(w, "big" if s.big_endian else "little")
                    for n in sorted({len(mod), off + w, min(len(mod), off + w + val), min(len(mod), off + w + val + 1),
                                     min(len(mod), off + w + cur), max(0, len(mod) - 3)}):
                        hjobs.append((m, bytes(mod[:n]), "%s=%d n=%d" % (what, val, n), len(hm), len(hi)))
                        hm += [model_msg_line(s, m), "buf " + hx(bytes(mod[:n])), "ctrav"]
                        hi += ["use " + m.name, "buf " + hx(bytes(mod[:n])), "ctrav"]
        hout = model.run(hm) if hm else []
        for (cxx, std), exe in (mc.exes.items() if hi else []):
            rc, io2, err = run_impl(exe, hi)
            if rc != 0 or len(io2) != len(hi):
                found = True
                res.violation("driver-crash", "generated driver crashed on hostile block lengths (%s %s): %s" % (cxx, std, err[-300:]),
                              {"schema_xml": mc.xml, "stderr": err[-2000:]})
                continue
            for (m, b_, what, mo, io) in hjobs:
                # a hostile <data> length can carry the cursor beyond 2^63: compare cursor values as 64-bit addresses
                norm = lambda t: re.sub(r"c=(-?\d+)$", lambda k: "c=%d" % (int(k.group(1)) % 2 ** 64), t.strip())
                a = norm(hout[mo + 2])
                b2 = norm(io2[io + 2].partition(" | ")[0])
                res.count((s.package, m.name, hx(b_)[:32], what, cxx, std), True)
                base = {"schema_xml": mc.xml, "message": m.name, "buffer": hx(b_), "n": len(b_), "case": what,
                        "model": a, "observed": b2, "config": [cxx, std]}
                if "TIMEOUT" in b2:
                    # a hostile count steers the traversal through an astronomically long (in-bounds) loop: the watchdog
                    # ends it; nothing outside the buffer was touched and the model's own iteration bound answers OOB
                    # for the same reason -- inconclusive, not a violation of this property
                    dist["timeout"] = dist.get("timeout", 0) + 1
                    continue
                if "FAULT" in b2:
                    found |= res.violation("silent-oob:ctrav-hostile-blocklength",
                                           "cursor traversal with %s touched memory at or beyond p+%d without invoking the handler" % (what, len(b_)), base)
                elif "ASSERT" not in b2 and (a in ("ASSERT", "OOB") or a.endswith(("ASSERT", "OOB"))):
                    found |= res.violation("unreported-oob:ctrav-hostile-blocklength",
                                           "cursor traversal with %s returned `%s` although the model's accessed bytes leave the buffer (%s)"
                                           % (what, b2[-80:], a[-40:]), base)
                elif "ASSERT" not in b2 and a != b2:
                    found |= res.violation("value:ctrav-hostile-blocklength", "cursor traversal with %s: implementation `%s`, model `%s`"
                                           % (what, b2[-100:], a[-100:]), base)
                dist["assert" if "ASSERT" in b2 else "value"] += 1
        mout = model.run(mlines)
        full = {}
        for (m, img, n, script, mo, io) in jobs:
            if n == len(img):
                full[(m.name, img)] = mout[mo + 2:mo + 2 + len(script)]
        for (cxx, std), exe in mc.exes.items():
            rc, iout, err = run_impl(exe, ilines)
            if rc != 0 or len(iout) != len(ilines):
                found = True
                res.violation("driver-crash", "generated driver crashed (%s %s): %s" % (cxx, std, err[-300:]),
                              {"schema_xml": mc.xml, "stderr": err[-2000:]})
                continue
            for (m, img, n, script, mo, io) in jobs:
                fl = full[(m.name, img)]
                cidx, nc = {}, 0
                for j, op in enumerate(script):
                    if checked_op(op):
                        cidx[j] = mo + 2 + len(script) + nc
                        nc += 1
                for j, op in enumerate(script):
                    a = mout[mo + 2 + j]
                    cm = mout[cidx[j]] if j in cidx else None      # checked model: value | ASSERT
                    b2 = iout[io + 2 + j]
                    if op == "ctrav":
                        b2 = b2.partition(" | ")[0]
                    res.count((s.package, m.name, hx(img)[:32], n, op, cxx, std), " " in op and op.split()[1] != ".")
                    base = {"schema_xml": mc.xml, "message": m.name, "image": hx(img), "n": n, "op": op,
                            "model_on_truncated": a, "checked_model": cm, "observed": b2, "on_full_image": fl[j],
                            "config": [cxx, std]}
                    if "FAULT" in b2:
                        found |= res.violation("silent-oob:%s" % op.split()[0],
                                               "`%s` on a %d-byte view touched memory at or beyond p+%d without invoking the handler"
                                               % (op, n, n), base)
                        continue
                    is_assert = "ASSERT" in b2
                    if cm is not None:
                        # cross-check of the two models (theorems (a)/(c) of CheckedAccessProofs.v, observed)
                        if cm.startswith("ERR"):
                            found |= res.violation("model-error:%s" % op.split()[0], "checked model: %s" % cm, base)
                            continue
                        if is_oob(a) and cm != "ASSERT":
                            found |= res.violation("model-disagreement:%s" % op.split()[0],
                                                   "`%s` on a %d-byte view: the checked model returns %s although the read-based "
                                                   "model's accessed bytes leave the buffer" % (op, n, cm), base)
                            continue
                        if not is_oob(a) and cm != "ASSERT" and cm != a:
                            found |= res.violation("model-disagreement:%s" % op.split()[0],
                                                   "`%s` on a %d-byte view: checked model %s, read-based model %s" % (op, n, cm, a), base)
                            continue
                        if not is_oob(a) and cm == "ASSERT":
                            if n == len(img):
                                found |= res.violation("model-spurious-assert:%s" % op.split()[0],
                                                       "`%s` on the complete image: the checked model asserts" % op, base)
                                continue
                            dist["conservative"] += 1
                            if len(conservative_samples) < int(os.environ.get("C10_CONSERVATIVE_SAMPLES", "8")) and (cxx, std) == cfgs[0][:2]:
                                why = model.run([model_msg_line(s, m), "buf " + hx(img[:n]), checked_op(op), "cwhy"])[3]
                                conservative_samples.append({"schema": s.package, "message": m.name, "image": hx(img), "n": n,
                                                             "op": op, "read_based_model": a, "checked_model": cm, "observed": b2,
                                                             "failing_check": why, "schema_xml": mc.xml})
                    if n == len(img):
                        dist["full"] += 1
                        if is_assert:
                            found |= res.violation("spurious-assert:%s" % op.split()[0],
                                                   "`%s` on the complete image invoked the assertion handler" % op, base)
                        elif b2 != a:
                            found |= res.violation("value:%s" % op.split()[0], "`%s`: implementation %s, model %s" % (op, b2, a), base)
                        continue
                    if cm is not None:
                        # expected outcome at this truncation point = outcome of the checked model
                        if cm == "ASSERT" and not is_assert:
                            found |= res.violation("unreported-oob:%s" % op.split()[0],
                                                   "`%s` on a %d-byte view returned %s where the library's own size checks (checked model) "
                                                   "must invoke the handler (read-based model: %s)" % (op, n, b2, a), base)
                        elif cm != "ASSERT" and is_assert:
                            found |= res.violation("spurious-assert:%s" % op.split()[0],
                                                   "`%s` on a %d-byte view invoked the handler although every size check of the checked "
                                                   "model passes (expected %s)" % (op, n, cm), base)
                        elif cm != "ASSERT" and b2 != cm:
                            found |= res.violation("value-truncated:%s" % op.split()[0],
                                                   "`%s` on a %d-byte view: implementation %s, checked model %s" % (op, n, b2, cm), base)
                        dist["assert" if is_assert else "value"] += 1
                        continue
                    if is_assert:
                        dist["assert"] += 1
                        continue
                    dist["value"] += 1
                    # a value was returned on a truncated buffer: it must be the true value, and the model's
                    # accessed bytes must have been inside the buffer
                    if is_oob(a):
                        found |= res.violation("unreported-oob:%s" % op.split()[0],
                                               "`%s` on a %d-byte view returned %s although the accessed bytes leave the buffer (model: %s)"
                                               % (op, n, b2, a), base)
                    elif b2 != a:
                        found |= res.violation("value-truncated:%s" % op.split()[0],
                                               "`%s` on a %d-byte view: implementation %s, model %s" % (op, n, b2, a), base)
        if jobs:
            res.sample({"schema": s.package, "message": jobs[0][0].name, "image_bytes": len(jobs[0][1]),
                        "truncations": len([1 for x in jobs if x[1] == jobs[0][1]]), "ops": jobs[0][3][:8]})

    # (b) hostile <data> lengths: the payload, and every view located after it, leave the buffer
    ps = Schema("hs_past", big_endian=False, sid=9)
    ps.add(TypeDef("messageHeader", "composite", members=[TypeDef(n, "type", prim="uint16") for n in ("blockLength", "templateId", "schemaId", "version")]))
    W = {"uint8": 1, "uint16": 2, "uint32": 4, "uint64": 8}
    for pt in W:
        ps.add(TypeDef("vd_" + pt, "composite", members=[TypeDef("length", "type", prim=pt), TypeDef("varData", "type", prim="uint8", length=0)]))
        mm = Message("P_" + pt, 1 + list(W).index(pt))
        mm.data.append(Data("d1", 1, "vd_" + pt))
        mm.data.append(Data("d2", 2, "vd_" + pt))
        ps.messages.append(mm)
    pc = prepare_fixed(ps, cfgs[:2])
    if pc.error:
        res.violation("driver-build", "hostile-length probe driver: " + pc.error[1][-300:], {"no_failing_input": True, "correspondence": "T1 probe"})
    else:
        mlines, ilines, jobs = [], [], []
        for mm in ps.messages:
            pt = mm.name[2:]
            w = W[pt]
            tmax = (1 << (8 * w)) - 1
            hostile = sorted({1, 40, 56 - w, 57 - w, 1000 & tmax, tmax, tmax - 1, tmax - w, tmax - w + 1, tmax - 2 * w, tmax // 2, tmax // 2 + 1})
            for hv in hostile:
                buf = bytes(8) + hv.to_bytes(w, "little") + bytes(range(1, 57 - w))   # 64 bytes in total
                script = ["dinfo . 0", "getd . 0", "dinfo . 1", "getd . 1", "size"]
                jobs.append((mm, hv, buf, script, len(mlines), len(ilines)))
                mlines += [model_msg_line(ps, mm), "buf " + hx(buf)] + script + [checked_op(op) for op in script]
                ilines += ["use " + mm.name, "buf " + hx(buf)] + script
        mout = model.run(mlines)
        for (cxx, std), exe in pc.exes.items():
            rc, iout, err = run_lines(exe, ilines)
            if rc != 0 or len(iout) != len(ilines):
                found = True
                res.violation("driver-crash:hostile-length", "probe driver crashed (%s %s): %s" % (cxx, std, err[-300:]), {"stderr": err[-1500:]})
                continue
            for (mm, hv, buf, script, mo, io) in jobs:
                for j, op in enumerate(script):
                    a = mout[mo + 2 + j]
                    cm = mout[mo + 2 + len(script) + j]
                    b2 = iout[io + 2 + j]
                    if j >= 2 and 8 + 2 * W[mm.name[2:]] + hv >= 2 ** 64:
                        # sizeof(length) + length wraps size_t: the next member is located BEFORE the view;
                        # the property speaks about bytes at or beyond p+n only (observation in DESIGN.md 0.4)
                        continue
                    res.count(("hostile", mm.name, hv, op, cxx, std))
                    base = {"schema_xml": pc.xml, "message": mm.name, "buffer": hx(buf), "d1_length": hv, "op": op,
                            "model": a, "checked_model": cm, "observed": b2, "config": [cxx, std]}
                    oob = is_oob(a)
                    if cm.startswith("ERR") or (oob and cm != "ASSERT") or (not oob and cm != "ASSERT" and cm != a):
                        found |= res.violation("model-disagreement:hostile-length:%s" % mm.name[2:],
                                               "`%s` with d1.length=%d: checked model %s, read-based model %s" % (op, hv, cm, a), base)
                        continue
                    if not oob and cm == "ASSERT":
                        dist["conservative"] += 1
                    if "FAULT" in b2:
                        found |= res.violation("silent-oob:hostile-length:%s" % mm.name[2:],
                                               "`%s` with d1.length=%d in a 64-byte view touched memory beyond the view without invoking the handler" % (op, hv), base)
                    elif oob and "ASSERT" not in b2:
                        found |= res.violation("unreported-oob:hostile-length:%s" % mm.name[2:],
                                               "`%s` with d1.length=%d in a 64-byte view returned `%s` although the accessed bytes leave the buffer" % (op, hv, b2), base)
                    elif cm == "ASSERT" and "ASSERT" not in b2:
                        found |= res.violation("unreported-oob:hostile-length:%s" % mm.name[2:],
                                               "`%s` with d1.length=%d in a 64-byte view returned `%s` where the checked model asserts" % (op, hv, b2), base)
                    elif cm != "ASSERT" and "ASSERT" in b2:
                        found |= res.violation("spurious-assert:hostile-length:%s" % mm.name[2:],
                                               "`%s` with d1.length=%d invoked the handler although every size check of the checked model passes" % (op, hv), base)
                    elif cm != "ASSERT" and b2 != cm:
                        found |= res.violation("value:hostile-length:%s" % mm.name[2:],
                                               "`%s` with d1.length=%d: implementation %s, checked model %s" % (op, hv, b2, cm), base)
    if not replay:
        found |= data_view_cases(res, model, None)
    res.extra["outcomes"] = dist
    res.extra["conservative_checks"] = {
        "meaning": "library (and checked model) assert although every byte the operation READS is inside the buffer: the failing "
                   "check claims a whole header composite / the whole entry an iterator steps over",
        "count": dist["conservative"], "samples": conservative_samples}
    if not ok_proof:
        proof_failure_violation(res, found)
    return res.finish(trusted=[
        "guard page placement and signal plumbing (cpp/harness_util.hpp) as the observer of out-of-view accesses",
        "Msg.v/Cursor.v model (accessed bytes) and CheckedAccess.v (the library's size checks), tied by differential runs",
        "harness/msggen.py, harness/msgdrv.py; extraction: ExtrOcamlBasic only"])
