"""C13 — <data> views (dynamic_array_ref) behave like a std::vector bounded by their buffer."""
import os
import re
import shutil
from concurrent.futures import ThreadPoolExecutor
from common import *

LS = {"u8": 1, "u16": 2, "u32": 4, "u64": 8}
ELEMS = {"char": "char", "u8": "std::uint8_t", "i8": "std::int8_t"}
OFF = 2
FRONT = bytes([0xEE, 0xED])
BACK = bytes([0xDD, 0xDC, 0xDB])
A, B = 0x61, 0x62


def max_size(T):
    return (1 << (8 * LS[T])) - 2


# ----------------------------------------------------------------------------
# operations: tuples; an independent std::vector oracle on Python lists
# ----------------------------------------------------------------------------

def hx(ys):
    return bytes(ys).hex() if ys else "-"


def tok(op):
    k = op[0]
    if k in ("if", "ii", "il"):
        return "%s,%d,%s" % (k, op[1], hx(op[2]))
    if k in ("ai", "al", "as", "ar", "ars"):
        return "%s,%s" % (k, hx(op[1]))
    return ",".join([k] + [str(x) for x in op[1:]])


def oracle(xs, op, capn, T):
    """std::vector semantics.  Returns (valid, new_xs, ret, specified_len): the
    first specified_len elements of the result are specified (resize with
    default_init leaves the new elements unspecified)."""
    n = len(xs)
    k = op[0]
    ms = max_size(T)

    def fits(m):
        return 0 <= m <= ms and m <= capn

    def byte(x):
        return 0 <= x < 256

    # the value argument is a reference to element idx of the view itself (valid for a vector: the
    # element's value before the call is used)
    if k in ("pbs", "i1s", "ins", "ans", "rvs"):
        idx = op[-1]
        if not 0 <= idx < n:
            return False, xs, None, n
        plain = {"pbs": "pb", "i1s": "i1", "ins": "in", "ans": "an", "rvs": "rv"}[k]
        return oracle(xs, (plain,) + tuple(op[1:-1]) + (xs[idx],), capn, T)
    if k == "pb":
        ok = byte(op[1]) and fits(n + 1)
        return ok, xs + [op[1]], None, n + 1
    if k == "pop":
        return n > 0, xs[:-1], None, n - 1
    if k == "e1":
        p = op[1]
        return 0 <= p < n, xs[:max(p, 0)] + xs[max(p, 0) + 1:], p, n - 1
    if k == "er":
        f, l = op[1], op[2]
        ok = 0 <= f <= l <= n
        return ok, (xs[:f] + xs[l:]) if ok else xs, f, n - (l - f)
    if k == "i1":
        p, x = op[1], op[2]
        ok = 0 <= p <= n and byte(x) and fits(n + 1)
        return ok, (xs[:p] + [x] + xs[p:]) if ok else xs, p, n + 1
    if k == "in":
        p, c, x = op[1], op[2], op[3]
        ok = 0 <= p <= n and c >= 0 and byte(x) and fits(n + c)
        return ok, (xs[:p] + [x] * c + xs[p:]) if ok else xs, p, n + c
    if k in ("if", "ii", "il"):
        p, ys = op[1], list(op[2])
        ok = 0 <= p <= n and fits(n + len(ys))
        return ok, (xs[:p] + ys + xs[p:]) if ok else xs, p, n + len(ys)
    if k == "rs":
        c = op[1]
        return fits(c), (xs[:c] if c <= n else xs + [0] * (c - n)), None, c
    if k == "rv":
        c, x = op[1], op[2]
        return fits(c) and byte(x), (xs[:c] if c <= n else xs + [x] * (c - n)), None, c
    if k == "rd":
        c = op[1]
        return fits(c), (xs[:c] if c <= n else xs + [0] * (c - n)), None, min(c, n)
    if k == "an":
        c, x = op[1], op[2]
        return fits(c) and byte(x), [x] * max(c, 0), None, c
    if k in ("ai", "al", "ar", "ars"):
        ys = list(op[1])
        return fits(len(ys)), ys, None, len(ys)
    if k == "as":
        ys = list(op[1])
        return fits(len(ys)) and 0 not in ys, ys, None, len(ys)
    if k == "clr":
        return True, [], None, 0
    raise ValueError(k)


def lists_upto(n, alphabet):
    out = [()]
    cur = [()]
    for _ in range(n):
        cur = [c + (a,) for c in cur for a in alphabet]
        out += cur
    return out


def menu_full(n, capn):
    """every overload at every position in [-1, n+1] / every count up to capn+1,
    lists of length <= 2 over the 2-letter alphabet"""
    m = []
    vals = (A, B)
    ls = lists_upto(2, vals)
    m += [("pb", x) for x in vals] + [("pop",), ("clr",)]
    m += [("e1", p) for p in range(-1, n + 2)]
    m += [("er", f, l) for f in range(-1, n + 2) for l in range(f, n + 2)]
    m += [("er", 1, 0)] if n >= 1 else []
    m += [("i1", p, x) for p in range(-1, n + 2) for x in vals]
    m += [("in", p, c, x) for p in range(0, n + 1) for c in (0, 1, 2) for x in vals]
    m += [("in", -1, 1, A), ("in", n + 1, 1, A)]
    # value arguments that alias an element of the view
    for idx in range(n):
        m += [("pbs", idx)]
        m += [("i1s", p, idx) for p in range(0, n + 1)]
        m += [("ins", p, c, idx) for p in range(0, n + 1) for c in (1, 2)]
        m += [("rvs", c, idx) for c in range(0, capn + 1)]
    for k in ("if", "ii", "il"):
        m += [(k, p, ys) for p in range(0, n + 1) for ys in ls]
        m += [(k, -1, (A,)), (k, n + 1, (A,))]
    m += [("rs", c) for c in range(0, capn + 2)]
    m += [("rv", c, x) for c in range(0, capn + 2) for x in vals]
    m += [("rd", c) for c in range(0, capn + 2)]
    m += [("an", c, x) for c in range(0, capn + 2) for x in vals]
    for k in ("ai", "al", "as", "ar", "ars"):
        m += [(k, ys) for ys in ls]
        m += [(k, (A, B, A, B)), (k, (A,) * (capn + 1))] if k != "al" else [(k, (A, B, A, B))]
    return m


def menu_red(n, capn):
    """one boundary-oriented representative set per overload (begin, end,
    middle, empty, one-past)"""
    mid = n // 2
    m = [("pb", B), ("pop",), ("clr",),
         ("e1", 0), ("e1", n - 1), ("e1", n),
         ("er", 0, n), ("er", mid, n), ("er", n, n), ("er", 0, mid), ("er", 0, 0),
         ("i1", 0, B), ("i1", n, A), ("i1", mid, B),
         ("in", mid, 2, B), ("in", n, 1, A), ("in", 0, 0, A),
         ("if", 0, (A, B)), ("if", n, (B,)), ("ii", n, (B, A)), ("ii", 0, (A,)), ("il", mid, (A,)),
         ("il", n, (B, A)),
         ("rs", n + 1), ("rs", max(n - 1, 0)), ("rv", n + 2, B), ("rd", n + 1), ("rd", max(n - 1, 0)),
         ("an", 2, B), ("ai", (A, B)), ("al", (B,)), ("as", (B, A)), ("ar", ()), ("ar", (A, B, B)), ("ars", (B, A, A)), ("ars", ())]
    if n >= 1:
        m += [("i1s", 0, n - 1), ("i1s", mid, n - 1), ("ins", 0, 2, mid), ("rvs", n + 2, 0),
              ("pbs", 0), ("i1s", n, 0)]
    seen, out = set(), []
    for o in m:
        if o not in seen:
            seen.add(o)
            out.append(o)
    return out


def menu_tiny(n, capn):
    mid = n // 2
    m = [("pb", B), ("pop",), ("e1", mid), ("er", mid, n), ("er", 0, n), ("i1", mid, A), ("in", n, 2, B),
         ("if", 0, (A, B)), ("ii", n, (B, A)), ("rs", n + 1), ("rd", max(n - 1, 0)), ("ai", (B,)),
         ("as", (A, B, A)), ("clr",)]
    seen, out = set(), []
    for o in m:
        if o not in seen:
            seen.add(o)
            out.append(o)
    return out


def gen_tree(xs0, capn, T, menus):
    """all operation sequences o1..ok (oi from menus[i-1] of the current
    size), cut after the first call that is not valid for the vector; only
    maximal sequences are emitted (their prefixes are observed step by step)"""
    out = []

    def rec(xs, depth, ops, flags):
        for o in menus[depth](len(xs), capn):
            ok, new, _, _ = oracle(xs, o, capn, T)
            if not ok or depth + 1 == len(menus):
                out.append((ops + [o], flags + [ok]))
            else:
                rec(new, depth + 1, ops + [o], flags + [ok])

    rec(list(xs0), 0, [], [])
    return out


def random_seq(rng, xs0, capn, T, length, alphabet_full=True):
    """random mostly-valid sequence; ends at the first non-valid call"""
    xs = list(xs0)
    ops, flags = [], []
    ms = min(max_size(T), capn)

    def val():
        return rng.below(256) if alphabet_full else rng.choice((A, B))

    def lst(maxlen, nonzero=False):
        k = rng.below(maxlen + 1)
        return tuple((1 + rng.below(255)) if nonzero else val() for _ in range(k))

    for _ in range(length):
        n = len(xs)
        room = ms - n
        want_invalid = rng.chance(1, 400)
        k = rng.choice(["pb", "pop", "e1", "er", "er", "i1", "in", "if", "ii", "il", "rs", "rv", "rd", "an",
                        "ai", "al", "as", "ar", "ars", "clr", "er", "i1", "if"])
        if rng.chance(1, 3) and n < ms // 2:
            k = rng.choice(["pb", "i1", "in", "if", "ii", "il", "rs", "rv"])
        p = rng.below(n + 1)
        if rng.chance(1, 4):
            p = rng.choice([0, n])
        if k == "pb":
            o = ("pb", val())
        elif k == "pop":
            o = ("pop",)
        elif k == "e1":
            o = ("e1", min(p, n - 1) if not want_invalid else n)
        elif k == "er":
            f = p
            l = f + rng.below(n - f + 1)
            if rng.chance(1, 2):
                l = n
            o = ("er", f, l + (1 if want_invalid else 0))
        elif k == "i1":
            o = ("i1", p if not want_invalid else n + 1, val())
            if n and rng.chance(1, 3):
                o = ("i1s", p, rng.below(n))
        elif k == "in":
            c = rng.below(min(room, 6) + 1) if not want_invalid else room + 1
            o = ("in", p, c, val())
            if n and rng.chance(1, 3) and not want_invalid:
                o = ("ins", p, c, rng.below(n))
        elif k in ("if", "ii", "il"):
            mx = min(room, 4 if k == "il" else 7)
            ys = lst(mx) if not want_invalid else tuple(val() for _ in range(room + 1))
            if k == "il" and len(ys) > 4:
                ys = ys[:4]
            o = (k, p, ys)
        elif k in ("rs", "rd"):
            o = (k, rng.below(ms + 1) if not want_invalid else ms + 1)
        elif k in ("rv", "an"):
            o = (k, rng.below(ms + 1) if not want_invalid else ms + 1, val())
            # (assign(n, t) with t referring into the container is a precondition violation for
            # std::vector too, so only resize gets an aliasing argument)
            if k == "rv" and n and rng.chance(1, 3) and not want_invalid:
                o = ("rvs", o[1], rng.below(n))
        elif k in ("ai", "ar", "ars", "as"):
            ys = lst(min(ms, 12), nonzero=(k == "as"))
            if want_invalid:
                ys = tuple(1 + rng.below(255) for _ in range(ms + 1))
            o = (k, ys)
        elif k == "al":
            o = (k, lst(min(ms, 4)))
        else:
            o = ("clr",)
        ok, new, _, _ = oracle(xs, o, capn, T)
        ops.append(o)
        flags.append(ok)
        if not ok:
            break
        xs = new
    return ops, flags


def layout(T, be, capn, content, back=BACK):
    L = LS[T]
    prefix = len(content).to_bytes(L, "big" if be else "little")
    payload = bytes(content) + bytes((0xF0 + i) & 0xFF for i in range(capn - len(content)))
    return FRONT + prefix + payload + back, L + capn


class Case:
    __slots__ = ("T", "be", "capn", "start", "ops", "flags", "buf", "cap", "kind")

    def __init__(self, T, be, capn, start, ops, flags, kind, back=BACK):
        self.T, self.be, self.capn, self.start, self.ops, self.flags, self.kind = T, be, capn, list(start), ops, flags, kind
        self.buf, self.cap = layout(T, be, capn, start, back)

    def model_line(self, impl="cur", chk=1):
        return "c13 %s %s %d %d %d %d %s %s" % (impl, self.T, self.be, OFF, self.cap, chk, self.buf.hex(),
                                                " ".join(tok(o) for o in self.ops))

    def impl_line(self, chk=1):
        return "c13 %s %d %d %d %d %s %s" % (self.T, self.be, OFF, self.cap, chk, self.buf.hex(),
                                             " ".join(tok(o) + ("!" if f else "") for o, f in zip(self.ops, self.flags)))

    def to_json(self):
        return {"T": self.T, "be": self.be, "capn": self.capn, "start": self.start,
                "ops": [[o[0]] + [list(x) if isinstance(x, tuple) else x for x in o[1:]] for o in self.ops],
                "kind": self.kind, "buf": self.buf.hex(), "cap": self.cap}

    @staticmethod
    def from_json(j):
        ops = [tuple([o[0]] + [tuple(x) if isinstance(x, list) else x for x in o[1:]]) for o in j["ops"]]
        xs, flags = list(j["start"]), []
        for o in ops:
            ok, new, _, _ = oracle(xs, o, j["capn"], j["T"])
            flags.append(ok)
            if not ok:
                break
            xs = new
        flags += [False] * (len(ops) - len(flags))
        c = Case(j["T"], j["be"], j["capn"], j["start"], ops, flags, j.get("kind", "replay"))
        if j.get("kind") == "stale-length" and "buf" in j:
            c.buf, c.cap = bytes.fromhex(j["buf"]), j["cap"]
            c.flags = [False] * len(ops)
        return c


def gen_cases(rng, tier):
    thorough = tier == "thorough"
    cases = []
    states = [s for s in lists_upto(3, (A, B))]
    capn = 4
    cfgs = [(T, be) for T in LS for be in (0, 1)]
    grid = [(ci, si) for ci in range(len(cfgs)) for si in range(len(states))]
    rot = rng.below(1 << 30)
    for gi, (ci, si) in enumerate(grid):
        T, be = cfgs[ci]
        st = states[si]
        slot = (gi * 7 + ci + rot) % 120
        # depth 1: the full menu from every state
        trees = [("d1-full", [menu_full])]
        if thorough:
            trees.append(("d2-red.full", [menu_red, menu_full]) if slot % 2 == 0 else
                         ("d2-tiny.red", [menu_tiny, menu_red]))
            trees.append(("d3-red", [menu_red] * 3) if slot % 6 == 1 else ("d3-tiny", [menu_tiny] * 3))
        else:
            if slot % 8 == 0:
                trees.append(("d2-red.full", [menu_red, menu_full]))
            else:
                trees.append(("d2-tiny.red", [menu_tiny, menu_red]))
            if slot % 40 == 1:
                trees.append(("d3-red", [menu_red] * 3))
            elif slot % 3 == 2:
                trees.append(("d3-tiny", [menu_tiny] * 3))
        for kind, menus in trees:
            for ops, flags in gen_tree(st, capn, T, menus):
                cases.append(Case(T, be, capn, st, ops, flags, kind))
    # random sequences of length 200
    nrand = 24 if thorough else 4
    for T, be in cfgs:
        r = rng.fork("rand-%s-%d" % (T, be))
        for i in range(nrand):
            capn_r = r.choice([8, 16, 40])
            st = [r.below(256) for _ in range(r.below(min(capn_r, 6)))]
            ops, flags = random_seq(r, st, capn_r, T, 200)
            cases.append(Case(T, be, capn_r, st, ops, flags, "rand200"))
    # short views: the view ends INSIDE (or right after) the length prefix, so no operation may touch the prefix
    # without the size check reporting it (checked builds only: every call must end in the handler, nothing is
    # written); one call per case
    for T, be in cfgs:
        L = LS[T]
        for cap in range(0, L):
            for o in [("clr",), ("pop",), ("pb", A), ("rs", 0), ("rd", 0), ("rv", 0, A), ("rs", 1), ("an", 0, A), ("ai", ()),
                      ("al", ()), ("as", ()), ("ar", ()), ("e1", 0), ("er", 0, 0), ("i1", 0, A), ("in", 0, 0, A),
                      ("if", 0, ()), ("ii", 0, ()), ("il", 0, ())]:
                cases.append(Case(T, be, cap - L, [], [o], [False], "short-view"))
    # stale lengths: the length prefix already holds L but the view ends inside the payload area (capn < L), e.g. a
    # reused buffer.  One call per case, among them every assign/resize overload with EXACTLY L elements (a resize that
    # "does not change the length" must still be checked); only the transcription is judged: handler iff the model of
    # the code reports it, and when there is no report the buffer equals the model's
    for T, be in cfgs:
        Lb = LS[T]
        for Lv in (3, 4):
            ys = tuple((A, B, A, B)[:Lv])
            for capn in range(0, Lv):
                for o in [("ai", ys), ("ar", ys), ("ars", ys), ("al", ys), ("as", ys), ("an", Lv, A), ("rs", Lv), ("rv", Lv, A),
                          ("rd", Lv), ("ai", ys[:-1]), ("ar", ys[:-1]), ("rd", Lv - 1), ("rd", capn), ("pop",), ("clr",), ("pb", A),
                          ("e1", 0), ("i1", 0, A), ("if", 0, (A,)), ("il", 0, (A,))]:
                    c = Case(T, be, capn, [], [o], [False], "stale-length")
                    c.buf = FRONT + Lv.to_bytes(Lb, "big" if be else "little") + \
                        bytes((0xF0 + i) & 0xFF for i in range(capn)) + BACK
                    c.cap = Lb + capn
                    cases.append(c)
    # the max_size boundary of the one-byte length type: sizes 250..255 inside a large buffer
    for be in (0, 1):
        r = rng.fork("u8max-%d" % be)
        for i in range(6 if thorough else 2):
            st = [r.below(256) for _ in range(250 + r.below(5))]
            ops, flags = [], []
            xs = list(st)
            for _ in range(12):
                n = len(xs)
                o = r.choice([("pb", r.below(256)), ("i1", r.below(n + 1), r.below(256)), ("pop",),
                              ("er", r.below(n + 1), n), ("in", r.below(n + 1), r.below(3), 7),
                              ("if", r.below(n + 1), (1, 2)), ("rs", 252 + r.below(4)), ("e1", r.below(max(n, 1)))])
                ok, new, _, _ = oracle(xs, o, 260, "u8")
                ops.append(o)
                flags.append(ok)
                if not ok:
                    break
                xs = new
            cases.append(Case("u8", be, 260, st, ops, flags, "u8-max"))
    return cases


# ----------------------------------------------------------------------------
# comparison
# ----------------------------------------------------------------------------

def par_lines(exe, lines, nproc=8):
    if not lines:
        return []
    chunk = max(1, (len(lines) + nproc - 1) // nproc)
    parts = [lines[i:i + chunk] for i in range(0, len(lines), chunk)]

    def one(p):
        rc, got, err = run_lines(exe, p)
        if len(got) != len(p):
            raise RuntimeError("%s: %d lines in, %d out (rc=%d) %s" % (exe, len(p), len(got), rc, err[-500:]))
        return got

    with ThreadPoolExecutor(max_workers=nproc) as ex:
        out = []
        for g in ex.map(one, parts):
            out += g
        return out


def check_case(res, c, mline, iline, cfgname, chk):
    """compare one sequence.  Returns True iff a violation was recorded."""
    mt = mline.split()
    it = iline.split()
    T, be = c.T, c.be
    L = LS[T]
    order = "big" if be else "little"
    key0 = (T, be, c.capn, tuple(c.start))

    def viol(sig, what, k):
        rj = c.to_json()
        rj["ops"] = rj["ops"][:k + 1]
        return res.violation(sig, what + " [%s %s %s start=%s ops=%s; %s]" % (
            T, order, "checks" if chk else "nochecks", hx(c.start), " ".join(tok(o) for o in c.ops[:k + 1]), cfgname),
            {"cases": [rj], "config": cfgname, "chk": chk, "model": mline, "observed": iline})

    if c.kind == "short-view":
        # no valid view here: only the transcription is judged (the model of the code reports the handler for every
        # call; the code must do the same and must not have written anything)
        res.evaluations += 1
        res.nontrivial.add(hash((chk,) + key0 + (c.capn,) + tuple(c.ops)))
        if mt[0] != "wf=0" or it[0] != "wf=0":
            return viol("short-view:wf", "a view ending inside its length prefix is reported well-formed (model %s impl %s)" % (mt[0], it[0]), 0)
        m1 = mt[1].split(":")[0] if len(mt) > 1 else "missing"
        i1 = it[1].split(":")[0] if len(it) > 1 else "missing"
        if m1 != "assert":
            return viol("short-view:model", "the model of the code does not report %s on a view of %d bytes (%s)" % (tok(c.ops[0]), c.cap, m1), 0)
        if i1 != "assert":
            return viol("short-view:%s:%s" % (c.ops[0][0], i1),
                        "%s on a <data> view of %d bytes (length prefix needs %d): the handler was not invoked (%s) although "
                        "the length prefix lies at or beyond the end of the view" % (tok(c.ops[0]), c.cap, L, i1), 0)
        return False
    if c.kind == "stale-length":
        res.evaluations += 1
        res.nontrivial.add(hash((chk,) + key0 + (c.capn, c.buf) + tuple(c.ops)))
        m1 = mt[1].split(":") if len(mt) > 1 else ["missing"]
        i1 = it[1].split(":") if len(it) > 1 else ["missing"]
        if mt[0] != it[0]:
            return viol("stale-length:wf", "well-formedness of a view shorter than its length prefix says: model %s impl %s" % (mt[0], it[0]), 0)
        if m1[0] == "assert" and i1[0] != "assert":
            return viol("stale-length:%s:%s" % (c.ops[0][0], i1[0]),
                        "%s on a <data> view whose prefix holds a stale length larger than the %d payload bytes inside the view: "
                        "the handler was not invoked (%s) although the operation reaches beyond the end of the view"
                        % (tok(c.ops[0]), c.capn, ":".join(i1)[:80]), 0)
        if m1[0] == "ok" and (i1[0] != "ok" or i1[2] != m1[2]):
            return viol("stale-length:%s:differs" % c.ops[0][0],
                        "%s on a view with a stale length: model %s, implementation %s" % (tok(c.ops[0]), ":".join(m1)[:80], ":".join(i1)[:80]), 0)
        return False
    if mt[0] != "wf=1" or it[0] != "wf=1":
        return viol("harness:wf", "initial state not well-formed (model %s impl %s)" % (mt[0], it[0]), 0)
    xs = list(c.start)
    prev = c.buf
    for k, o in enumerate(c.ops):
        if k + 1 >= len(mt):
            break
        m = mt[k + 1].split(":")
        i = it[k + 1].split(":") if k + 1 < len(it) else ["missing"]
        name = o[0]
        ok, new, ret, spec_len = oracle(xs, o, c.capn, T)
        res.evaluations += 1
        res.nontrivial.add(hash((chk,) + key0 + tuple(c.ops[:k + 1])))
        mv = m[-1] if m[0] != "ok" else m[3]
        if mv != ("v1" if ok else "v0"):
            return viol("model:valid:%s" % name, "Dyn.valid disagrees with the Python vector oracle (%s vs %s)" % (mv, ok), k)
        # --- the property itself: the implementation against std::vector ---
        if ok:
            if i[0] != "ok":
                tag = ""
                if name == "er":
                    tag = (":to-end" if o[2] == len(xs) else "") + (":empty-range" if o[1] == o[2] else "")
                return viol("spec:%s:%s%s" % (name, i[0], tag),
                            "%s is valid for a std::vector of size %d but the implementation reports '%s'"
                            % (tok(o), len(xs), i[0]), k)
            buf = bytes.fromhex(i[2])
            n_new = int.from_bytes(buf[OFF:OFF + L], order)
            exp_n = len(new)
            if n_new != exp_n:
                return viol("spec:%s:size" % name, "%s: length prefix %d, vector size %d" % (tok(o), n_new, exp_n), k)
            pay = list(buf[OFF + L:OFF + L + n_new])
            if pay[:spec_len] != new[:spec_len]:
                return viol("spec:%s:content" % name, "%s: payload %s, vector %s" % (tok(o), hx(pay), hx(new)), k)
            if (i[1] != "-") != (ret is not None) or (ret is not None and int(i[1]) != ret):
                return viol("spec:%s:iterator" % name, "%s: returned iterator offset %s, vector %s" % (tok(o), i[1], ret), k)
            hi = OFF + L + max(len(xs), exp_n)
            if len(buf) != len(prev) or buf[:OFF] != prev[:OFF] or buf[hi:] != prev[hi:]:
                return viol("spec:%s:frame" % name, "%s: a byte outside [off, off+%d+max(old,new)) changed: %s -> %s"
                            % (tok(o), L, prev.hex(), buf.hex()), k)
            # the C++ std::vector that ran alongside, and the model's vec_step
            if i[3] != "?":
                cv = list(bytes.fromhex(i[3])) if i[3] != "-" else []
                if cv[:spec_len] != new[:spec_len] or len(cv) != len(new) or (i[4] != "-" and int(i[4]) != ret):
                    return viol("oracle:%s" % name, "C++ std::vector %s/%s differs from the Python oracle %s/%s"
                                % (i[3], i[4], hx(new), ret), k)
            if m[0] == "ok":
                mvv = list(bytes.fromhex(m[4])) if m[4] != "-" else []
                if mvv[:spec_len] != new[:spec_len] or len(mvv) != len(new) or (m[5] != "-" and int(m[5]) != ret):
                    return viol("model:vec:%s" % name, "Dyn.vec_step %s/%s differs from the Python oracle %s/%s"
                                % (m[4], m[5], hx(new), ret), k)
            pay_all = pay
        # --- transcription: the model of the code against the code ---
        if m[0] == "fault":
            # undefined behaviour in the model (wild write): nothing to compare, stop
            return False
        if m[0] != i[0] or (m[0] == "ok" and (m[1] != i[1] or m[2] != i[2])):
            return viol("model:%s:%s" % (name, "outcome" if m[0] != i[0] else "state"),
                        "model of the code and the code disagree on %s: model %s, code %s"
                        % (tok(o), ":".join(m[:3]), ":".join(i[:3])), k)
        if m[0] != "ok":
            return False
        buf = bytes.fromhex(i[2])
        prev = buf
        if ok:
            xs = pay_all
        else:
            n_new = int.from_bytes(buf[OFF:OFF + L], order)
            xs = list(buf[OFF + L:OFF + L + n_new])
    return False


# ----------------------------------------------------------------------------
# constant evaluation (C++20): the same call sequences inside constexpr functions; the final buffer and the returned
# iterator offsets must be the extracted model's (static_assert per sequence, so a mismatch is a compile error that
# names the sequence)
# ----------------------------------------------------------------------------
CX_TYPES = {"u8": "sbepp::uint8_t", "u16": "sbepp::uint16_t", "u32": "sbepp::uint32_t", "u64": "sbepp::uint64_t"}
CX_OPS = {"pb", "pop", "clr", "e1", "er", "i1", "in", "if", "il", "rs", "rv", "an", "ai", "al", "as", "ar"}


def cx_lit(ys):
    return "{" + ", ".join("'\\x%02x'" % y for y in ys) + "}"


def cx_call(op, k):
    o = op[0]
    ch = lambda x: "'\\x%02x'" % x
    if o == "pb":
        return "r.push_back(%s);" % ch(op[1])
    if o == "pop":
        return "r.pop_back();"
    if o == "clr":
        return "r.clear();"
    if o == "e1":
        return "ret[%d] = r.erase(r.begin() + %d) - r.begin();" % (k, op[1])
    if o == "er":
        return "ret[%d] = r.erase(r.begin() + %d, r.begin() + %d) - r.begin();" % (k, op[1], op[2])
    if o == "i1":
        return "ret[%d] = r.insert(r.begin() + %d, %s) - r.begin();" % (k, op[1], ch(op[2]))
    if o == "in":
        return "ret[%d] = r.insert(r.begin() + %d, %d, %s) - r.begin();" % (k, op[1], op[2], ch(op[3]))
    if o == "if":
        ys = list(op[2])
        return "{ const char y[] = %s; ret[%d] = r.insert(r.begin() + %d, y, y + %d) - r.begin(); }" % (
            cx_lit(ys + [0]), k, op[1], len(ys))
    if o == "il":
        return "ret[%d] = r.insert(r.begin() + %d, std::initializer_list<char>%s) - r.begin();" % (k, op[1], cx_lit(op[2]))
    if o == "rs":
        return "r.resize(%d);" % op[1]
    if o == "rv":
        return "r.resize(%d, %s);" % (op[1], ch(op[2]))
    if o == "an":
        return "r.assign(%d, %s);" % (op[1], ch(op[2]))
    if o == "ai":
        ys = list(op[1])
        return "{ const char y[] = %s; r.assign(y, y + %d); }" % (cx_lit(ys + [0]), len(ys))
    if o == "al":
        return "r.assign(std::initializer_list<char>%s);" % cx_lit(op[1])
    if o == "as":
        return "{ const char y[] = %s; r.assign_string(static_cast<const char*>(y)); }" % cx_lit(list(op[1]) + [0])
    if o == "ar":
        return "{ const char y[] = %s; r.assign_range(std::string_view(y, %d)); }" % (cx_lit(list(op[1]) + [0]), len(op[1]))
    raise ValueError(o)


def cx_unit(cases, mlines):
    """C++20 translation unit: one constexpr function and two static_asserts per sequence"""
    out = ["// GENERATED by harness/props/c13.py: dynamic_array_ref call sequences in constant evaluation",
           "#define SBEPP_DISABLE_ASSERTS", "#include <sbepp/sbepp.hpp>", "#include <array>", "#include <string_view>",
           "#include <initializer_list>",
           "template<std::size_t N, std::size_t K> struct outcome { std::array<char, N> buf; std::array<long, K> ret; };",
           "template<std::size_t N> constexpr bool same(const std::array<char, N>& a, const std::array<char, N>& b)",
           "{ for(std::size_t i = 0; i < N; i++) if(a[i] != b[i]) return false; return true; }",
           "template<std::size_t K> constexpr bool same_ret(const std::array<long, K>& a, const std::array<long, K>& b)",
           "{ for(std::size_t i = 0; i < K; i++) if(a[i] != b[i]) return false; return true; }"]
    n = 0
    for idx, (c, ml) in enumerate(zip(cases, mlines)):
        mt = ml.split()
        if mt[0] != "wf=1" or len(mt) != len(c.ops) + 1 or any(not t.startswith("ok:") for t in mt[1:]):
            continue
        N, K = len(c.buf), len(c.ops)
        rets = []
        for t in mt[1:]:
            f = t.split(":")
            rets.append(f[1] if f[1] != "-" else "-1")
        final = bytes.fromhex(mt[-1].split(":")[2])
        out.append("constexpr outcome<%d, %d> cx_%d() {" % (N, K, idx))
        out.append("    outcome<%d, %d> o{%s, {%s}};" % (N, K, "{" + cx_lit(c.buf) + "}", ", ".join(["-1"] * K)))
        out.append("    auto& ret = o.ret;")
        out.append("    sbepp::detail::dynamic_array_ref<char, char, %s, sbepp::endian::%s> r{o.buf.data() + %d, o.buf.data() + %d};"
                   % (CX_TYPES[c.T], "big" if c.be else "little", OFF, OFF + c.cap))
        for k, op in enumerate(c.ops):
            out.append("    " + cx_call(op, k))
        out.append("    return o;")
        out.append("}")
        out.append("constexpr auto cxv_%d = cx_%d();" % (idx, idx))
        out.append("static_assert(same(cxv_%d.buf, std::array<char, %d>{%s}), \"C13 constant evaluation: final buffer of sequence %d differs from the model: %s\");"
                   % (idx, N, cx_lit(final), idx, " ".join(tok(o) for o in c.ops)))
        out.append("static_assert(same_ret(cxv_%d.ret, std::array<long, %d>{%s}), \"C13 constant evaluation: returned iterators of sequence %d differ from the model: %s\");"
                   % (idx, K, ", ".join(rets), idx, " ".join(tok(o) for o in c.ops)))
        n += 1
    out.append("int main() { return 0; }")
    return "\n".join(out) + "\n", n


def cx_cases(rng, tier):
    """valid sequences over the constexpr-capable overloads, every length type and byte order"""
    cases = []
    per = 12 if tier == "quick" else 60
    for T in ("u8", "u16", "u32", "u64"):
        for be in (0, 1):
            for _ in range(per):
                capn = rng.choice((4, 8, 16))
                n0 = rng.below(min(capn, 4) + 1)
                xs0 = [rng.choice((A, B, 0x7A)) for _ in range(n0)]
                ops, flags = random_seq(rng, xs0, capn, T, 3 + rng.below(6))
                keep, xs = [], list(xs0)
                for o in ops:
                    if o[0] not in CX_OPS:
                        continue
                    ok, new, _, _ = oracle(xs, o, capn, T)
                    if not ok:
                        continue
                    keep.append(o)
                    xs = new
                # the overloads the seeds aim at appear in every sequence
                extra = [("as", tuple(rng.choice((A, B)) for _ in range(rng.below(capn + 1)))),
                         ("il", 0, (A,)) if len(xs) < capn else ("pop",)]
                for o in extra:
                    ok, new, _, _ = oracle(xs, o, capn, T)
                    if ok:
                        keep.append(o)
                        xs = new
                if keep:
                    cases.append(Case(T, be, capn, xs0, keep, [True] * len(keep), "constexpr"))
    return cases


def run(res, replay=None):
    rng = SplitMix64(res.seed)
    res.rule = ("dynamic_array_ref<char,Value,Length,E> for Length in uint8/16/32/64 x little/big endian x Value in "
                "char/uint8_t/int8_t: from every state of size <= 3 over {a,b} (payload capacity 4): the full "
                "overload/position/count menu at depth 1, reduced x full at depth 2 and reduced^3 at depth 3 "
                "(quick: rotating quarter of the grid, a 14-op menu elsewhere), random 200-call sequences with "
                "capacities 8/16/40 and the uint8 max_size boundary; every step compares return offset, whole "
                "buffer (prefix, payload, bytes outside) and handler flag with the extracted model, and prefix/"
                "payload/iterator/frame with a Python vector oracle and a C++ std::vector run alongside; "
                "valid sequences are also run with assertions compiled out. A case is non-trivial when distinct "
                "by (build, length type, byte order, start state, call prefix).")
    ok_proof = proof_step(res)
    model = Model()
    found = False

    if replay:
        cases = [Case.from_json(j) for j in replay.get("cases", [])]
    else:
        cases = gen_cases(rng, res.tier)

    configs = [("g++", "c++11", ("-O1",), 1), ("g++", "c++20", ("-O2",), 1), ("g++", "c++17", ("-O1",), 0)]
    if res.tier == "thorough":
        configs += [("clang++", s, ("-O1",), 1) for s in ("c++11", "c++14", "c++17", "c++20")] + \
                   [("g++", s, ("-O1",), 1) for s in ("c++14", "c++23")] + \
                   [("g++", "c++17", ("-O1", "-fsanitize=undefined", "-fno-sanitize-recover=all"), 1),
                    ("clang++", "c++20", ("-O2",), 0)]
    res.extra["configurations"] = ["%s -std=%s %s %s" % (c, s, " ".join(f), "asserts" if k else "no-asserts")
                                   for c, s, f, k in configs]
    res.extra["sequences"] = len(cases)
    kinds = {}
    for c in cases:
        kinds[c.kind] = kinds.get(c.kind, 0) + 1
    res.extra["sequences_by_kind"] = kinds

    # model runs: with checks (all sequences) and without (fully valid sequences only)
    valid_cases = [c for c in cases if all(c.flags)]
    m_chk = par_lines(model.path, [c.model_line("cur", 1) for c in cases], 16)
    m_nochk = par_lines(model.path, [c.model_line("cur", 0) for c in valid_cases], 16)
    res.extra["model_steps"] = sum(len(l.split()) - 1 for l in m_chk) + sum(len(l.split()) - 1 for l in m_nochk)

    def build(cfg_elem):
        (cxx, std, flags, chk), (ename, etype) = cfg_elem
        defs = ("C13_ELEM=" + etype, "SBEPP_ENABLE_ASSERTS_WITH_HANDLER" if chk else "SBEPP_DISABLE_ASSERTS")
        return cached_cpp("c13_harness_%s" % ename, os.path.join(VERIF, "cpp/c13_harness.cpp"), std=std, cxx=cxx,
                          flags=flags, defines=defs)

    jobs = [(cfg, e) for cfg in configs for e in ELEMS.items()]
    exes = {}
    with ThreadPoolExecutor(max_workers=12) as ex:
        futs = {ex.submit(build, j): j for j in jobs}
        for f, j in futs.items():
            try:
                exes[j] = f.result()
            except BuildError as e:
                res.violation("harness-build:%s:%s" % (j[0][0], j[0][1]), "C13 harness no longer builds against /repo",
                              {"no_failing_input": True, "correspondence": "c13_harness.cpp", "error": str(e)[-3000:]})

    seen_chk, seen_nochk = {}, {}
    for j in jobs:
        if j not in exes:
            continue
        (cxx, std, flags, chk), (ename, etype) = j
        cfgname = "%s -std=%s %s %s elem=%s" % (cxx, std, " ".join(flags), "asserts" if chk else "no-asserts", ename)
        cs = cases if chk else valid_cases
        ms = m_chk if chk else m_nochk
        try:
            got = par_lines(exes[j], [c.impl_line(chk) for c in cs], 8)
        except RuntimeError as e:
            found = True
            res.violation("crash:%s" % ename, "harness crashed: %s" % str(e)[-400:],
                          {"config": cfgname, "no_failing_input": True, "correspondence": "c13_harness.cpp"})
            continue
        nv = 0
        seen = seen_chk if chk else seen_nochk
        for idx, (c, ml, il) in enumerate(zip(cs, ms, got)):
            # a line identical to one already checked in full for the same case
            # (another build) needs no second analysis
            if seen.get(idx) == il:
                res.evaluations += len(il.split()) - 1
                continue
            if check_case(res, c, ml, il, cfgname, chk):
                found = True
                nv += 1
                if nv > 200:
                    break
            else:
                seen[idx] = il
    # constant evaluation (C++20, g++ and clang++): static_asserts generated from the model's results
    if not replay or replay.get("constexpr"):
        cxs = [Case.from_json(j) for j in replay.get("cases", [])] if replay else cx_cases(SplitMix64(res.seed + 77), res.tier)
        cxs = [c for c in cxs if all(o[0] in CX_OPS for o in c.ops)]
        cx_m = par_lines(model.path, [c.model_line("cur", 0) for c in cxs], 16) if cxs else []
        text, ncx = cx_unit(cxs, cx_m)
        res.extra["constexpr_sequences"] = ncx
        res.extra["constexpr_static_asserts"] = text.count("static_assert(")
        td = tmpdir()
        try:
            pth = os.path.join(td, "c13_constexpr.cpp")
            open(pth, "w").write(text)
            for cxx in (("g++", "clang++") if res.tier == "thorough" or True else ("g++",)):
                rc, out, err = sh([cxx, "-std=c++20", "-fsyntax-only", "-I", os.path.join(REPO, "sbepp", "src"),
                                   "-fconstexpr-ops-limit=100000000" if cxx == "g++" else "-fconstexpr-steps=100000000", pth],
                                  timeout=1200)
                res.evaluations += ncx
                if rc != 0:
                    found = True
                    bad = re.findall(r"sequence (\d+) diff", err)
                    first = int(bad[0]) if bad else None
                    rj = {"cases": [cxs[first].to_json()] if first is not None and first < len(cxs) else [],
                          "constexpr": True, "compiler": cxx, "error": err[-2500:]}
                    msg = re.findall(r"C13 constant evaluation: [^\"\n]*", err)
                    res.violation("constexpr:%s" % (cxs[first].ops[-1][0] if first is not None and first < len(cxs) else "build"),
                                  "in constant evaluation (%s -std=c++20) a call sequence does not produce the model's buffer / iterators: %s"
                                  % (cxx, msg[0] if msg else err[-300:]), rj)
        finally:
            shutil.rmtree(td, ignore_errors=True)
    if cases:
        c = cases[len(cases) // 2]
        res.sample({"case": c.impl_line(1), "model": m_chk[len(cases) // 2][:400]})
        c = cases[-1]
        res.sample({"case": c.impl_line(1)[:400], "model": m_chk[-1][:400]})

    if not ok_proof:
        proof_failure_violation(res, found)
    return res.finish(trusted=[
        "Dyn.v transcribes dynamic_array_ref statement by statement; std::copy/copy_backward/fill_n/copy_n on byte "
        "pointers are modelled as memmove/memset; CInt.v models LP64 integer conversions",
        "pointers are modelled as integer offsets into one flat buffer (pointer comparison = integer comparison)",
        "correspondence harness cpp/c13_harness.cpp (guard page behind the buffer, assertion handler via siglongjmp)",
        "extraction: ExtrOcamlBasic only; ocaml/drv_c13.ml hex/decimal conversion"])
