"""C19 — visiting and tag-based access enumerate members faithfully."""
import c04


def run(res, replay=None):
    return c04.run(res, replay, visit_only=True)
