"""C15 — set choices are independent bits for every encoding width."""
import os
from common import *

WIDTHS = {"u8": 8, "u16": 16, "u32": 32, "u64": 64}
PRIM = {"u8": "uint8", "u16": "uint16", "u32": "uint32", "u64": "uint64"}


# declared order of the choices of the sparse sets pset<w>: gaps and out-of-order bit indices (SBE allows both)
SPARSE = {"u8": [7, 2, 5, 0], "u16": [15, 3, 8, 0, 9, 12], "u32": [31, 0, 17, 5, 30, 16, 1],
          "u64": [63, 0, 32, 31, 47, 5, 33, 62]}


def declared(setname):
    """bit indices of the choices of a harness set in declaration order"""
    k = {8: "u8", 16: "u16", 32: "u32", 64: "u64"}[int(setname.lstrip("ps").lstrip("et"))]
    return SPARSE[k] if setname.startswith("p") else list(range(WIDTHS[k]))


def sets_schema():
    t = ""
    for k, w in WIDTHS.items():
        for name in ("set%d" % w, "pset%d" % w):
            t += '<set name="%s" encodingType="%s">\n' % (name, PRIM[k])
            for i in declared(name):
                t += '  <choice name="c%d">%d</choice>\n' % (i, i)
            t += "</set>\n"
    return schema_xml("hs_sets", t)


def table_inc():
    s = ""
    for k, w in WIDTHS.items():
        for name in ("set%d" % w, "pset%d" % w):
            S = "hs_sets::types::%s" % name
            T = "hs_sets::schema::types::%s" % name
            s += ("struct ent_%s { unsigned idx; bool (*get)(%s); bool (*get_tag)(%s); void (*set)(%s&, bool); "
                  "void (*set_tag)(%s&, bool); bool (*chain)(%s&, bool); };\n" % (name, S, S, S, S, S))
            s += "static const ent_%s tab_%s[] = {\n" % (name, name)
            for i in declared(name):
                s += ("  { %d, [](%s s){ return s.c%d(); }, [](%s s){ return sbepp::get_by_tag<%s::c%d>(s); },"
                      " [](%s& s, bool b){ s.c%d(b); }, [](%s& s, bool b){ sbepp::set_by_tag<%s::c%d>(s, b); },"
                      " [](%s& s, bool b){ return same_object(s, s.c%d(b)); } },\n"
                      % (i, S, i, S, T, i, S, i, S, T, i, S, i))
            s += "};\n"
    return s


def patterns(rng, w, nrand):
    full = (1 << w) - 1
    ps = [0, full]
    for i in range(w):
        ps.append(1 << i)
        ps.append(full ^ (1 << i))
    for _ in range(nrand):
        ps.append(rng.next() & full)
    return ps


def gen_cases(rng, tier):
    raw, gen = [], []
    thorough = tier == "thorough"
    # 8 bit: exhaustive
    for v in range(256):
        for n in range(8):
            for b in (0, 1):
                raw.append(("u8", v, n, b))
    # 16 bit: every value, exhaustive indices in thorough, two random (n,b) per value in quick
    for v in range(65536):
        if thorough:
            for n in range(16):
                for b in (0, 1):
                    raw.append(("u16", v, n, b))
        else:
            for _ in range(2):
                raw.append(("u16", v, rng.below(16), rng.below(2)))
    for k in ("u32", "u64"):
        w = WIDTHS[k]
        for v in patterns(rng, w, 400 if thorough else 40):
            for n in range(w):
                for b in (0, 1):
                    raw.append((k, v, n, b))
    for k, w in WIDTHS.items():
        ps = patterns(rng, w, 60 if thorough else 8)
        for v in ps:
            for n in range(w):
                gen.append((k, v, n, rng.below(2)))
            for j in range(len(SPARSE[k])):
                gen.append((k, v, j, rng.below(2), "p"))
    return raw, gen


def run(res, replay=None):
    rng = SplitMix64(res.seed)
    res.rule = ("raw bitset_base<T>: exhaustive (value,index,bool) for 8 bit; every 16-bit value (all indices in "
                "thorough); walking-bit/complement/random patterns x every index x both bools for 32/64 bit; "
                "generated set classes (dense sets with every bit declared in order, and sparse sets with gaps and out-of-order bit indices): named accessor, get_by_tag/set_by_tag, visit (tags) and visit_set (names), ==/!= on the same patterns; "
                "constant evaluation: static_assert block with model-computed expectations. A case is non-trivial "
                "when distinct by (type,value,index,bool).")
    ok_proof = proof_step(res)
    model = Model()
    found = False

    inc, rc, out = gen_headers("hs_sets", sets_schema())
    if rc != 0:
        res.violation("harness-schema-rejected", "sbeppc rejects the set harness schema: " + out[-500:],
                      {"schema": sets_schema(), "no_failing_input": True})
        return res.finish()
    tdir = os.path.join(os.path.dirname(inc), "tab")
    os.makedirs(tdir, exist_ok=True)
    open(os.path.join(tdir, "c15_table.inc"), "w").write(table_inc())

    raw, gen = gen_cases(rng, res.tier)
    if replay:
        raw = [tuple(c) for c in replay.get("raw", [])]
        gen = [tuple(c) for c in replay.get("gen", [])]

    raw_lines = ["c15 cur %s %d %d %d" % c for c in raw]
    spec_lines = ["c15 spec %s %d %d %d" % c for c in raw]
    exp = model.run(raw_lines)
    spec = model.run(spec_lines)

    configs = [("g++", "c++11", ("-O1",)), ("g++", "c++20", ("-O2",)),
               ("g++", "c++17", ("-O1", "-fsanitize=undefined", "-fno-sanitize-recover=all"))]
    if res.tier == "thorough":
        configs += [("clang++", s, ("-O1",)) for s in ("c++11", "c++14", "c++17", "c++20")] + \
                   [("g++", s, ("-O1",)) for s in ("c++14", "c++23")]
    res.extra["configurations"] = ["%s -std=%s %s" % (c, s, " ".join(f)) for c, s, f in configs]

    # model-level sanity: current model must equal spec on every case (it is a theorem)
    for c, e, s in zip(raw, exp, spec):
        if e != s:
            found = True
            res.violation("model-vs-spec:%s" % c[0], "model of the current code disagrees with testbit spec",
                          {"raw": [list(c)], "expected": s, "observed_model": e})
            break

    def decl_of(c):
        return SPARSE[c[0]] if len(c) == 5 else list(range(WIDTHS[c[0]]))

    gen_lines_model = []
    for c in gen:
        k, v, n, b = c[:4]
        gen_lines_model.append("c15 cur %s %d %d %d" % (k, v, decl_of(c)[n], b))
        gen_lines_model.append("c15v %s %d %s" % (k, v, " ".join(str(i) for i in decl_of(c))))
    gm = model.run(gen_lines_model)
    gen_exp = []
    for i, c in enumerate(gen):
        k, v, n, b = c[:4]
        g_s = dict(x.split("=") for x in gm[2 * i].split())
        vis = gm[2 * i + 1].split("=")[1]
        sv = g_s["set"]
        # visit (tags) and visit_set (names): every declared choice once, in declaration order, with its own bit
        vs = ",".join("c%d:%s" % (idx, bit) for idx, bit in zip(decl_of(c), vis))
        gen_exp.append("get=%s bytag=%s set=%s setbytag=%s chain=1 visit=%s order=1 vs=%s eq=1%d ne=%d" % (
            g_s["get"], g_s["get"], sv, sv, vis, vs, 1 if sv == str(v) else 0, 0 if sv == str(v) else 1))

    for cxx, std, flags in configs:
        try:
            exe = cached_cpp("c15_harness", os.path.join(VERIF, "cpp/c15_harness.cpp"), std=std, cxx=cxx,
                             flags=flags, includes=(inc, tdir), extra_hash=hash_files(tree_files(inc)))
        except BuildError as e:
            found = False
            res.violation("harness-build:%s:%s" % (cxx, std), "C15 harness no longer builds against /repo",
                          {"no_failing_input": True, "correspondence": "c15_harness.cpp", "error": str(e)[-3000:]})
            continue
        rc, got, err = run_lines(exe, raw_lines + ["c15g %s%s %d %d %d" % (("p" if len(c) == 5 else ""), c[0], c[1], c[2], c[3]) for c in gen])
        if rc != 0 and len(got) < len(raw) + len(gen):
            # sanitizer abort: locate the case
            idx = len(got)
            allc = raw + gen
            c = allc[min(idx, len(allc) - 1)]
            found = True
            res.violation("ub:%s:idx%s" % (c[0], "ge31" if c[2] >= 31 else "lt31"),
                          "undefined behaviour / crash in bit accessor (%s -std=%s): %s" % (cxx, std, err[-300:]),
                          {("raw" if idx < len(raw) else "gen"): [list(c)], "config": [cxx, std, list(flags)],
                           "stderr": err[-2000:]})
            continue
        for i, c in enumerate(raw):
            res.count(("raw",) + c)
            if got[i] != spec[i]:
                found = True
                res.violation("raw:%s:idx%s" % (c[0], "ge31" if c[2] >= 31 else "lt31"),
                              "bitset_base<%s> bits=%d index=%d value=%d: expected %s, got %s (%s -std=%s)"
                              % (c[0], c[1], c[2], c[3], spec[i], got[i], cxx, std),
                              {"raw": [list(c)], "expected": spec[i], "observed": got[i],
                               "config": [cxx, std, list(flags)]})
        for i, c in enumerate(gen):
            res.count(("gen",) + c)
            g = got[len(raw) + i]
            if g != gen_exp[i]:
                found = True
                res.violation("gen:%s:idx%s" % (c[0], "ge31" if c[2] >= 31 else "lt31"),
                              "generated %sset%d bits=%d choice c%d: expected %s, got %s (%s -std=%s)"
                              % ("p" if len(c) == 5 else "", WIDTHS[c[0]], c[1], decl_of(c)[c[2]], gen_exp[i], g, cxx, std),
                              {"gen": [list(c)], "expected": gen_exp[i], "observed": g,
                               "config": [cxx, std, list(flags)]})
    res.sample({"case": raw_lines[12345 % len(raw_lines)], "expected": spec[12345 % len(raw_lines)]})
    if gen:
        res.sample({"case": "c15g " + " ".join(str(x) for x in gen[-1]), "expected": gen_exp[-1]})

    # constant evaluation: static_assert block
    sa = ["#include <hs_sets/hs_sets.hpp>"]
    pick = [gen[rng.below(len(gen))] for _ in range(400 if res.tier == "thorough" else 150)] if gen else []
    for c in pick:
        k, v, n, b = c[:4]
        i = gen.index(c)
        d = dict(x.split("=", 1) for x in gen_exp[i].split())
        S = "hs_sets::types::%sset%d" % ("p" if len(c) == 5 else "", WIDTHS[k])
        n = decl_of(c)[n]
        lit = "%dULL" % v
        sa.append("static_assert(%s{static_cast<%s>(%s)}.c%d() == %s, \"get %s %d %d\");"
                  % (S, "std::uint%d_t" % WIDTHS[k], lit, n, "true" if d["get"] == "1" else "false", k, v, n))
        sa.append("#if __cplusplus >= 201402L")
        sa.append("static_assert(*(%s{static_cast<%s>(%s)}.c%d(%s)) == %sULL, \"set %s %d %d %d\");"
                  % (S, "std::uint%d_t" % WIDTHS[k], lit, n, "true" if b else "false", d["set"], k, v, n, b))
        sa.append("#endif")
    sa.append("int main(){}")
    td = tmpdir()
    try:
        src = os.path.join(td, "c15_constexpr.cpp")
        open(src, "w").write("\n".join(sa))
        stds = ["c++11", "c++17", "c++20"] if res.tier == "quick" else ["c++11", "c++14", "c++17", "c++20", "c++23"]
        for cxx in (["g++"] if res.tier == "quick" else ["g++", "clang++"]):
            for std in stds:
                if cxx == "clang++" and std == "c++23":
                    std = "c++2b"
                rc, err = compile_cpp(src, None, std=std, cxx=cxx, includes=(inc,), syntax_only=True)
                res.count(("constexpr", cxx, std, len(pick)))
                if rc != 0:
                    found = True
                    import re as _re
                    m = _re.search(r'static assertion failed: (get|set) (\w+) (\d+) (\d+)', err)
                    sig = "constexpr:%s" % (m.group(2) if m else "compile")
                    if m:
                        sig += ":idx%s" % ("ge31" if int(m.group(4)) >= 31 else "lt31")
                    res.violation(sig, "constant evaluation disagrees with the model (%s -std=%s): %s"
                                  % (cxx, std, (m.group(0) if m else err[-300:])),
                                  {"source": "\n".join(sa[:40]), "stderr": err[-2000:], "config": [cxx, std]})
    finally:
        shutil.rmtree(td, ignore_errors=True)

    if not ok_proof:
        proof_failure_violation(res, found)
    return res.finish(trusted=[
        "translator harness/srcexprs.py: clang 14's typed AST (-ast-dump=json, -std=c++17, this host's target) of the bitset_base<T> get/set bit operators (T = uint8..uint64), "
        "instantiated in a generated unit, copied node by node into CExpr.v terms (coq/SrcExprs.v, regenerated on every run); "
        "trusted: clang's parse and the types it assigns, the one-to-one node mapping, CExpr.ceval as the meaning of a node",
        "CInt.v models integral promotion / usual arithmetic conversions / shift UB on LP64 (int=32 bit)",
        "correspondence harness cpp/c15_harness.cpp + generated hs_sets schema (sbeppc from /repo)",
        "extraction: ExtrOcamlBasic only; ocaml/drv_*.ml decimal<->Z conversion"])
