"""C19 (enum part): visiting an enum value yields its value tag or the unknown tag."""
from common import *

ENUMS = {"char": (0, 255), "uint8": (0, 255), "int8": (-128, 127), "uint16": (0, 65535), "int16": (-32768, 32767),
         "uint32": (0, 2 ** 32 - 1), "int32": (-2 ** 31, 2 ** 31 - 1), "uint64": (0, 2 ** 64 - 1), "int64": (-2 ** 63, 2 ** 63 - 1)}


def enum_values(rng, prim):
    lo, hi = ENUMS[prim]
    if prim == "char":
        return [65, 66, 122, 48]
    vals = {lo if prim.startswith("int") else 0, 1, 2, hi - 1 if prim.startswith("u") else hi, 7, 100}
    if lo < 0:
        vals.add(-1)
    return sorted(vals)


def run_enum_part(res, model):
    """returns found flag"""
    rng = SplitMix64(res.seed + 19)
    types = ""
    table = ["static std::string dispatch_enum(const std::string& n, long long v) {"]
    spec = {}
    for prim in ENUMS:
        vals = enum_values(rng, prim)
        name = "E_" + prim
        types += '<enum name="%s" encodingType="%s">\n' % (name, prim)
        for i, v in enumerate(vals):
            txt = chr(v) if prim == "char" else str(v)
            types += '  <validValue name="v%d">%s</validValue>\n' % (i, txt)
        types += "</enum>\n"
        table.append('  if(n == "%s") return visit_enum<hs_enums::types::%s>(v);' % (prim, name))
        spec[prim] = vals
    table.append('  return "ERR"; }')
    inc, rc, out = gen_headers("hs_enums", schema_xml("hs_enums", types))
    if rc != 0:
        res.violation("enum-schema-rejected", "sbeppc rejects the enum harness schema: " + out[-300:], {"no_failing_input": True})
        return True
    tdir = os.path.join(os.path.dirname(inc), "tab")
    os.makedirs(tdir, exist_ok=True)
    open(os.path.join(tdir, "c19_enum_table.inc"), "w").write("\n".join(table))
    cases = []
    for prim, vals in spec.items():
        lo, hi = ENUMS[prim]
        probe = set(vals)
        for v in vals:
            probe.update({v - 1, v + 1})
        probe.update({lo, hi, 0})
        for _ in range(20):
            probe.add(lo + rng.next() % (hi - lo + 1))
        for v in sorted(p for p in probe if lo <= p <= hi):
            if prim == "uint64" and v > 2 ** 63 - 1:
                continue   # harness passes values as long long
            cases.append((prim, v))
    ml = ["enumv %d %s" % (v, " ".join(str(x) for x in spec[p])) for p, v in cases]
    il = ["enumv %s %d" % (p, v) for p, v in cases]
    mo = model.run(ml)
    found = False
    for cxx, std in (("g++", "c++11"), ("g++", "c++20")):
        try:
            exe = cached_cpp("c19_enum_harness", os.path.join(VERIF, "cpp/c19_enum_harness.cpp"), std=std, cxx=cxx,
                             flags=("-O1",), includes=(inc, tdir), extra_hash=hash_files(tree_files(inc)))
        except BuildError as e:
            res.violation("enum-harness-build", "enum visit harness does not build: " + str(e)[-400:],
                          {"no_failing_input": True, "correspondence": "c19_enum_harness.cpp"})
            return True
        rc, io, err = run_lines(exe, il)
        for (p, v), a, b in zip(cases, mo, io):
            exp = "unknown" if a == "unknown" else "v" + a
            res.count(("enum", p, v, cxx, std))
            if b != exp:
                found = True
                res.violation("enum-visit:%s" % p, "visit(%s value %d) reported `%s`, expected `%s` (%s %s)" % (p, v, b, exp, cxx, std),
                              {"enum": p, "value": v, "validValues": spec[p], "observed": b, "expected": exp})
    return found
