"""C03 — decoding honours the wire blockLength (schema extension)."""
import c02


def run(res, replay=None):
    return c02.run(res, replay, inflate=True)
