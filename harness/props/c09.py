"""C09 — sbeppc is total: any input gives exit 0 or a diagnostic, never a crash."""
import os
import shutil
from collections import Counter

from common import *
import mutate

# crash signatures that name a defect precisely (used by known_findings.json)
SIGNATURES = [
    (("include",), ("self-include", "main-self-include", "mutual-include", "three-cycle", "aliased-self-include"),
     "crash:include-cycle"),
    (("const-char",), None, "crash:const-char-valueref-no-length"),
    (("argv", "include"), ("directory-as-file", "href-directory"), "crash:directory-as-input"),
    (("raw",), ("deep-composites", "deep-groups"), "crash:deep-nesting"),
]


def signature(inp, what, stderr=""):
    if "format_error" in stderr:
        return "crash:format-string-in-diagnostic"
    if "location_manager" in stderr and "Offset is out of range" in stderr:
        return "crash:xml-error-offset-past-end"
    if "length_error" in stderr:
        return "crash:directory-as-input"
    if "_M_is_engaged" in stderr:
        return "crash:const-char-valueref-no-length"
    for streams, kinds, sig in SIGNATURES:
        if inp.stream in streams and (kinds is None or inp.kind in kinds):
            return sig if what in ("crash", "signal") else "%s:%s" % (what, sig.split(":", 1)[1])
    return "%s:%s:%s" % (what, inp.stream, inp.kind.split(":")[0])


def run(res, replay=None):
    rng = SplitMix64(res.seed)
    res.rule = ("inputs for the ASan+UBSan+assert build of /repo's sbeppc: (garble) every attribute of every node of "
                "valid generated schemas deleted / replaced by garbage, extreme numbers, unknown attributes, elements "
                "re-tagged, enum/set children garbled, member order permuted; (retarget) every reference retargeted to "
                "every public name incl. itself (cycles); (include) include graphs: valid, missing, empty, directory, "
                "garbage, self/mutual/3-cycles, aliased, deep chain, diamond; (const-char) value/valueRef/length "
                "combinations of constant char types; (raw) empty/NUL/UTF-16/random bytes, truncations, byte edits, "
                "deep nesting, entities; (argv) option/argument combinations incl. unwritable output directories. "
                "Observed: wait status, sanitizer report, hang, Error line iff non-zero exit, no files after a "
                "rejection; where the AST is representable the extracted model's verdict must agree. Non-trivial = "
                "distinct (stream, kind, note).")
    ok_proof = proof_step(res)
    _orig_violation = res.violation
    _seen_sigs = {}

    def _dedup(sig, what, replay_info):
        # one replay per signature; count the rest
        _seen_sigs[sig] = _seen_sigs.get(sig, 0) + 1
        if _seen_sigs[sig] > 1:
            return False
        return _orig_violation(sig, what, replay_info)
    res.violation = _dedup
    model = Model()
    found = False
    exe = build_sbeppc(sanitize=True)

    quick = res.tier == "quick"
    nbase = 1 if quick else 6
    inputs = []
    bases = mutate.base_schemas(rng.fork("c09"), nbase + 1, nmsg=2, max_depth=2)
    for bi, (xs, st) in enumerate(bases[:nbase]):
        r = rng.fork("g%d" % bi)
        inputs += mutate.c09_garble(xs, r, per_attr=1 if quick else 4)
        inputs += mutate.c09_retarget(xs, r)
        inputs += mutate.c09_raw(xs, r, ntrunc=120 if quick else 400, nflip=150 if quick else 600)
    small = bases[nbase][0]
    inputs += mutate.c09_includes(small)
    inputs += mutate.c09_const_char(small)
    inputs += mutate.c09_argv(small)
    # a sample of the C08 single edits (duplicates, keywords, numbers near 2^64 ...) under the sanitizers
    c08 = mutate.c08_cases(small, rng.fork("c08sample"))
    for c in c08:
        inputs.append(mutate.Input("c08-edit", c.kind, {"schema.xml": mutate.schema_xml(c.xs)},
                                   expect="any", note=c.note))

    if replay and "files" in replay:
        inputs = [mutate.Input(replay["stream"], replay["kind"],
                               {k: bytes.fromhex(v) for k, v in replay["files"].items()}, replay.get("main", "schema.xml"),
                               replay.get("argv"), replay.get("expect", "any"), replay.get("model_line"), replay.get("note", ""))]

    mlines = [i.model for i in inputs if i.model]
    mres = iter(model.run(mlines))
    mout = [next(mres) if i.model else None for i in inputs]

    env = dict(os.environ)
    env["ASAN_OPTIONS"] = "detect_leaks=0:abort_on_error=0:allocator_may_return_null=1"
    env["UBSAN_OPTIONS"] = "print_stacktrace=0:halt_on_error=1"
    root = tmpdir("c09-")
    try:
        verdicts = mutate.run_many(exe, root, [(i.files, i.main, i.argv) for i in inputs], workers=16, timeout=60, env=env)
    finally:
        shutil.rmtree(root, ignore_errors=True)

    dist = Counter()
    outcomes = Counter()
    for inp, ml, v in zip(inputs, mout, verdicts):
        res.count((inp.stream, inp.kind, inp.note))
        dist[inp.stream] += 1
        st = v.status()
        outcomes["%s:%s" % (inp.stream, st)] += 1

        def info():
            return {"stream": inp.stream, "kind": inp.kind, "note": inp.note, "main": inp.main, "argv": inp.argv,
                    "expect": inp.expect, "model_line": inp.model, "model": ml,
                    "files": {k: (d if isinstance(d, bytes) else d.encode()).hex() if len(d) < 200000 else
                              (d if isinstance(d, bytes) else d.encode())[:2000].hex() for k, d in inp.files.items()},
                    "main_text": (lambda d: (d if isinstance(d, str) else d.decode("utf-8", "replace"))[:6000])(
                        inp.files.get(inp.main, "")),
                    "sbeppc": v.brief()}
        if st not in ("ok", "error"):
            found = True
            res.violation(signature(inp, "crash" if st in ("crash", "signal") else st, v.err),
                          "sbeppc %s (rc=%s) on %s/%s %s: %s" % (st, v.rc, inp.stream, inp.kind, inp.note,
                                                                 v.err.strip().split("\n")[0][:200] if v.err else ""), info())
            continue
        if st == "error":
            if v.first is None:
                found = True
                res.violation("no-diagnostic:%s:%s" % (inp.stream, inp.kind.split(":")[0]),
                              "non-zero exit without an Error line (%s)" % inp.note, info())
                continue
            # an error while WRITING the output (e.g. a 5000-character type name gives ENAMETOOLONG) is an I/O
            # failure of an accepted schema, not a rejection; partial output on I/O errors is C20's subject
            output_io_error = v.cls == "Io" and ("`out/" in v.first or "can't create directory" in v.first)
            if output_io_error:
                outcomes["%s:output-io-error" % inp.stream] += 1
            if v.files and not output_io_error:
                found = True
                res.violation("files-left-behind:%s:%s" % (inp.stream, inp.kind.split(":")[0]),
                              "rejected input left files: %s (%s)" % (v.files[:4], v.first), info())
                continue
        else:
            if v.error_lines:
                found = True
                res.violation("error-with-exit-0:%s" % inp.stream, "exit 0 but an Error line: %s" % v.first, info())
                continue
        if inp.expect in ("accept", "reject") and (st == "ok") != (inp.expect == "accept"):
            found = True
            res.violation(signature(inp, "accepts" if st == "ok" else "rejects"),
                          "sbeppc %s but %s is expected for %s (%s)" % (st, inp.expect, inp.note, v.first), info())
            continue
        if ml is not None:
            if ml.startswith("validate="):
                m = dict(x.split("=", 1) for x in ml.split())
                bad_model = m["validate"].startswith(("crash", "fuel")) or (m["validate"] == "ok") != (m["rules"] == "1") \
                    or (m["validate"] == "ok" and m["gen"] != "ok")
                if bad_model:
                    found = True
                    res.violation("model-vs-spec:%s" % inp.kind, "extracted model inconsistent: " + ml.split(" sizes=")[0], info())
                    continue
                if (m["validate"] == "ok") != (st == "ok"):
                    found = True
                    res.violation(signature(inp, "accepts" if st == "ok" else "rejects") + ":vs-model",
                                  "sbeppc %s, model %s for %s (%s)" % (st, m["validate"], inp.note, v.first), info())
                    continue
            else:
                if ml == "diverge" or (ml == "err" and st == "ok") or (ml == "loaded" and inp.expect == "accept" and st != "ok"):
                    found = True
                    res.violation(signature(inp, "include-model"), "include model says %s, sbeppc %s (%s)" % (ml, st, inp.note), info())
                    continue
        if len(res.samples) < 6 and inp.stream in ("include", "const-char", "argv") and st == "error":
            res.sample({"stream": inp.stream, "kind": inp.kind, "diagnostic": v.first})

    res.extra["distribution"] = {"inputs": len(inputs), "per_stream": dict(sorted(dist.items())),
                                 "per_stream_outcome": dict(sorted(outcomes.items())),
                                 "accept_ratio": round(sum(n for k, n in outcomes.items() if k.endswith(":ok")) / max(1, len(inputs)), 3)}
    res.extra["configurations"] = ["g++ -std=c++17 -O1 -g -fsanitize=address,undefined -fno-sanitize-recover=all -UNDEBUG "
                                   "-D_GLIBCXX_ASSERTIONS (sbeppc built from the working tree)"]
    res.extra["violation_signatures"] = dict(sorted(_seen_sigs.items()))
    found = bool(res.violations)
    if not ok_proof:
        proof_failure_violation(res, found)
    return res.finish(trusted=[
        "Pipeline.v models the include graph, parse_type_encoding's constant length and the generation-time lookups; "
        "bytes -> DOM (pugixml), {fmt}, libstdc++ and the file system are outside the model",
        "the sanitizers (ASan, UBSan, libstdc++ assertions) and the 60 s wall-clock limit are the crash/UB/hang detectors",
        "harness/mutate.py input streams; extraction: ExtrOcamlBasic only; ocaml/drv_c08.ml"])
