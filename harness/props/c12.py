"""C12 — group views obey iterator and container laws for every dimension type.

Correspondence: the extracted model (coq/GroupIter.v, ocaml/drv_c12.ml) and the
real sbepp.hpp (cpp/c12_harness.cpp, generated hs_c12 schema with one flat
group per dimension composite and nested groups for a subset) are run on the
same case lines.  Dimension composites (class Dim): the 16 two-member ones
(blockLength, numInGroup) for every type pair, plus composites whose size is
NOT sizeof(blockLength)+sizeof(numInGroup) or whose members are elsewhere:
ext (SBE 2.0 style trailing numGroups uint16 + numVarDataFields uint8), pad
(blockLength at offset 0, numInGroup at offset 8), rev (numInGroup declared
before blockLength).  Every case line names its composite as
"S B shape H obl ong" (types, shape, size, member offsets - computed HERE from
the schema text that is generated here) and the header bytes of every harness
buffer are built HERE (hdr_bytes: blockLength / numInGroup at the member
offsets, filler elsewhere).  Three expectations are compared for every case:

  spec   -- computed here, independently of the model, whenever the documented
            preconditions (the hypotheses of the C12 theorems) hold: entry i is
            at data start + i * blockLength, distances/orderings are index
            differences/orderings, resize rewrites the numInGroup bytes only.
  model  -- what the Coq model of the (repaired) code computes; the theorems
            prove model == spec under the preconditions.
  impl   -- what /repo's header does.

impl != model (on a field the model defines) or model != spec is a violation;
the case line is the replay."""
import os
from concurrent.futures import ThreadPoolExecutor
from common import *

T = ["u8", "u16", "u32", "u64"]
BITS = {"u8": 8, "u16": 16, "u32": 32, "u64": 64}
PRIM = {"u8": "uint8", "u16": "uint16", "u32": "uint32", "u64": "uint64"}
NESTED = [("u8", "u8"), ("u16", "u16"), ("u32", "u32"), ("u64", "u64"), ("u8", "u32"), ("u32", "u8")]
I64MAX = 2 ** 63 - 1
I64MIN = -2 ** 63

SIZES = {
    "u8": [0, 1, 2, 3, 127, 128, 255],
    "u16": [0, 1, 2, 3, 127, 128, 255, 32767, 32768, 65535],
    "u32": [0, 1, 3, 128, 32768, 65536, 2 ** 31 - 1, 2 ** 31, 2 ** 32 - 1],
    "u64": [0, 1, 3, 128, 32768, 2 ** 31, 2 ** 32, 2 ** 40],
}
BLENS = {
    "u8": [0, 1, 2, 255],
    "u16": [0, 1, 2, 255, 65535],
    "u32": [0, 1, 2, 65535, 65536, 2 ** 31, 2 ** 32 - 1],
    "u64": [0, 1, 2, 65535, 2 ** 31, 2 ** 32, 2 ** 40],
}


def smax(s):
    return 2 ** BITS[s] - 1


def dmax(s):
    return 2 ** (BITS[s] - 1) - 1


def dmin(s):
    return -2 ** (BITS[s] - 1)


def wb(t):
    return BITS[t] // 8


# --------------------------------------------------------------------------
# dimension composites
# --------------------------------------------------------------------------

class Dim:
    """a dimension composite of the harness schema: members in declaration order
    as (name, primitive type key, explicit offset or None); the layout (member
    offsets, size) follows the SBE rules: a member starts at its explicit offset,
    else where the previous one ends; the composite ends where its last member ends"""

    def __init__(self, shape, s, b, members):
        self.shape, self.s, self.b, self.members = shape, s, b, members
        pos = 0
        self.offsets = {}
        for name, t, off in members:
            if off is not None:
                assert off >= pos
                pos = off
            self.offsets[name] = pos
            pos += wb(t)
        self.H = pos
        self.obl = self.offsets["blockLength"]
        self.ong = self.offsets["numInGroup"]
        self.key = "%s_%s_%s" % (shape, s, b) if shape != "std" else "%s_%s" % (s, b)

    def tokens(self):
        return "%s %s %s %d %d %d" % (self.s, self.b, self.shape, self.H, self.obl, self.ong)

    def xml(self):
        t = '<composite name="dim_%s">\n' % self.key
        for name, ty, off in self.members:
            t += '  <type name="%s" primitiveType="%s"%s/>\n' % (
                name, PRIM[ty], "" if off is None else ' offset="%d"' % off)
        return t + "</composite>\n"

    def hdr_bytes(self, ng, bl):
        """the H bytes of the composite: blockLength / numInGroup (little-endian) at their
        member offsets, a recognisable non-zero filler in every other byte (extra members,
        padding) so that a read at a wrong offset does not see the right value by accident"""
        h = bytearray((0xA1 + 7 * i) & 0xFF for i in range(self.H))
        h[self.obl:self.obl + wb(self.b)] = (bl % 2 ** BITS[self.b]).to_bytes(wb(self.b), "little")
        h[self.ong:self.ong + wb(self.s)] = (ng % 2 ** BITS[self.s]).to_bytes(wb(self.s), "little")
        assert len(h) == self.H
        return bytes(h)


def std_dim(s, b):
    return Dim("std", s, b, [("blockLength", b, None), ("numInGroup", s, None)])


def ext_dim(s, b):
    return Dim("ext", s, b, [("blockLength", b, None), ("numInGroup", s, None),
                             ("numGroups", "u16", None), ("numVarDataFields", "u8", None)])


def pad_dim(s, b):
    return Dim("pad", s, b, [("blockLength", b, 0), ("numInGroup", s, 8)])


def rev_dim(s, b):
    return Dim("rev", s, b, [("numInGroup", s, None), ("blockLength", b, None)])


# (numInGroup type, blockLength type)
STD = [std_dim(s, b) for s in T for b in T]
EXTRA = [ext_dim("u8", "u16"), ext_dim("u16", "u16"), ext_dim("u32", "u32"), ext_dim("u16", "u8"),
         pad_dim("u8", "u32"), pad_dim("u64", "u16"),
         rev_dim("u16", "u32"), rev_dim("u32", "u8")]
FLAT_DIMS = STD + EXTRA
NESTED_DIMS = [d for d in STD if (d.s, d.b) in NESTED] + EXTRA
SHAPES = ("std", "ext", "pad", "rev")
DIM_BY_KEY = {(d.shape, d.s, d.b): d for d in FLAT_DIMS}


def dim_of(a, i):
    """the composite named by tokens a[i:i+6] = S B shape H obl ong"""
    d = DIM_BY_KEY[(a[i + 2], a[i], a[i + 1])]
    assert (d.H, d.obl, d.ong) == (int(a[i + 3]), int(a[i + 4]), int(a[i + 5])), a
    return d


def upgrade_line(l):
    """replays recorded before the protocol carried the dimension composite: insert the
    two-member composite (and its header bytes where the command has them)"""
    a = l.split()
    i = 2 if a[0] == "c12n" else 3
    if a[i + 2] in SHAPES:
        return l
    d = DIM_BY_KEY[("std", a[i], a[i + 1])]
    if a[0] in ("c12f", "c12g"):     # ... S B | goff ng bl ...
        extra = [d.hdr_bytes(int(a[i + 3]), int(a[i + 4])).hex()]
    elif a[0] == "c12n":             # ... S B | pre bl cut k ...
        extra = [d.hdr_bytes(int(a[i + 5]), int(a[i + 3])).hex()]
    else:
        extra = []
    return " ".join(a[:i] + d.tokens().split() + extra + a[i + 2:])


# --------------------------------------------------------------------------
# harness schema
# --------------------------------------------------------------------------

def c12_schema():
    t = "".join(d.xml() for d in FLAT_DIMS)
    m = ""
    i = 1
    for d in FLAT_DIMS:
        m += ('<sbe:message name="f_%s" id="%d">\n  <group name="g" id="1" dimensionType="dim_%s">\n'
              '    <field name="x" id="1" type="uint8"/>\n  </group>\n</sbe:message>\n' % (d.key, i, d.key))
        i += 1
    for d in NESTED_DIMS:
        m += ('<sbe:message name="n_%s" id="%d">\n  <group name="g" id="1" dimensionType="dim_%s">\n'
              '    <field name="x" id="1" type="uint8"/>\n'
              '    <group name="inner" id="2" dimensionType="groupSizeEncoding">\n'
              '      <field name="y" id="1" type="uint8"/>\n    </group>\n  </group>\n</sbe:message>\n'
              % (d.key, i, d.key))
        i += 1
    return schema_xml("hs_c12", t, m)


# --------------------------------------------------------------------------
# specification (independent of the model); None = outside the preconditions
# --------------------------------------------------------------------------

def addr_ok(a):
    return I64MIN <= a <= I64MAX


def cmp6(i, j):
    return "".join("1" if x else "0" for x in (i == j, i != j, i < j, i <= j, i > j, i >= j))


def spec_expr(a):
    """a = split case line of c12f; returns dict of expected fields, 'A', or None"""
    chk, s, b = int(a[2]), a[3], a[4]
    H = dim_of(a, 3).H
    goff, ng, bl, elen = int(a[10]), int(a[11]), int(a[12]), int(a[13])
    start, k = a[14], int(a[15])
    ops = [(a[16 + 2 * i], int(a[17 + 2 * i])) for i in range(k)]
    m = int(a[16 + 2 * k])
    data = goff + H
    if ng * bl >= 2 ** 63 or not addr_ok(data + ng * bl) or not addr_ok(data):
        return None
    if chk and not (0 <= elen < 2 ** 64 and H + ng * bl <= elen):
        return None   # view does not cover the group: assertion or not depends on the path
    i = 0 if start == "b" else ng

    def ok(j):
        return 0 <= j <= smax(s) and j * bl < 2 ** 63 and addr_ok(data + j * bl)

    for op, n in ops:
        if op in ("inc", "pinc"):
            j = i + 1
            if chk and data + j * bl > goff + elen:
                return None
        elif op in ("dec", "pdec"):
            j = i - 1
        elif op in ("add", "adde", "radd"):
            if not (dmin(s) <= n <= dmax(s)):
                return None
            j = i + n
        elif op in ("sub", "sube"):
            if not (-dmax(s) <= n <= dmax(s)):
                return None
            j = i - n
        else:
            raise ValueError(op)
        if not ok(j):
            return None
        i = j
    out = {"p": str(data + i * bl), "cb": cmp6(i, 0), "ce": cmp6(i, ng)}
    if dmin(s) <= i <= dmax(s):
        out["db"] = str(i)
    if dmin(s) <= ng - i <= dmax(s):
        out["de"] = str(ng - i)
    if dmin(s) <= m <= dmax(s) and ok(i + m):
        out["s"] = str(data + (i + m) * bl)
    return out


def spec_group(a):
    chk, s, b = int(a[2]), a[3], a[4]
    H = dim_of(a, 3).H
    goff, ng, bl, elen, pos, k = int(a[10]), int(a[11]), int(a[12]), int(a[13]), int(a[14]), int(a[15])
    data = goff + H
    if chk and not (0 <= elen < 2 ** 64):
        return None
    if chk and elen < H:
        # the view does not even cover the header: every accessor must assert
        return {f: "A" for f in ("size", "begin", "end", "sb", "at", "front", "back", "walk")}
    if not addr_ok(data):
        return None
    out = {"size": str(ng), "begin": str(data)}
    pos = pos % 2 ** BITS[s]
    whole = ng * bl < 2 ** 63 and addr_ok(data + ng * bl)
    if whole:
        out["end"] = str(data + ng * bl)
        out["sb"] = str(H + ng * bl)
    if pos < ng:
        if pos * bl < 2 ** 63 and addr_ok(data + pos * bl):
            out["at"] = str(data + pos * bl)
    elif chk:
        out["at"] = "A"
    if ng > 0:
        out["front"] = str(data)
        if whole:
            out["back"] = str(data + (ng - 1) * bl)
    elif chk:
        out["front"] = "A"
        out["back"] = "A"
    if k <= ng and k * bl < 2 ** 63 and addr_ok(data + k * bl):
        if not chk or data + k * bl <= goff + elen:
            out["walk"] = str(data + k * bl)
    return out


def spec_resize(a):
    chk, s, b = int(a[2]), a[3], a[4]
    d = dim_of(a, 3)
    buf = bytes.fromhex(a[9]) if a[9] != "-" else b""
    p, elen, count = int(a[10]), int(a[11]), int(a[12])
    h = d.H
    if p + h > len(buf):
        return None
    if chk and not (0 <= elen < 2 ** 64):
        return None
    if chk and elen < h:
        return {"resize": "A", "size": "-", "clear": "-"}
    ws = wb(s)
    q = p + d.ong                       # only the numInGroup bytes change, wherever they are
    c = count % 2 ** BITS[s]
    b1 = buf[:q] + c.to_bytes(ws, "little") + buf[q + ws:]
    b2 = buf[:q] + (0).to_bytes(ws, "little") + buf[q + ws:]
    return {"resize": b1.hex(), "size": str(c), "clear": b2.hex()}


def spec_nested(a):
    chk, s, b = int(a[1]), a[2], a[3]
    H = dim_of(a, 2).H
    pre, bl, cut, k = int(a[9]), int(a[10]), int(a[11]), int(a[12])
    ents = [(int(a[13 + 2 * i]), int(a[14 + 2 * i])) for i in range(k)]
    if cut != 0:
        return None
    pos = pre + H
    starts = []
    for ibl, icnt in ents:
        starts.append(pos)
        pos += bl + 4 + ibl * icnt
    return {"n": str(k), "starts": ",".join(map(str, starts)) if starts else "-"}


SPEC = {"c12f": spec_expr, "c12g": spec_group, "c12r": spec_resize, "c12n": spec_nested}


def fields(line):
    """'k=v k=v' -> dict;  a bare token (A / UB / F / ERR..) -> {'*': token}"""
    if "=" not in line:
        return {"*": line}
    return dict(x.split("=", 1) for x in line.split())


# --------------------------------------------------------------------------
# case generation
# --------------------------------------------------------------------------
UNARY = ["inc", "pinc", "dec", "pdec"]
BINARY = ["adde", "add", "radd", "sube", "sub"]


def nvals(s, ng):
    d = [0, 1, -1, 2, -2, 3, -3, ng, -ng, ng - 1, 1 - ng, dmax(s), -dmax(s), dmin(s)]
    if BITS[s] < 64:
        d += [dmax(s) + 1, smax(s), -(dmax(s) + 2)]      # not representable in difference_type
    if BITS[s] > 8:
        d += [127, 128, -128, 255]
    if BITS[s] > 16:
        d += [32767, 32768, -32768, 65535]
    out = []
    for x in d:
        if I64MIN <= x <= I64MAX and x not in out:
            out.append(x)
    return out


def alphabet(s, ng):
    al = [(u, 0) for u in UNARY]
    for f in BINARY:
        for n in nvals(s, ng):
            al.append((f, n))
    return al


def expr_line(chk, d, goff, ng, bl, elen, start, ops, m):
    return "c12f cur %d %s %s %d %d %d %d %s %d %s%d" % (
        chk, d.tokens(), d.hdr_bytes(ng, bl).hex(), goff, ng, bl, elen, start, len(ops),
        "".join("%s %d " % o for o in ops), m)


def group_line(chk, d, goff, ng, bl, elen, pos, k):
    return "c12g cur %d %s %s %d %d %d %d %d %d" % (chk, d.tokens(), d.hdr_bytes(ng, bl).hex(), goff, ng, bl, elen, pos, k)


def gen_expr_cases(rng, tier):
    thorough = tier == "thorough"
    lines = []
    for d in FLAT_DIMS:                 # the 16 two-member composites first, then the other shapes
        for s, b in [(d.s, d.b)]:
            for ng in SIZES[s]:
                for bl in BLENS[b]:
                    al = alphabet(s, ng)
                    ms = nvals(s, ng)
                    goff = rng.choice([0, 0, 8, 4096])
                    for start in "be":
                        lines.append(expr_line(0, d, goff, ng, bl, 0, start, [], rng.choice(ms)))
                        # depth 1: every unary operator, every binary form on a rotating
                        # third of the operand values (all of them in the thorough tier)
                        for (op, n) in al:
                            if thorough or op in UNARY or rng.below(3) == 0:
                                lines.append(expr_line(0, d, goff, ng, bl, 0, start, [(op, n)], rng.choice(ms)))
                        # depth 2 and 3: sampled, biased towards expressions that stay in range
                        for depth in (2, 3):
                            for _ in range((40 if thorough else 12)):
                                ops = []
                                i = 0 if start == "b" else ng
                                for _d in range(depth):
                                    if rng.below(4) == 0:
                                        op, n = rng.choice(al)
                                    else:
                                        # pick a target index in [0, ng] and the operator that reaches it
                                        j = rng.choice([0, ng, ng // 2, max(ng - 1, 0), min(1, ng), rng.below(ng + 1)])
                                        form = rng.choice(["add", "adde", "radd", "sub", "sube", "step"])
                                        if form == "step":
                                            op, n = (rng.choice(["inc", "pinc"]), 0) if i < ng else (rng.choice(["dec", "pdec"]), 0)
                                            j = i + 1 if op in ("inc", "pinc") else i - 1
                                        elif form in ("add", "adde", "radd"):
                                            op, n = form, j - i
                                        else:
                                            op, n = form, i - j
                                        i = j
                                    ops.append((op, n))
                                lines.append(expr_line(0, d, goff, ng, bl, 0, start, ops, rng.choice(ms)))
                    if thorough and ng in SIZES[s][:5]:
                        # small scope, exhaustive: every depth-2 expression over a reduced operand
                        # set, every depth-3 expression over a 7-letter alphabet
                        small = [(u, 0) for u in UNARY] + [(f, n) for f in BINARY
                                                           for n in dict.fromkeys([1, -1, 2, ng, -ng, dmin(s)])]
                        tiny = list(dict.fromkeys([("inc", 0), ("dec", 0), ("add", 1), ("sub", 1), ("add", ng),
                                                   ("sube", ng), ("radd", -1)]))
                        for start in "be":
                            for o1 in small:
                                for o2 in small:
                                    lines.append(expr_line(0, d, goff, ng, bl, 0, start, [o1, o2], rng.choice(ms)))
                            for o1 in tiny:
                                for o2 in tiny:
                                    for o3 in tiny:
                                        lines.append(expr_line(0, d, goff, ng, bl, 0, start, [o1, o2, o3],
                                                               rng.choice(ms)))
    return lines


def gen_expr_chk_cases(rng, tier):
    """checks enabled: views that cover the group exactly, generously, or not at all"""
    lines = []
    reps = 6 if tier == "thorough" else 2
    for d in FLAT_DIMS:                 # the 16 two-member composites first, then the other shapes
        for s, b in [(d.s, d.b)]:
            for ng in SIZES[s][:6]:
                for bl in BLENS[b][:4]:
                    h = d.H
                    total = h + ng * bl
                    for elen in (total, total + 17, max(total - 1, 0), h, h - 1):
                        for _ in range(reps):
                            start = rng.choice("be")
                            i = 0 if start == "b" else ng
                            ops = []
                            for _d in range(1 + rng.below(3)):
                                r = rng.below(5)
                                if r == 0 and i < ng:
                                    ops.append((rng.choice(["inc", "pinc"]), 0)); i += 1
                                elif r == 1 and i > 0:
                                    ops.append((rng.choice(["dec", "pdec"]), 0)); i -= 1
                                elif r == 2:
                                    ops.append((rng.choice(["inc", "pinc"]), 0)); i += 1
                                else:
                                    j = rng.below(ng + 1)
                                    if rng.below(2):
                                        ops.append((rng.choice(["add", "adde", "radd"]), j - i))
                                    else:
                                        ops.append((rng.choice(["sub", "sube"]), i - j))
                                    i = j
                            lines.append(expr_line(1, d, rng.choice([0, 64]), ng, bl, elen, start, ops,
                                                   rng.choice([0, 1, -1, ng - i])))
    return lines


def gen_group_cases(rng, tier):
    lines = []
    for d in FLAT_DIMS:                 # the 16 two-member composites first, then the other shapes
        for s, b in [(d.s, d.b)]:
            for ng in SIZES[s]:
                for bl in BLENS[b]:
                    h = d.H
                    total = h + ng * bl
                    poss = [0, 1, ng - 1, ng, ng // 2, 127, 128, 32767, 32768, 2 ** 31, smax(s)]
                    poss = sorted(set(p for p in poss if 0 <= p <= smax(s)))
                    for pos in poss:
                        goff = rng.choice([0, 16, 4096])
                        k = min(ng, rng.choice([0, 1, 2, 3, 130, 300]))
                        lines.append(group_line(0, d, goff, ng, bl, 0, pos, k))
                        for elen in (total, total + 5, h, h - 1, max(total - 1, h)):
                            if elen < 2 ** 63 and (tier == "thorough" or rng.below(2) == 0):
                                k2 = rng.choice([k, k + 1, min(ng + 1, 300)])
                                lines.append(group_line(1, d, goff, ng, bl, elen, pos, k2))
    return lines


def gen_resize_cases(rng, tier):
    lines = []
    n = 40 if tier == "thorough" else 8
    for kind, dims in (("f", FLAT_DIMS), ("n", NESTED_DIMS)):
        for d in dims:
            s, b = d.s, d.b
            h = d.H
            for _ in range(n):
                p = rng.below(5)
                tail = rng.below(6)
                buf = bytes(rng.below(256) for _ in range(p + h + tail))
                count = rng.choice([0, 1, 255, 256, 65535, 65536, smax(s), min(smax(s) + 1, 2 ** 64 - 1),
                                    rng.next() % (smax(s) + 1)])
                for chk in (0, 1):
                    elens = [h + tail] if chk == 0 else [h + tail, h, h - 1]
                    for elen in elens:
                        lines.append("c12r %s %d %s %s %d %d %d" % (kind, chk, d.tokens(), buf.hex(), p, elen, count))
    return lines


def gen_nested_cases(rng, tier):
    lines = []
    n = 60 if tier == "thorough" else 14
    for d in NESTED_DIMS:
        s, b = d.s, d.b
        for _ in range(n):
            k = rng.choice([0, 1, 2, 3, 5, 9])
            bl = rng.choice([0, 1, 2, 7, 40]) if b != "u8" else rng.choice([0, 1, 2, 7, 255])
            pre = rng.below(4)
            ents = []
            for _e in range(k):
                ibl = rng.choice([0, 1, 2, 3, 9])
                icnt = rng.choice([0, 1, 2, 5])
                ents.append((ibl, icnt))
            es = "".join(" %d %d" % e for e in ents)
            hx = d.hdr_bytes(k, bl).hex()
            for chk in (0, 1):
                lines.append("c12n %d %s %s %d %d 0 %d%s" % (chk, d.tokens(), hx, pre, bl, k, es))
            # truncated views (checks enabled only): the walk must assert, never read past the end
            total = d.H + sum(bl + 4 + i * c for i, c in ents) + 3
            for cut in sorted(set([3, 4, 5, rng.below(total) + 3])):
                if cut <= total + pre:
                    lines.append("c12n 1 %s %s %d %d %d %d%s" % (d.tokens(), hx, pre, bl, cut, k, es))
    return lines


# --------------------------------------------------------------------------

def run_parallel(exe, lines, nproc=12):
    """run a line-protocol executable on chunks of [lines] in parallel"""
    if not lines:
        return 0, [], ""
    n = max(1, min(nproc, len(lines) // 2000 + 1))
    size = (len(lines) + n - 1) // n
    chunks = [lines[i:i + size] for i in range(0, len(lines), size)]
    with ThreadPoolExecutor(max_workers=n) as ex:
        rs = list(ex.map(lambda c: run_lines(exe, c), chunks))
    out, rc_all, err_all = [], 0, ""
    for c, (rc, res, err) in zip(chunks, rs):
        if len(res) != len(c):
            rc_all = rc or 1
            err_all += err[-500:]
            res = res + ["CRASH"] * (len(c) - len(res))
        out += res
    return rc_all, out, err_all


def category(line_args, field):
    a = line_args
    i = 2 if a[0] == "c12n" else 3
    shape = "" if a[i + 2] == "std" else a[i + 2] + ":"
    return "%s:%s%s/%s:%s" % (a[0], shape, a[i], a[i + 1], field)


def run(res, replay=None):
    rng = SplitMix64(res.seed)
    res.rule = ("dimension composites: the 16 two-member ones (blockLength, numInGroup) for every type pair + 8 of other "
                "shapes (ext = trailing numGroups uint16 / numVarDataFields uint8 for u8/u16 u16/u16 u32/u32 u16/u8 "
                "[numInGroup/blockLength]; pad = blockLength at offset 0, numInGroup at offset 8 for u8/u32 u64/u16; rev = "
                "numInGroup declared before blockLength for u16/u32 u32/u8); header bytes built from the schema's member "
                "offsets, filler elsewhere; every item below runs for every composite. "
                "flat groups, all 16 (numInGroup, blockLength) type pairs x sizes {0,1,2,3,127,128,255,32767,32768,"
                "65535,2^31-1,2^31,2^32-1,2^32,2^40} x block lengths {0,1,2,255,65535,65536,2^31,2^32-1,2^32,2^40} "
                "(as far as the types allow): iterator expressions begin()/end() followed by up to 3 of "
                "++it it++ --it it-- it+=n it+n n+it it-=n it-n with n in {0,+-1,+-2,+-3,+-size,size-1,"
                "difference_type min/max, values not representable in difference_type}: depth 1 exhaustive over "
                "the operators (operand values sampled in quick, exhaustive in thorough), depth 2-3 sampled (thorough adds, "
                "for the 5 smallest sizes of every pair and every block length, all depth-2 expressions over a "
                "reduced operand set and all depth-3 expressions over a 7-letter alphabet); "
                "observables address of *it, it-begin, end-it, six comparisons with begin and end, address of it[m]; "
                "group accessors size begin end size_bytes operator[] front back and k-fold ++; checks disabled "
                "(pure address arithmetic) and enabled (views covering the group exactly / generously / not); "
                "resize+clear on random buffers (flat and nested bases); nested groups: forward iteration over "
                "encoded entries incl. truncated views. A case is non-trivial when its case line is distinct.")
    ok_proof = proof_step(res)
    model = Model()
    found = False

    inc, rc, out = gen_headers("hs_c12", c12_schema())
    if rc != 0:
        res.violation("harness-schema-rejected", "sbeppc rejects the C12 harness schema: " + out[-500:],
                      {"schema": c12_schema(), "no_failing_input": True})
        return res.finish()

    if replay and replay.get("lines"):
        rl = [upgrade_line(l) for l in replay["lines"]]
        lines0 = [l for l in rl if (l.split()[1 if l.startswith("c12n") else 2] == "0")]
        lines1 = [l for l in rl if l not in lines0]
    else:
        lines0 = gen_expr_cases(rng.fork("expr"), res.tier)
        grp = gen_group_cases(rng.fork("group"), res.tier)
        rsz = gen_resize_cases(rng.fork("resize"), res.tier)
        nst = gen_nested_cases(rng.fork("nested"), res.tier)
        lines1 = gen_expr_chk_cases(rng.fork("exprchk"), res.tier)
        for l in grp + rsz + nst:
            a = l.split()
            chk = a[1] if a[0] == "c12n" else a[2]
            (lines0 if chk == "0" else lines1).append(l)
    all_lines = lines0 + lines1

    # model of the current (repaired) code, and the specification
    _, mod, _ = run_parallel(model.path, all_lines)
    exp = dict(zip(all_lines, mod))
    spec_n = 0
    spec_map = {}
    for l in all_lines:
        a = l.split()
        sp = SPEC[a[0]](a)
        if sp is None:
            continue
        spec_n += 1
        spec_map[l] = sp
        mf = fields(exp[l])
        for f, v in sp.items():
            got = mf.get(f, mf.get("*"))
            if got != v:
                found = True
                res.violation("model-vs-spec:" + category(a, f),
                              "the model disagrees with the specification inside the preconditions: %s: %s expected %s, model %s"
                              % (l, f, v, got), {"lines": [l], "field": f, "expected": v, "observed_model": exp[l]})
    res.extra["cases_with_spec"] = spec_n
    res.extra["cases_total"] = len(all_lines)
    res.extra["model_ub_lines"] = sum(1 for m in mod if "UB" in m)

    configs = [("g++", "c++11", ("-O1",)), ("g++", "c++20", ("-O2",))]
    if res.tier == "thorough":
        configs += [("clang++", s, ("-O1",)) for s in ("c++11", "c++14", "c++17", "c++20")] + \
                   [("g++", s, ("-O1",)) for s in ("c++14", "c++17", "c++23")]
    # (compiler, std, flags, chk, only real-buffer commands?)
    builds = []
    for cxx, std, flags in configs:
        builds.append((cxx, std, flags, 0, False))
        builds.append((cxx, std, flags, 1, False))
    # real-buffer commands (resize, nested walk) additionally under UBSan
    builds.append(("g++", "c++17", ("-O1", "-fsanitize=undefined", "-fno-sanitize-recover=all"), 1, True))
    res.extra["configurations"] = ["%s -std=%s %s chk=%d%s" % (c, s, " ".join(f), k, " (resize/nested only)" if r else "")
                                   for c, s, f, k, r in builds]

    src = os.path.join(VERIF, "cpp/c12_harness.cpp")

    def build(bd):
        cxx, std, flags, chk, _ = bd
        try:
            return cached_cpp("c12_harness_chk%d" % chk, src, std=std, cxx=cxx, flags=flags, includes=(inc,),
                              defines=("SBEPP_ENABLE_ASSERTS_WITH_HANDLER",) if chk else ("SBEPP_DISABLE_ASSERTS",),
                              extra_hash=hash_files(tree_files(inc)))
        except BuildError as e:
            return e

    with ThreadPoolExecutor(max_workers=8) as ex:
        exes = list(ex.map(build, builds))

    legacy_cache = {}

    def legacy_of(l):
        if l not in legacy_cache:
            a = l.split()
            if a[0] in ("c12f", "c12g"):
                a[1] = "prefix"
                legacy_cache[l] = model.run([" ".join(a)])[0]
            else:
                legacy_cache[l] = exp[l]
        return legacy_cache[l]

    nviol = 0
    seen_sig = set()
    for bd, exe in zip(builds, exes):
        cxx, std, flags, chk, real_only = bd
        if isinstance(exe, BuildError):
            res.violation("harness-build:%s:%s:chk%d" % (cxx, std, chk), "C12 harness no longer builds against /repo",
                          {"no_failing_input": True, "correspondence": "c12_harness.cpp", "error": str(exe)[-3000:]})
            continue
        lines = lines1 if chk else lines0
        if real_only:
            lines = [l for l in lines if l.startswith(("c12r", "c12n"))]
        rc, got, err = run_parallel(exe, lines)
        # one failing input per (command, type pair); inputs that satisfy the documented
        # preconditions (field present in the specification) are preferred
        cands = {}
        for l, g in zip(lines, got):
            a = l.split()
            res.count(l)
            mf = fields(exp[l])
            gf = fields(g)
            sp = spec_map.get(l, {})
            bad = None
            if "*" in mf:
                if mf["*"] != "UB" and g != exp[l]:
                    bad = ("*", mf["*"], g)
            else:
                for f, v in mf.items():
                    if v == "UB":
                        continue
                    o = gf.get(f, gf.get("*"))
                    if o != v and (bad is None or (f in sp and bad[0] not in sp)):
                        bad = (f, v, o)
            if bad:
                found = True
                nviol += 1
                sig = "impl:" + category(a, "")[:-1]
                inside = bad[0] in sp or ("*" in mf and bool(sp))
                if sig in seen_sig or (sig in cands and (cands[sig][0] or not inside)):
                    continue
                cands[sig] = (inside, l, g, bad)
        for sig, (inside, l, g, (f, v, o)) in sorted(cands.items()):
            seen_sig.add(sig)
            leg = legacy_of(l)
            lf = fields(leg)
            lv = lf.get(f, lf.get("*"))
            note = (" [inside the documented preconditions]" if inside else " [outside the preconditions of the "
                    "theorems, model-defined]")
            note += ("; the model of the code before fix_c12.diff predicts exactly this value" if lv == o
                     else ("; the pre-fix model has undefined behaviour here" if lv == "UB" else ""))
            res.violation(sig,
                          "%s: %s expected %s, implementation gives %s (%s -std=%s chk=%d)%s"
                          % (l, f, v, o, cxx, std, chk, note),
                          {"lines": [l], "field": f, "expected": v, "observed": o, "expected_line": exp[l],
                           "observed_line": g, "legacy_model_line": leg, "config": [cxx, std, list(flags), chk],
                           "stderr": err[-500:]})
    res.extra["mismatching_case_runs"] = nviol
    for l in (all_lines[7 % len(all_lines)], all_lines[len(all_lines) // 3], all_lines[len(all_lines) // 2],
              all_lines[-1], lines1[0] if lines1 else all_lines[0]):
        res.sample({"case": l, "expected": exp[l]})

    if not ok_proof:
        proof_failure_violation(res, found)
    return res.finish(trusted=[
        "translator harness/srcexprs.py: clang 14's typed AST (-ast-dump=json, -std=c++17, this host's target) of the random_access_iterator operator+= / operator-(rhs) (16 header type pairs), "
        "instantiated in a generated unit, copied node by node into CExpr.v terms (coq/SrcExprs.v, regenerated on every run); "
        "trusted: clang's parse and the types it assigns, the one-to-one node mapping, CExpr.ceval as the meaning of a node",
        "CInt.v models integral promotion / usual arithmetic conversions / signed-overflow UB on LP64 (int=32 bit, "
        "ptrdiff_t=size_t=64 bit)",
        "pointer arithmetic is modelled as flat modular 64-bit address arithmetic (the C++ object-bounds rules for "
        "pointer arithmetic are not modelled); views are never created from a null pointer",
        "correspondence harness cpp/c12_harness.cpp + generated hs_c12 schema (sbeppc from /repo), little-endian only",
        "nested groups: entries of one shape (block + one uint16/uint16 flat group), as generated for the harness schema",
        "dimension composites: size and member offsets are computed by harness/props/c12.py from the schema text it "
        "generates (SBE layout rule: explicit offset, else end of the predecessor); the size is cross-checked against "
        "sbepp::composite_traits<>::size_bytes() by the harness, the member offsets only through the observed values "
        "(a header built with a wrong offset shows up as a size()/blockLength mismatch)",
        "extraction: ExtrOcamlBasic only; ocaml/drv_c12.ml builds the nested wire image with the extracted enc_nested "
        "from the header bytes of the case line, after decoding them with the model's own reader (GI.rd) at the layout's offsets"])
