"""C02 / C03 — decoding returns exactly what a conforming encoder wrote, and
honours the wire blockLength (schema extension).  C03 runs the same machinery
with every block length inflated independently per level."""
from common import *
from msgcheck import *
import c01


def set_choice_ops(s, lv, t, path="."):
    """(getfc op, the getf op of the same field, [(choice name, bit index)]) for every set-typed field in the tree"""
    out = []
    for k, f in enumerate(msgdrv.nonconst_fields(s, lv)):
        td = s.types.get(f.type_name)
        while td is not None and td.kind == "ref":
            td = s.types.get(td.ref)
        if td is not None and td.kind == "set":
            r = s.resolve(f.type_name)
            out.append(("getfc %s %d" % (path, k), "getf %s %d %s" % (path, k, r[1]), [(n, int(i)) for n, i in td.values]))
    for gi, g in enumerate(lv.groups):
        for ei, e in enumerate(t["groups"][gi]):
            sub = ("%d:%d" % (gi, ei)) if path == "." else (path + "/%d:%d" % (gi, ei))
            out += set_choice_ops(s, g, e, sub)
    return out


def run(res, replay=None, inflate=False):
    rng = SplitMix64(res.seed + (3 if inflate else 0))
    res.rule = ("random accepted schemas x images produced by the reference encoder Msg.enc_message (independent of the "
                "library's setters; random block bytes so symmetric offset/byte-order errors show; "
                + ("wire block lengths inflated independently per level; " if inflate else "compiled block lengths; ")
                + "NaN payloads and extremes appear as random bit patterns) at a random offset inside a larger buffer; "
                "every getter / view / group geometry / size is dumped by /repo's generated code and by the model, and "
                "scalar getters are additionally compared with values computed directly from the encoder's block "
                "bytes. Non-trivial = image with at least one group entry or data payload.")
    ok_proof = proof_step(res)
    model = Model()
    found = False
    nschemas = 6 if res.tier == "quick" else 40
    nimgs = 8 if res.tier == "quick" else 30
    cfgs = c01.configs_for(res.tier)
    if inflate:
        # C03 speaks about cursor access and visiting too
        cfgs = [(c[0], c[1], c[2], c[3] + ("MSGDRV_CURSOR",)) for c in cfgs]
    res.extra["configurations"] = ["%s -std=%s" % (c[0], c[1]) for c in cfgs]
    cases = prepare_many(res.seed, nschemas, cfgs)
    # fixed edge schemas: levels without non-constant fields / member-less levels (with a longer wire block for C03),
    # narrow-count dimensions, nested composites with their own offset
    cases.append(prepare_fixed(edge_schema(), cfgs))
    dist = {}
    for ci, mc in enumerate(cases):
        for k, v in mc.stats.items():
            dist[k] = dist.get(k, 0) + v
        if mc.error:
            kind, msg = mc.error
            res.violation(kind, "schema preparation failed: " + msg[-400:],
                          {"schema_xml": mc.xml, "error": msg[-3000:], "no_failing_input": True,
                           "correspondence": "T1 generated driver"})
            continue
        s = mc.s
        trng = rng.fork("img%d" % ci)
        lays = [parse_layout(x) for x in model.run([model_msg_line(s, m) for m in s.messages])]
        mlines, ilines, meta = [], [], []
        for m, lay in zip(s.messages, lays):
            for ti in range(nimgs):
                ext = trng.choice([0, 0, 1, 7, 16]) if inflate else 0
                wbl = lay["cbl"] + ext
                if wbl >= (1 << TBITS[lay["bl"][1]]):
                    wbl = lay["cbl"]
                v = gen_vlevel(trng, lay["level"], wbl, inflate, 0, (0, 1, 1, 2, 3))
                plant_specials(trng, s, m, lay["level"], v)
                hdrbg = bytes(trng.below(256) for _ in range(lay["hdr"]))
                pre = bytes(trng.below(256) for _ in range(trng.choice([0, 0, 3, 16])))
                post = bytes(trng.below(256) for _ in range(trng.choice([0, 0, 1, 9])))
                meta.append((m, lay, v, hdrbg, pre, post))
        # pass 1: images from the reference encoder
        enc_lines = []
        for (m, lay, v, hdrbg, pre, post) in meta:
            enc_lines += [model_msg_line(s, m), "encv %s %s" % (hx(hdrbg), " ".join(vtree_tokens(v)))]
        eout = model.run(enc_lines)
        jobs = []
        for i, (m, lay, v, hdrbg, pre, post) in enumerate(meta):
            img = bytes.fromhex(eout[2 * i + 1]) if eout[2 * i + 1] != "-" else b""
            if len(img) > 6000:
                continue
            buf = pre + img + post
            script = ["base %d" % len(pre), "size"] + (["ctrav"] if inflate else []) + decode_script(s, m, vtree_as_tree(v))
            if inflate:
                # cursor access member by member: each member of each level view is first peeked at
                # (cursor_ops::dont_move) and then read, in schema order from an initialised cursor -- the peek at the
                # FIRST group / data of a level has to locate it from the wire blockLength on its own
                import c04
                for (path, lv, val) in c04.level_views(s, m, v)[:10]:
                    seq = []
                    for (name, prim) in c04.member_ops(s, lv):
                        sfx = (":" + prim) if prim else ""
                        seq += [name + "m" + sfx, name + "p" + sfx]
                    if seq:
                        script.append("cur %s init %s" % (path, " ".join(seq)))
                    # ... and without reading any field first
                    tail = [x for x in seq if not x.startswith("f")]
                    if tail and len(tail) != len(seq):
                        script.append("cur %s init %s" % (path, " ".join(tail)))
            # choice getters of set fields (name-based visit): every declared choice with its own bit of the raw value
            choice_exp = {}
            for (cop, gop, choices) in set_choice_ops(s, m, vtree_as_tree(v)):
                if gop in script:
                    script.append(cop)
                    choice_exp[cop] = (script.index(gop), choices)
            expect = {}
            expected_field_values(s, m, lay["level"], v, ".", s.big_endian, expect)
            expect["size"] = str(len(img))
            jobs.append((m, v, buf, script, expect, len(mlines), len(ilines)))
            mlines += [model_msg_line(s, m), "buf " + hx(buf)] + [x if not x.startswith("getfc") else "size" for x in script]
            ilines += ["use " + m.name, "buf " + hx(buf)] + script
            jobs[-1] = jobs[-1] + (choice_exp,)
        mout = model.run(mlines)
        for (cxx, std), exe in mc.exes.items():
            rc, iout, err = run_impl(exe, ilines)
            if rc != 0 or len(iout) != len(ilines):
                found = True
                res.violation("driver-crash", "generated driver crashed (%s %s): %s" % (cxx, std, err[-300:]),
                              {"schema_xml": mc.xml, "stderr": err[-2000:]})
                continue
            for (m, v, buf, script, expect, mo, io, choice_exp) in jobs:
                nontriv = any(g["entries"] for g in v["groups"]) or any(v["data"])
                res.count((s.package, m.name, hx(buf)[:48], len(buf), cxx, std), nontriv)
                for j, op in enumerate(script):
                    a = mout[mo + 2 + j]
                    b2 = iout[io + 2 + j]
                    if op == "ctrav":
                        b2 = b2.partition(" | ")[0]
                    e = expect.get(op)
                    bad = None
                    if op in choice_exp:
                        gi_, choices = choice_exp[op]
                        raw = int(mout[mo + 2 + gi_]) & ((1 << 64) - 1)
                        e = ",".join("%s:%d" % (n, (raw >> i) & 1) for n, i in choices)
                        a = e
                    if e is not None and a != e:
                        bad = ("model-vs-encoder", "model getter `%s` = %s but the encoder placed %s" % (op, a, e))
                    elif e is not None and b2 != e:
                        bad = ("impl-vs-encoder", "`%s` returned %s, the encoded value is %s (%s -std=%s)" % (op, b2, e, cxx, std))
                    elif a != b2:
                        bad = ("impl-vs-model", "`%s`: implementation %s, model %s (%s -std=%s)" % (op, b2, a, cxx, std))
                    if bad:
                        found = True
                        res.violation("%s:%s:%s" % (bad[0], op.split()[0], "be" if s.big_endian else "le"), bad[1],
                                      {"schema_xml": mc.xml, "message": m.name, "buffer": hx(buf), "script": script,
                                       "op": op, "model": a, "observed": b2, "expected": e, "config": [cxx, std]})
                        break
        if jobs:
            m, v, buf, script = jobs[0][:4]
            res.sample({"schema": s.package, "message": m.name, "byte_order": "big" if s.big_endian else "little",
                        "buffer_bytes": len(buf), "script": script[:10]})
    res.extra["input_distribution"] = dist
    res.extra["schemas"] = len(cases)
    if not ok_proof:
        proof_failure_violation(res, found)
    return res.finish(trusted=[
        "translator harness/srcexprs.py: clang 14's typed AST (-ast-dump=json, -std=c++17, this host's target) of the byteswap(uint16/32/64) overloads (the builtin is given the meaning Bytes.byteswap), "
        "instantiated in a generated unit, copied node by node into CExpr.v terms (coq/SrcExprs.v, regenerated on every run); "
        "trusted: clang's parse and the types it assigns, the one-to-one node mapping, CExpr.ceval as the meaning of a node",
        "Msg.v/Layout.v hand-written model of sbepp.hpp navigation and sbeppc layout, tied by differential runs",
        "harness/msggen.py, harness/msgdrv.py, cpp/msg_harness.hpp; extraction: ExtrOcamlBasic only"])
