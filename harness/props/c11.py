"""C11 — read-only views cannot mutate the buffer.

(a) compile time: for a hand-made schema covering every member kind and for
    random msggen schemas, a GENERATED C++11 translation unit evaluates a
    detection idiom for every (view class, accessor / library operation, byte
    type in {char, const char}, cursor byte type in {char, const char}) and every
    view / cursor conversion, prints the boolean table and the byte type of what
    each call returns; the table is compared line by line with the extracted
    capability model (coq/Constness.v).  Calls the model says are declared but
    do not compile are checked by negative compilation, calls it says compile are
    instantiated.
(b) run time: every non-mutating operation of every view of an encoded message
    is executed on a PROT_READ mapping and on a checksummed copy; any fault,
    assertion or checksum change is a violation.  Every mutator is executed on
    the PROT_READ mapping through a mutable view and must be stopped by the page
    protection (this ties the model's reader / mutator classification to the
    code)."""
import concurrent.futures
import os
import re
from common import *
import msggen
from msggen import TypeDef, Field, Group, Data, Message, Schema, PSIZE

ASSERT_DEF = ("SBEPP_ENABLE_ASSERTS_WITH_HANDLER",)
COMBOS = [("m", "m"), ("m", "c"), ("c", "m"), ("c", "c")]
CPPB = {"m": "char", "c": "const char"}


# ----------------------------------------------------------------------
# the hand-made schema: every member kind, in every position
# ----------------------------------------------------------------------

def hand_schema():
    s = Schema("hc11", big_endian=False, sid=7, version=2)
    T = lambda n, p, **kw: TypeDef(n, "type", prim=p, **kw)
    s.add(TypeDef("messageHeader", "composite", members=[
        T("blockLength", "uint16"), T("templateId", "uint16"), T("schemaId", "uint16"), T("version", "uint16"),
        T("numGroups", "uint16"), T("numVarDataFields", "uint16")]))
    s.add(TypeDef("groupSizeEncoding", "composite", members=[T("blockLength", "uint16"), T("numInGroup", "uint16")]))
    s.add(TypeDef("dimBig", "composite", members=[
        T("blockLength", "uint16"), T("numInGroup", "uint8"), T("numGroups", "uint8"),
        T("numVarDataFields", "uint8")]))
    s.add(TypeDef("varDataEncoding", "composite", members=[T("length", "uint32"), T("varData", "uint8", length=0)]))
    s.add(TypeDef("varStr", "composite", members=[T("length", "uint8"), T("varData", "char", length=0)]))
    s.add(T("u32", "uint32"))
    s.add(T("optI16", "int16", presence="optional"))
    s.add(T("str8", "char", length=8))
    s.add(T("bytes4", "uint8", length=4))
    s.add(T("K", "uint16", presence="constant", const_value="7"))
    s.add(TypeDef("En", "enum", prim="uint8", values=[("A", "1"), ("B", "2")]))
    s.add(TypeDef("EnC", "enum", prim="char", values=[("X", "X"), ("Y", "Y")]))
    s.add(TypeDef("St", "set", prim="uint16", values=[("c0", "0"), ("c5", "5")]))
    s.add(TypeDef("St64", "set", prim="uint64", values=[("lo", "0"), ("hi", "63")]))
    s.add(TypeDef("Inner", "composite", members=[T("x", "uint16"), T("y", "int8")]))
    s.add(TypeDef("Comp", "composite", members=[
        T("a", "uint32"), TypeDef("e", "ref", ref="En"), TypeDef("s", "ref", ref="St"),
        T("arr", "char", length=4), TypeDef("in", "ref", ref="Inner"),
        T("kc", "uint8", presence="constant", const_value="3"),
        TypeDef("ie", "enum", prim="uint8", values=[("P", "1"), ("Q", "2")]),
        TypeDef("is", "set", prim="uint8", values=[("b0", "0"), ("b7", "7")]),
        TypeDef("nest", "composite", members=[T("p", "uint8"), T("q", "uint16")]),
        TypeDef("rs", "ref", ref="str8"), TypeDef("ro", "ref", ref="optI16"), TypeDef("rk", "ref", ref="K")]))

    def msg(name, mid, fields, groups=(), data=()):
        m = Message(name, mid)
        m.fields = [Field(n, i + 1, t, presence=p) for i, (n, t, p) in enumerate(fields)]
        m.groups = list(groups)
        m.data = [Data(n, 200 + i, t) for i, (n, t) in enumerate(data)]
        s.messages.append(m)
        return m

    def grp(name, gid, dim, fields, groups=(), data=()):
        g = Group(name, gid, dim)
        g.fields = [Field(n, i + 1, t, presence=p) for i, (n, t, p) in enumerate(fields)]
        g.groups = list(groups)
        g.data = [Data(n, 300 + i, t) for i, (n, t) in enumerate(data)]
        return g

    msg("Msg", 1,
        [("f_u32", "u32", None), ("f_opt", "optI16", None), ("f_prim", "uint64", None), ("f_popt", "int32", "optional"),
         ("f_enum", "En", None), ("f_set", "St", None), ("f_str", "str8", None), ("f_comp", "Comp", None),
         ("f_const", "K", None), ("f_last", "uint8", None)],
        groups=[
            grp("flat", 20, "groupSizeEncoding", [("g_a", "uint32", None), ("g_arr", "bytes4", None)]),
            grp("nested", 30, "groupSizeEncoding", [("n_a", "uint16", None), ("n_comp", "Inner", None)],
                groups=[grp("inner", 33, "groupSizeEncoding", [("i_e", "En", None)])],
                data=[("n_data", "varStr")]),
            grp("nofields", 40, "groupSizeEncoding", [])],
        data=[("d1", "varDataEncoding"), ("d2", "varStr")])
    msg("MsgE", 2, [("a", "uint8", None), ("e_last", "En", None)],
        groups=[grp("gs", 20, "dimBig", [("x", "char", None), ("s_last", "St", None)])])
    msg("MsgS", 3, [("a", "EnC", None), ("s_last", "St64", None)],
        groups=[grp("gc", 20, "groupSizeEncoding", [("x", "double", None), ("c_last", "Comp", None)])])
    msg("MsgA", 4, [("a", "float", None), ("arr_last", "str8", None)],
        groups=[grp("ga", 20, "groupSizeEncoding", [("e", "En", None), ("arr_last", "bytes4", None)]),
                grp("gd", 21, "dimBig", [], data=[("only", "varDataEncoding")])])
    msg("MsgC", 5, [("s", "St", None), ("c_last", "Inner", None)], data=[("d_first", "varStr")])
    msg("MsgO", 6, [("only", "optI16", None)])
    msg("MsgG", 7, [],
        groups=[grp("ge", 20, "dimBig", [("only_e", "EnC", None)]),
                grp("go", 21, "groupSizeEncoding", [("k", "K", None), ("only_o", "int64", "optional")],
                    groups=[grp("deep", 22, "dimBig", [("z", "uint8", None)], data=[("dd", "varStr")])])])
    return s


# ----------------------------------------------------------------------
# member tree of a schema -> view nodes, probes, generated C++
# ----------------------------------------------------------------------

class Node:
    def __init__(self, idx, kind, label, alias):
        self.idx, self.kind, self.label, self.alias = idx, kind, label, alias
        self.members = []      # Member list (message / entry / composite)
        self.entry = None      # groups: entry Node
        self.length = None     # static arrays: N
        self.tpl = None        # public template name usable with make_view
        self.elem = None       # arrays: value_type spelling

    @property
    def t(self):
        return "T_%d" % self.idx


class Member:
    def __init__(self, name, kind, child=None, last=False):
        self.name, self.kind, self.child, self.last = name, kind, child, last


VKINDS = ("scalar", "enum", "set")
RKINDS = ("array", "composite", "group", "data")
VCLASS = {"message": "message", "flat_group": "flat_group", "nested_group": "nested_group", "entry": "entry",
          "composite": "composite", "sarray": "static_array", "darray": "dyn_array"}
CFORMS = [("plain", "%s"), ("init", "sbepp::cursor_ops::init(%s)"), ("dontmove", "sbepp::cursor_ops::dont_move(%s)"),
          ("initdontmove", "sbepp::cursor_ops::init_dont_move(%s)"), ("skip", "sbepp::cursor_ops::skip(%s)")]


class Probe:
    """one probed expression of one node.  `expr` uses @V (the view), @C (the
    cursor lvalue) and @B (the node's byte type, MakeView only)"""

    def __init__(self, pid, node, op, label, expr, pos=None, needs=None):
        self.id, self.node, self.op, self.label, self.expr = pid, node, op, label, expr
        self.pos = pos        # run time: member whose cursor position is needed first ("@group" = init_cursor)
        self.needs = needs    # run-time precondition: None | "nonempty"


class Tree:
    def __init__(self, s, cforms_all=True):
        self.s = s
        self.pkg = s.package
        self.nodes = []
        self.bykey = {}
        self.probes = []
        self.convs = []       # (id, node)
        self.dets = {}        # expression text -> detector name
        self.messages = []    # (Message, Node)
        self.cforms_all = cforms_all
        for m in s.messages:
            n = self.node(("message", m.name), "message", m.name, "%s::messages::%s<B>" % (self.pkg, m.name))
            n.tpl = "%s::messages::%s" % (self.pkg, m.name)
            self.messages.append((m, n))
            self.level(n, m, m.name)
        for n in self.nodes:
            self.node_probes(n)

    # ---- nodes ----
    def node(self, key, kind, label, alias):
        if key in self.bykey:
            return self.bykey[key]
        n = Node(len(self.nodes), kind, label, alias)
        self.nodes.append(n)
        self.bykey[key] = n
        n.fresh = True
        return n

    def getter(self, parent, name):
        return "decltype(std::declval<%s<B>&>().%s())" % (parent.t, name)

    def classify_type(self, t, presence=None):
        """TypeDef (or primitive name) -> member kind"""
        if presence == "constant":
            return "constant"
        if isinstance(t, str):
            return "scalar"
        if t.kind == "type":
            if t.presence == "constant":
                return "constant"
            return "scalar" if t.length == 1 else "array"
        return t.kind   # enum | set | composite

    def value_member(self, parent, name, t, key, presence=None):
        """build the Member for type t (TypeDef or primitive name) accessed as parent.name()"""
        kind = self.classify_type(t, presence)
        child = None
        if kind == "array":
            child = self.node(key, "sarray", "%s.%s" % (parent.label, name), self.getter(parent, name))
            child.length = t.length
            child.elem_is_char = (t.prim == "char")
        elif kind == "composite":
            child = self.node(key, "composite", "%s.%s" % (parent.label, name), self.getter(parent, name))
            if getattr(child, "fresh", False):
                child.fresh = False
                if key[0] == "composite" and key[1] == t.name and t.name in self.s.types:
                    child.tpl = "%s::types::%s" % (self.pkg, t.name)
                self.composite(child, t, key)
        return Member(name, kind, child)

    def composite(self, node, t, key):
        for m in t.members:
            if m.kind == "ref":
                tgt = self.s.types[m.ref]
                k = (("composite" if tgt.kind == "composite" else "sarray"), tgt.name)
                node.members.append(self.value_member(node, m.name, tgt, k))
            else:
                k = (("composite" if m.kind == "composite" else "sarray"), key[1] + "." + m.name)
                node.members.append(self.value_member(node, m.name, m, k))

    def level(self, node, lv, path):
        s = self.s
        last_nc = None
        for f in lv.fields:
            if f.type_name in PSIZE:
                t = f.type_name
            else:
                t = s.types[f.type_name]
            k = None
            if not isinstance(t, str):
                k = (("composite" if t.kind == "composite" else "sarray"), t.name)
            mem = self.value_member(node, f.name, t, k, f.presence)
            node.members.append(mem)
            if mem.kind != "constant":
                last_nc = mem
        if last_nc is not None:
            last_nc.last = True
        for g in lv.groups:
            flat = not g.groups and not g.data
            gp = "%s.%s" % (path, g.name)
            gn = self.node(("group", gp), "flat_group" if flat else "nested_group", gp, self.getter(node, g.name))
            en = self.node(("entry", gp), "entry", gp + "[]", "typename %s<B>::value_type" % gn.t)
            gn.entry = en
            gn.dim = s.types[g.dim]
            node.members.append(Member(g.name, "group", gn))
            self.level(en, g, gp + "[]")
        for d in lv.data:
            dn = self.node(("darray", d.type_name), "darray", "%s.%s" % (path, d.name), self.getter(node, d.name))
            vd = [x for x in s.types[d.type_name].members if x.name == "varData"][0]
            dn.elem_is_char = ((vd.prim if vd.kind != "ref" else s.types[vd.ref].prim) == "char")
            node.members.append(Member(d.name, "data", dn))

    # ---- probes ----
    def probe(self, node, op, label, expr, pos=None, needs=None):
        p = Probe(len(self.probes), node, op, "%s %s" % (node.label, label), expr, pos, needs)
        self.probes.append(p)
        return p

    def member_probes(self, n, m):
        nm = m.name
        V = "@V"
        tag = "typename sbepp::traits_tag_t<@T>::%s" % nm
        x = "c11::val<decltype(@V.%s())>()" % nm
        lab = "%s%s" % (nm, " (last)" if m.last else "")
        k = m.kind
        self.probe(n, "Get:%s:direct" % k, lab + " get", "@V.%s()" % nm)
        self.probe(n, "Get:%s:bytag" % k, lab + " get_by_tag", "sbepp::get_by_tag<%s>(@V)" % tag)
        if k in VKINDS:
            self.probe(n, "Set:%s:direct" % k, lab + " set", "@V.%s(%s)" % (nm, x))
            self.probe(n, "Set:%s:bytag" % k, lab + " set_by_tag", "sbepp::set_by_tag<%s>(@V, %s)" % (tag, x))
            self.probe(n, "Set:%s:viaget" % k, lab + " get_by_tag(v, x)", "sbepp::get_by_tag<%s>(@V, %s)" % (tag, x))
            self.probe(n, "SetExplicit:%s" % k, lab + " set<void,void>", "@V.template %s<void, void>(%s)" % (nm, x))
        if n.kind == "composite" or k == "constant":
            return
        forms = CFORMS if self.cforms_all else [CFORMS[0], CFORMS[1 + (len(self.probes) % 4)]]
        for fn, fx in forms:
            c = fx % "@C"
            pos = None if fn in ("init", "initdontmove") else nm
            self.probe(n, "CurGet:%s:direct:%s" % (k, fn), lab + " get(c:%s)" % fn, "@V.%s(%s)" % (nm, c), pos)
            self.probe(n, "CurGet:%s:bytag:%s" % (k, fn), lab + " get_by_tag(c:%s)" % fn,
                       "sbepp::get_by_tag<%s>(@V, %s)" % (tag, c), pos)
            if k in VKINDS:
                self.probe(n, "CurSet:%s:direct:%s" % (k, fn), lab + " set(x, c:%s)" % fn,
                           "@V.%s(%s, %s)" % (nm, x, c), pos)
                self.probe(n, "CurSet:%s:bytag:%s" % (k, fn), lab + " set_by_tag(x, c:%s)" % fn,
                           "sbepp::set_by_tag<%s>(@V, %s, %s)" % (tag, x, c), pos)

    def node_probes(self, n):
        P = lambda op, label, expr, pos=None, needs=None: self.probe(n, op, label, expr, pos, needs)
        self.convs.append((len(self.convs), n))
        P("Addressof", "addressof", "sbepp::addressof(@V)")
        P("SizeBytes", "size_bytes", "sbepp::size_bytes(@V)")
        vis = "c11::val<c11::visitor&(*)()>()()"
        if n.kind in ("message", "entry", "composite"):
            for m in n.members:
                self.member_probes(n, m)
        if n.kind in ("message", "flat_group", "nested_group"):
            P("GetHeader", "get_header", "sbepp::get_header(@V)")
            P("SizeBytesChecked", "size_bytes_checked", "sbepp::size_bytes_checked(@V, std::size_t(1) << 20)")
        if n.kind in ("message", "flat_group", "nested_group", "entry"):
            P("InitCursor", "init_cursor", "sbepp::init_cursor(@V)")
            P("InitConstCursor", "init_const_cursor", "sbepp::init_const_cursor(@V)")
            hg = "group" if n.kind in ("flat_group", "nested_group") else "level"
            P("VisitCursor:" + hg, "visit(v, c, visitor)", "sbepp::visit(@V, @C, c11_vis())", "@init")
            P("VisitChildrenCursor:" + hg, "visit_children(v, c, visitor)",
              "sbepp::visit_children(@V, @C, c11_vis())", "@init")
        if n.kind in ("message", "flat_group", "nested_group", "entry", "composite"):
            P("Visit", "visit(v, visitor)", "sbepp::visit(@V, c11_vis())")
            P("VisitChildren", "visit_children(v, visitor)", "sbepp::visit_children(@V, c11_vis())")
        if n.tpl:
            P("MakeView", "make_view", "sbepp::make_view<%s>(c11::val<@B*>(), std::size_t(1))" % n.tpl)
            P("MakeConstView", "make_const_view", "sbepp::make_const_view<%s>(c11::val<@B*>(), std::size_t(1))" % n.tpl)
        if n.kind == "message":
            P("FillMessageHeader", "fill_message_header", "sbepp::fill_message_header(@V)")
            P("SizeBytesCursor", "size_bytes(v, c)", "sbepp::size_bytes(@V, @C)", "@init")
        if n.kind in ("flat_group", "nested_group"):
            P("FillGroupHeader", "fill_group_header", "sbepp::fill_group_header(@V, 1)")
            P("GroupResize", "resize", "@V.resize(1)")
            P("GroupClear", "clear", "@V.clear()")
            for r, e, needs in [("size", "@V.size()", None), ("sbe_size", "@V.sbe_size()", None),
                                ("empty", "@V.empty()", None), ("max_size", "@V.max_size()", None),
                                ("begin", "@V.begin()", None), ("end", "@V.end()", None),
                                ("deref_begin", "*@V.begin()", "nonempty"), ("front", "@V.front()", "nonempty")]:
                P("GroupRead:" + r, r, e, None, needs)
            if n.kind == "flat_group":
                P("GroupRead:index", "operator[]", "@V[0]", None, "nonempty")
                P("GroupRead:back", "back", "@V.back()", None, "nonempty")
            for r, e in [("range", "@V.cursor_range(@C)"), ("subrange1", "@V.cursor_subrange(@C, 0)"),
                         ("subrange2", "@V.cursor_subrange(@C, 0, 1)"), ("begin", "@V.cursor_begin(@C)"),
                         ("end", "@V.cursor_end(@C)")]:
                P("GroupCursor:" + r, "cursor_" + r, e, "@init", "nonempty")
            P("GroupCursorDeref", "*cursor_begin(c)", "*@V.cursor_begin(@C)", "@init", "nonempty")
        if n.kind in ("sarray", "darray"):
            fam = "SArrRead:" if n.kind == "sarray" else "DArrRead:"
            ne = "nonempty"
            rd = [("index", "@V[0]", ne), ("front", "@V.front()", ne), ("back", "@V.back()", ne),
                  ("data", "@V.data()", None), ("begin", "@V.begin()", None), ("end", "@V.end()", None),
                  ("rbegin", "@V.rbegin()", None), ("rend", "@V.rend()", None), ("size", "@V.size()", None),
                  ("empty", "@V.empty()", None), ("max_size", "@V.max_size()", None), ("raw", "@V.raw()", None)]
            for r, e, needs in rd:
                P(fam + r, r, e, None, needs)
            if n.kind == "sarray":
                P("SArrStrlen", "strlen", "@V.strlen()", None, "chars")
                P("SArrStrlenR", "strlen_r", "@V.strlen_r()", None, "chars")
            else:
                P("DArrSbeSize", "sbe_size", "@V.sbe_size()")
            E = "c11::val<typename @T::value_type>()"
            S, SE = "c11::src<typename @T::value_type>()", "c11::src_end<typename @T::value_type>()"
            A1, IL = "c11::arr1<typename @T::value_type>()", "c11::il<typename @T::value_type>()"
            if n.kind == "sarray":
                mu = [("assign_string", "@V.assign_string(c11::cstr())"),
                      ("assign_string_range", "@V.assign_string(c11::str())"),
                      ("assign_range", "@V.assign_range(%s)" % A1), ("fill", "@V.fill(%s)" % E),
                      ("assign_count", "@V.assign(std::size_t(1), %s)" % E),
                      ("assign_iter", "@V.assign(%s, %s)" % (S, SE)), ("assign_ilist", "@V.assign(%s)" % IL)]
                fam2 = "SArrMut:"
            else:
                mu = [("clear", "@V.clear()"), ("resize", "@V.resize(1)"), ("resize_value", "@V.resize(1, %s)" % E),
                      ("resize_default_init", "@V.resize(1, sbepp::default_init)"),
                      ("push_back", "@V.push_back(%s)" % E), ("pop_back", "@V.pop_back()"),
                      ("erase", "@V.erase(@V.begin())"), ("erase_range", "@V.erase(@V.begin(), @V.begin())"),
                      ("insert", "@V.insert(@V.begin(), %s)" % E), ("insert_count", "@V.insert(@V.begin(), 1, %s)" % E),
                      ("insert_iter", "@V.insert(@V.begin(), %s, %s)" % (S, SE)),
                      ("insert_ilist", "@V.insert(@V.begin(), %s)" % IL),
                      ("assign_count", "@V.assign(1, %s)" % E), ("assign_iter", "@V.assign(%s, %s)" % (S, SE)),
                      ("assign_ilist", "@V.assign(%s)" % IL), ("assign_string", "@V.assign_string(c11::cstr())"),
                      ("assign_range", "@V.assign_range(%s)" % A1)]
                fam2 = "DArrMut:"
            for r, e in mu:
                P(fam2 + r, r, e, None, ne)
            cls = "static" if n.kind == "sarray" else "dynamic"
            for w, e in [("index", "@V[0] = %s" % E), ("front", "@V.front() = %s" % E), ("back", "@V.back() = %s" % E),
                         ("data", "*@V.data() = %s" % E), ("begin", "*@V.begin() = %s" % E),
                         ("rbegin", "*@V.rbegin() = %s" % E), ("raw_index", "@V.raw()[0] = char()")]:
                P("ElemWrite:%s:%s" % (cls, w), "elem write via " + w, e, None, ne)

    # ---- C++ text ----
    def det_expr(self, p):
        return (p.expr.replace("@V", "std::declval<V&>()").replace("@C", "std::declval<C&>()")
                .replace("@T", "V").replace("@B", "V").replace("c11_vis()", "std::declval<c11::visitor&>()"))

    def run_expr(self, p):
        return (p.expr.replace("@V", "v").replace("@C", "c").replace("@T", "V")
                .replace("c11_vis()", "vis"))

    def det_name(self, p):
        e = self.det_expr(p)
        if e not in self.dets:
            self.dets[e] = "D_%d" % len(self.dets)
        return self.dets[e]

    def gen_common(self):
        out = ["// GENERATED by harness/props/c11.py -- do not edit", "#include <%s/%s.hpp>" % (self.pkg, self.pkg)]
        for n in self.nodes:
            out.append("template<typename B> using %s = %s; // %s %s" % (n.t, n.alias, n.kind, n.label))
        return out

    def gen_table(self):
        out = ["#if defined(C11_TABLE)"]
        rows = []
        for p in self.probes:
            d = self.det_name(p)
            node = "c11::ident" if p.op in ("MakeView", "MakeConstView") else p.node.t
            rows.append("C11_ROW(%d, %s, %s)" % (p.id, d, node))
        for e, d in self.dets.items():
            out.append("C11_DET(%s, %s)" % (d, e))
        out.append("static const c11::row c11_rows[] = {")
        out += rows
        out.append("};")
        out.append("template<typename B> using T_cursor = sbepp::cursor<B>;")
        out.append("static const c11::conv_row c11_convs[] = {")
        for cid, n in self.convs:
            out.append("C11_CONV(%d, %s)" % (cid, n.t))
        out.append("C11_CONV(%d, T_cursor)" % len(self.convs))
        out.append("};")
        out.append("#endif")
        return out




# ----------------------------------------------------------------------
# run-time half: generated build / readers / mutators code
# ----------------------------------------------------------------------

def callable_mask(mrows, op):
    """4-bit mask over COMBOS of (byte, cursor) for which the model says the call compiles"""
    m = 0
    for i, (b, c) in enumerate(COMBOS):
        if mrows[(op, b, c)]["call"] == "1":
            m |= 1 << i
    return m


def runnable(p):
    n = p.node
    if p.op in ("MakeView", "MakeConstView"):
        return False
    if p.needs == "chars":
        return bool(n.elem_is_char)
    if p.needs == "nonempty" and n.kind == "sarray" and n.length == 0:
        return False
    return True


def position_code(p):
    """statements that declare cursor `c` of type C in the place the probed call needs"""
    if p.pos is None:
        return "C c; (void)c;"
    if p.pos == "@init":
        # first child of v: cursor<B> from init_cursor converts to cursor<CB> whenever the call exists
        return "C c(sbepp::init_cursor(v));"
    return "C c; (void)v.%s(sbepp::cursor_ops::init_dont_move(c));" % p.pos


def gen_runtime(tr, mrows):
    """C11_RUNTIME part of the generated include; also returns the reader and
    mutator probe ids it executes"""
    out = ["#if defined(C11_RUNTIME)", "static std::vector<std::pair<int, int> > c11_mut_results;"]
    by_node = {}
    for p in tr.probes:
        by_node.setdefault(p.node.idx, []).append(p)
    for n in tr.nodes:
        out.append("template<typename B, typename CB> void run_%d(%s<B> v, c11::ctx& x);" % (n.idx, n.t))
        out.append("void mut_%d(%s<char> v);" % (n.idx, n.t))
    readers, mutators = [], []
    for n in tr.nodes:
        body = ["template<typename B, typename CB> void run_%d(%s<B> v, c11::ctx& x)\n{" % (n.idx, n.t),
                "  typedef %s<B> V; typedef sbepp::cursor<CB> C; (void)x;" % n.t]
        mbody = ["void mut_%d(%s<char> v)\n{" % (n.idx, n.t),
                 "  typedef %s<char> V; typedef sbepp::cursor<char> C;" % n.t]
        dyn = n.kind in ("darray", "flat_group", "nested_group")
        for p in by_node.get(n.idx, []):
            if not runnable(p):
                continue
            mask = callable_mask(mrows, p.op)
            if mask == 0:
                continue
            e = tr.run_expr(p)
            cond = "if(!v.empty()) " if (p.needs == "nonempty" and dyn) else ""
            if mrows[(p.op, "m", "m")]["mut"] == "0":
                readers.append(p.id)
                out.append("template<typename V, typename C> void R_%d(V& v, c11::ctx& x, std::true_type)\n"
                           "{ %s c11::visitor vis; (void)vis; C11_RUN(%d) (void)(%s); }"
                           % (p.id, position_code(p), p.id, e))
                out.append("template<typename V, typename C> void R_%d(V&, c11::ctx&, std::false_type) {}" % p.id)
                body.append("  %sR_%d<V, C>(v, x, c11::in_mask<B, CB, %du>());" % (cond, p.id, mask))
            elif mask & 1:
                mutators.append(p.id)
                mbody.append("  %s{ %s c11::visitor vis; (void)vis; const int st = hu::guarded([&]{ (void)(%s); }); "
                             "c11_mut_results.push_back(std::make_pair(%d, st)); }"
                             % (cond, position_code(p), e, p.id))
        if n.kind in ("message", "entry", "composite"):
            for m in n.members:
                if m.child is not None:
                    body.append("  run_%d<B, CB>(v.%s(), x);" % (m.child.idx, m.name))
                    mbody.append("  mut_%d(v.%s());" % (m.child.idx, m.name))
        if n.kind in ("flat_group", "nested_group"):
            body.append("  for(const auto e : v) run_%d<B, CB>(e, x);" % n.entry.idx)
            mbody.append("  for(const auto e : v) mut_%d(e);" % n.entry.idx)
        out += body + ["}"] + mbody + ["}"]
    cnt = [0]

    def build_level(lv, var, ind):
        o = []
        for g in lv.groups:
            cnt[0] += 1
            gv, ev = "g%d" % cnt[0], "e%d" % cnt[0]
            o.append("%s{ auto %s = %s.%s(); sbepp::fill_group_header(%s, 2);" % (ind, gv, var, g.name, gv))
            o.append("%s  for(const auto %s : %s) {" % (ind, ev, gv))
            o += build_level(g, ev, ind + "    ")
            o.append("%s  } }" % ind)
        for d in lv.data:
            o.append("%s{ auto d = %s.%s(); d.resize(3); d[0] = 'x'; d[2] = 'z'; }" % (ind, var, d.name))
        return o

    for mi, (m, n) in enumerate(tr.messages):
        out.append("static std::size_t build_%d(char* p, std::size_t size)\n{" % mi)
        out.append("  %s<char> m(p, size); sbepp::fill_message_header(m);" % n.t)
        out += build_level(m, "m", "  ")
        out.append("  return sbepp::size_bytes(m);\n}")
    out.append("static const int c11_message_count = %d;" % len(tr.messages))
    out.append("static std::size_t c11_build_message(int mi, char* p, std::size_t size)\n{\n  switch(mi) {")
    for mi in range(len(tr.messages)):
        out.append("  case %d: return build_%d(p, size);" % (mi, mi))
    out.append("  }\n  return 0;\n}")
    out.append("template<typename B, typename CB> void c11_run_message(int mi, B* p, std::size_t size, c11::ctx& x)\n{\n  switch(mi) {")
    for mi, (m, n) in enumerate(tr.messages):
        out.append("  case %d: run_%d<B, CB>(%s<B>(p, size), x); break;" % (mi, n.idx, n.t))
    out.append("  }\n}")
    out.append("static void c11_run_mutators(int mi, char* p, std::size_t size)\n{\n  switch(mi) {")
    for mi, (m, n) in enumerate(tr.messages):
        out.append("  case %d: mut_%d(%s<char>(p, size)); break;" % (mi, n.idx, n.t))
    out.append("  }\n}")
    out.append("#endif")
    return out, readers, mutators


def gen_neg(tr, negs):
    """C11_NEG=<k>: the k-th (probe, b, c) as a real call in a function; with
    C11_NEG_CONTROL the same call with mutable byte and cursor types"""
    out = ["#if defined(C11_NEG)"]
    for k, (p, b, c) in enumerate(negs):
        node = p.node.t
        e = tr.run_expr(p)
        out.append("#if C11_NEG == %d" % k)
        out.append("#ifdef C11_NEG_CONTROL\ntypedef %s<char> V; typedef sbepp::cursor<char> C;\n#else\n"
                   "typedef %s<%s> V; typedef sbepp::cursor<%s> C;\n#endif" % (node, node, CPPB[b], CPPB[c]))
        out.append("void c11_neg(V& v, C& c, c11::visitor& vis) { (void)v; (void)c; (void)vis; (void)(%s); }" % e)
        out.append("#endif")
    out.append("#endif")
    return out


# ----------------------------------------------------------------------
# the check
# ----------------------------------------------------------------------

def table_configs(tier):
    cf = [("g++", "c++11"), ("g++", "c++17"), ("g++", "c++20")]
    if tier == "thorough":
        cf += [("g++", "c++14"), ("g++", "c++23"), ("clang++", "c++11"), ("clang++", "c++14"),
               ("clang++", "c++17"), ("clang++", "c++20")]
    return cf


def runtime_configs(tier):
    cf = [("g++", "c++11", ("-O0",)), ("g++", "c++20", ("-O2",))]
    if tier == "thorough":
        cf += [("g++", "c++17", ("-O1",)), ("clang++", "c++14", ("-O1",)), ("clang++", "c++20", ("-O2",))]
    return cf


class Case:
    """one schema: headers, member tree, generated include"""

    def __init__(self, name, s):
        self.name, self.s = name, s
        self.xml = msggen.schema_to_xml(s)
        self.error = None
        self.inc = None


def prepare(case, mrows, cforms_all):
    inc, rc, out = gen_headers(case.s.package, case.xml)
    if rc != 0:
        case.error = out
        return case
    case.inc = inc
    tr = Tree(case.s, cforms_all=cforms_all)
    case.tr = tr
    # calls the model says are declared (SFINAE lets them through) but do not compile
    negs, seen = [], set()
    for p in tr.probes:
        if p.op in ("MakeView", "MakeConstView"):
            continue
        for b, c in COMBOS:
            r = mrows[(p.op, b, c)]
            # readers whose body needs a compatible cursor only need it when the view has a member with a
            # cursor accessor: checked on the hand schema (where every view has one), mutators everywhere
            if r["viable"] == "1" and r["call"] == "0" and (r["mut"] == "1" or case.name == "hand"):
                k = (p.op, p.node.kind, b, c)
                if k not in seen:
                    seen.add(k)
                    negs.append((p, b, c))
    case.negs = negs
    rt, readers, mutators = gen_runtime(tr, mrows)
    case.readers, case.mutators = readers, mutators
    txt = "\n".join(tr.gen_common() + tr.gen_table() + rt + gen_neg(tr, negs)) + "\n"
    d = os.path.join(os.path.dirname(inc), "c11")
    os.makedirs(d, exist_ok=True)
    f = os.path.join(d, "c11_gen.inc")
    if not os.path.exists(f) or open(f).read() != txt:
        open(f, "w").write(txt)
    case.gdir = d
    case.hash = hash_files(tree_files(inc) + [f])
    return case


def neg_compile(case, k, control, cxx="g++", std="c++17"):
    defs = ASSERT_DEF + ("C11_NEG=%d" % k,) + (("C11_NEG_CONTROL",) if control else ())
    rc, err = compile_cpp(os.path.join(VERIF, "cpp/c11_harness.cpp"), None, std=std, cxx=cxx,
                          includes=(case.inc, case.gdir), defines=defs, syntax_only=True)
    return rc, err


def run(res, replay=None):
    rng = SplitMix64(res.seed)
    thorough = res.tier == "thorough"
    res.rule = ("compile time: for the hand schema hc11 (every member kind in first/middle/last position, flat / "
                "nested / empty groups, data, composites with refs / inline enum / set / composite / constants) and "
                "random msggen schemas, a generated C++11 TU evaluates a detection idiom for every member accessor "
                "(direct, get_by_tag / set_by_tag, 5 cursor forms), header filler, group / array mutator and reader, "
                "element assignment, whole-view helper x Byte in {char, const char} x cursor byte in {char, const char}, "
                "and is_convertible / is_constructible / is_assignable between the two instances of every view class "
                "and of cursor; the printed table (viable, byte type of the result) must equal the extracted model's; "
                "every (declared, does-not-compile) cell of the model is checked by a negative compilation with a "
                "mutable-byte positive control.  run time: every non-mutating operation the model says compiles is "
                "executed on every view of an encoded message on a PROT_READ mapping and on a checksummed copy "
                "(status 0, checksum unchanged), for the 4 byte/cursor combinations; every mutator is executed through "
                "a mutable view of the PROT_READ mapping and must fault.  A case is non-trivial when distinct by "
                "(schema, probe, byte, cursor, configuration).")
    ok_proof = proof_step(res)
    model = Model()
    found = False

    ops = model.run(["c11ops"])[0].split()
    q = [(o, b, c) for o in ops for b, c in COMBOS]
    mrows = {k: dict(y.split("=") for y in v.split()) for k, v in zip(q, model.run(["c11 cur %s %s %s" % x for x in q]))}
    lrows = {k: dict(y.split("=") for y in v.split()) for k, v in zip(q, model.run(["c11 legacy %s %s %s" % x for x in q]))}
    cq = [("view", v, f, a, b) for v in VCLASS.values() for f in ("implicit", "construct", "assign") for a, b in COMBOS]
    cq += [("cursor", f, a, b) for f in ("implicit", "construct", "assign") for a, b in COMBOS]
    crows = {k: v.split("=")[1] for k, v in zip(cq, model.run(["c11conv " + " ".join(x) for x in cq]))}

    # schemas
    cases = [Case("hand", hand_schema())]
    nrand = 24 if thorough else 3
    for i in range(nrand):
        g = msggen.Gen(rng.fork("schema%d" % i), "rc11_%d" % i)
        cases.append(Case("random%d" % i, g.schema(nmsg=3 if thorough else 2, max_depth=3 if thorough else 2)))
    if replay and replay.get("schema"):
        cases = [c for c in cases if c.name == replay["schema"]] or cases
    build_sbeppc()
    with concurrent.futures.ThreadPoolExecutor(max_workers=8) as ex:
        cases = list(ex.map(lambda c: prepare(c, mrows, c.name == "hand"), cases))

    # every operation kind of the model must be probed by the hand schema
    if cases and cases[0].name == "hand" and not cases[0].error:
        used = set(p.op for p in cases[0].tr.probes)
        missing = sorted(set(ops) - used)
        unknown = sorted(used - set(ops))
        res.extra["model_ops"] = len(ops)
        res.extra["model_ops_probed_by_hand_schema"] = len(set(ops) & used)
        if missing or unknown:
            res.violation("coverage", "operation kinds of the model without a probe: %s; probes without model op: %s"
                          % (missing, unknown), {"no_failing_input": True, "missing": missing, "unknown": unknown})

    tcf = table_configs(res.tier)
    rcf = runtime_configs(res.tier)
    res.extra["configurations"] = ["table: %s -std=%s" % c for c in tcf] + \
                                  ["runtime: %s -std=%s %s" % (c, s, " ".join(f)) for c, s, f in rcf]
    src = os.path.join(VERIF, "cpp/c11_harness.cpp")
    jobs = []
    for case in cases:
        if case.error:
            found = True
            res.violation("schema-rejected", "sbeppc rejects the %s schema: %s" % (case.name, case.error[-300:]),
                          {"schema_xml": case.xml, "schema": case.name})
            continue
        for cxx, std in tcf:
            s2 = "c++2b" if (cxx == "clang++" and std == "c++23") else std
            jobs.append(("table", case, cxx, s2, ("-O0",), ASSERT_DEF + ("C11_TABLE",)))
        for cxx, std, fl in rcf:
            jobs.append(("runtime", case, cxx, std, fl, ASSERT_DEF + ("C11_RUNTIME",)))

    def build(j):
        kind, case, cxx, std, fl, defs = j
        try:
            return j, cached_cpp("c11_%s" % kind, src, std=std, cxx=cxx, flags=fl, includes=(case.inc, case.gdir),
                                 defines=defs, extra_hash=case.hash), None
        except BuildError as e:
            return j, None, str(e)

    with concurrent.futures.ThreadPoolExecutor(max_workers=12) as ex:
        built = list(ex.map(build, jobs))

    stats = {"table_cells": 0, "conversion_cells": 0, "negative_compiles": 0, "reader_calls": 0, "mutator_runs": 0,
             "probes": 0, "nodes": 0}
    for case in cases:
        if not case.error:
            stats["probes"] += len(case.tr.probes)
            stats["nodes"] += len(case.tr.nodes)

    def describe(p, b, c):
        return "%s: `%s` with Byte=%s, cursor byte=%s" % (p.label, p.expr.replace("@V", "v").replace("@C", "c")
                                                           .replace("@T", "V").replace("@B", "Byte"), CPPB[b], CPPB[c])

    hard_error_cache = {}

    def really_compiles(case, p, b, c):
        """compile the call for real (used to tell a genuine hole from a declared-but-ill-formed member)"""
        k = (case.name, p.id, b, c)
        if k not in hard_error_cache:
            td = tmpdir()
            try:
                e = case.tr.run_expr(p)
                txt = "\n".join(case.tr.gen_common()) + "\n" + \
                      "typedef %s<%s> V; typedef sbepp::cursor<%s> C;\n" % (p.node.t, CPPB[b], CPPB[c]) + \
                      "void c11_probe(V& v, C& c, c11::visitor& vis) { (void)v; (void)c; (void)vis; (void)(%s); }\n" % e
                open(os.path.join(td, "c11_gen.inc"), "w").write(txt)
                rc, err = compile_cpp(src, None, std="c++17", includes=(case.inc, td), defines=ASSERT_DEF,
                                      syntax_only=True)
                hard_error_cache[k] = (rc == 0, err)
            finally:
                shutil.rmtree(td, ignore_errors=True)
        return hard_error_cache[k]

    for (kind, case, cxx, std, fl, defs), exe, err in built:
        if exe is None:
            res.violation("harness-build:%s:%s:%s" % (kind, cxx, std),
                          "C11 %s harness for schema %s does not build (%s -std=%s): %s"
                          % (kind, case.name, cxx, std, err[-600:]),
                          {"no_failing_input": True, "schema": case.name, "schema_xml": case.xml,
                           "correspondence": "cpp/c11_harness.cpp + generated c11_gen.inc", "error": err[-4000:]})
            continue
        rc, lines, serr = run_lines(exe, [], timeout=600)
        tr = case.tr
        if kind == "table":
            rows, convs = {}, {}
            for l in lines:
                a = l.split()
                if a and a[0] == "P":
                    rows[(int(a[1]), a[2], a[3])] = (a[4].split("=")[1], a[5].split("=")[1])
                elif a and a[0] == "X":
                    convs[(int(a[1]), a[2], a[3], a[4])] = a[5].split("=")[1]
            if rc != 0 or len(rows) != 4 * len(tr.probes):
                res.violation("harness-run:table", "table harness failed (%s %s): rc=%d %s" % (cxx, std, rc, serr[-300:]),
                              {"no_failing_input": True, "schema": case.name, "stderr": serr[-2000:]})
                continue
            for p in tr.probes:
                for b, c in COMBOS:
                    e = mrows[(p.op, b, c)]
                    v, r = rows[(p.id, b, c)]
                    stats["table_cells"] += 1
                    res.count((case.name, p.id, b, c, cxx, std), e["mut"] == "1" or e["cur"] == "1")
                    ok = (v == e["viable"]) and (e["mut"] == "1" or e["call"] != "1" or r == e["res"])
                    if ok:
                        continue
                    found = True
                    leg = lrows[(p.op, b, c)]
                    what = "overload resolution %s %s, the model says it %s" % (
                        "accepts" if v == "1" else "rejects", describe(p, b, c),
                        "must be rejected" if e["viable"] == "0" else "is declared")
                    if v == e["viable"]:
                        what = "%s returns a %s-byte result, the model says %s" % (
                            describe(p, b, c), {"m": "mutable", "c": "const", "-": "non-view"}[r], e["res"])
                    extra = {}
                    if v == "1" and e["viable"] == "0":
                        comp, cerr = really_compiles(case, p, b, c)
                        extra["call_compiles"] = comp
                        what += ("; THE CALL COMPILES (the buffer can be modified through a read-only handle)" if comp
                                 else "; the call itself is a hard error inside the library (declared, not SFINAE-rejected)")
                        if leg["viable"] == v:
                            what += " [matches Constness.Legacy: code before fix_c11.diff]"
                    sig = "table:%s:%s%s" % (p.op, b, c if e["cur"] == "1" else "-")
                    rep = {"schema": case.name, "schema_xml": case.xml, "probe": p.label, "op": p.op,
                           "expression": p.expr, "byte": CPPB[b], "cursor_byte": CPPB[c],
                           "expected": {"viable": e["viable"], "res": e["res"]},
                           "observed": {"viable": v, "res": r}, "config": [cxx, std]}
                    rep.update(extra)
                    res.violation(sig, what + " (%s -std=%s, schema %s)" % (cxx, std, case.name), rep)
            for cid, n in tr.convs + [(len(tr.convs), None)]:
                for f in ("implicit", "construct", "assign"):
                    for a, b in COMBOS:
                        key = ("view", VCLASS[n.kind], f, a, b) if n else ("cursor", f, a, b)
                        exp = crows[key]
                        got = convs.get((cid, f, a, b))
                        stats["conversion_cells"] += 1
                        res.count((case.name, "conv", cid, f, a, b, cxx, std), a != b)
                        if got != exp:
                            found = True
                            nm = n.label + " (" + n.kind + ")" if n else "sbepp::cursor"
                            res.violation("conv:%s:%s:%s%s" % (VCLASS[n.kind] if n else "cursor", f, a, b),
                                          "%s conversion %s<%s> -> %s<%s>: implementation %s, model %s (%s -std=%s)"
                                          % (f, nm, CPPB[a], nm, CPPB[b], got, exp, cxx, std),
                                          {"schema": case.name, "schema_xml": case.xml, "view": nm, "form": f,
                                           "from": CPPB[a], "to": CPPB[b], "expected": exp, "observed": got,
                                           "config": [cxx, std]})
        else:
            # run-time half
            if rc != 0:
                found = True
                res.violation("runtime-crash", "run-time harness died (%s %s, schema %s): rc=%d (99 = memory fault "
                              "outside a trap, i.e. while only navigating / reading) %s"
                              % (cxx, std, case.name, rc, serr[-300:]),
                              {"schema": case.name, "schema_xml": case.xml, "stdout_tail": lines[-5:],
                               "stderr": serr[-2000:], "config": [cxx, std, list(fl)]})
            byid = {p.id: p for p in tr.probes}
            mut_seen = {}
            nb = 0
            for l in lines:
                a = l.split()
                kv = dict(x.split("=") for x in a if "=" in x)
                if a[0] == "B":
                    nb += 1
                    if kv["status"] != "0":
                        res.violation("runtime-build", "encoding the test message %s failed (status %s)" % (a[1], kv["status"]),
                                      {"no_failing_input": True, "schema": case.name, "schema_xml": case.xml})
                elif a[0] == "R":
                    stats["reader_calls"] += int(kv["calls"])
                    res.count((case.name, "R", a[1], a[2], a[3], a[4], cxx, std), True)
                    if kv["status"] != "0" or kv["changed"] != "0" or int(kv["calls"]) == 0:
                        found = True
                        p = byid.get(int(kv["at"]))
                        msg = tr.messages[int(a[1])][0].name
                        what = ("a non-mutating operation %s on message %s (Byte=%s, cursor byte=%s, %s buffer): %s"
                                % ("`%s` [%s]" % (p.label, p.op) if p else "(none)", msg, CPPB[a[2]], CPPB[a[3]],
                                   "PROT_READ" if a[4] == "ro" else "checksummed",
                                   {"0": "changed the buffer" if kv["changed"] != "0" else "no reader ran",
                                    "1": "fired the assertion handler", "2": "faulted (write to the read-only mapping or out-of-bounds access)"}[kv["status"]]))
                        res.violation("runtime:%s:%s" % (p.op if p else "none", kv["status"]), what,
                                      {"schema": case.name, "schema_xml": case.xml, "message": msg,
                                       "probe": p.label if p else None, "expression": p.expr if p else None,
                                       "byte": CPPB[a[2]], "cursor_byte": CPPB[a[3]], "buffer": a[4],
                                       "expected": "status=0 changed=0", "observed": l, "config": [cxx, std, list(fl)]})
                elif a[0] == "M":
                    pid = int(a[2])
                    stats["mutator_runs"] += 1
                    res.count((case.name, "M", a[1], pid, cxx, std), True)
                    mut_seen[pid] = True
                    if kv["status"] != "2":
                        found = True
                        p = byid[pid]
                        res.violation("mutator-no-write:%s" % p.op,
                                      "the model classifies `%s` [%s] as a mutator but on a PROT_READ mapping it finished "
                                      "with status %s (0 = no store, 1 = assertion) (%s -std=%s)"
                                      % (p.label, p.op, kv["status"], cxx, std),
                                      {"schema": case.name, "schema_xml": case.xml, "probe": p.label,
                                       "expression": p.expr, "expected": "status=2", "observed": l,
                                       "config": [cxx, std, list(fl)]})
            if nb != len(tr.messages) and rc == 0:
                res.violation("runtime-incomplete", "run-time harness printed %d of %d messages" % (nb, len(tr.messages)),
                              {"no_failing_input": True, "schema": case.name})

    # negative compilations: declared by the model, must not compile; positive control with mutable types
    neg_jobs = []
    for case in cases:
        if case.error or (case.name != "hand" and not thorough):
            continue
        for k, (p, b, c) in enumerate(case.negs):
            neg_jobs.append((case, k, p, b, c))

    def do_neg(j):
        case, k, p, b, c = j
        rc, err = neg_compile(case, k, False)
        ctl = None
        if mrows[(p.op, "m", "m")]["call"] == "1":
            ctl = neg_compile(case, k, True)[0]
        return j, rc, err, ctl

    with concurrent.futures.ThreadPoolExecutor(max_workers=14) as ex:
        for (case, k, p, b, c), rc, err, ctl in ex.map(do_neg, neg_jobs):
            stats["negative_compiles"] += 1
            res.count((case.name, "neg", p.id, b, c), True)
            if rc == 0:
                found = True
                mut = mrows[(p.op, b, c)]["mut"] == "1"
                res.violation("neg:%s:%s%s" % (p.op, b, c),
                              "%s compiles although the model says its body is ill formed%s"
                              % (describe(p, b, c), " -- a mutator is callable on a read-only handle" if mut else ""),
                              {"schema": case.name, "schema_xml": case.xml, "probe": p.label, "op": p.op,
                               "expression": p.expr, "byte": CPPB[b], "cursor_byte": CPPB[c],
                               "expected": "compile error", "observed": "compiles"})
            if ctl is not None and ctl != 0:
                res.violation("neg-control:%s" % p.op, "positive control of the negative compilation does not compile: %s"
                              % describe(p, "m", "m"), {"no_failing_input": True, "schema": case.name, "probe": p.label})

    res.extra["counts"] = stats
    res.extra["schemas"] = [c.name for c in cases]
    if cases and not cases[0].error:
        p = cases[0].tr.probes[40]
        res.sample({"probe": p.label, "op": p.op, "expression": p.expr,
                    "model": {"%s%s" % bc: mrows[(p.op,) + bc] for bc in COMBOS}})
        mp = [x for x in cases[0].tr.probes if x.op == "GroupResize"][0]
        res.sample({"probe": mp.label, "op": mp.op, "expression": mp.expr,
                    "model": {"%s%s" % bc: mrows[(mp.op,) + bc] for bc in COMBOS},
                    "legacy_model": {"%s%s" % bc: lrows[(mp.op,) + bc] for bc in COMBOS}})
    res.assumptions = [
        "the compile-time half is partial by nature: that a compiler's overload resolution implements can_call is "
        "established by the probe table (g++ and clang++, C++11..23), not by proof",
        "byte types probed: char / const char (the guards only inspect constness and pointer convertibility)",
        "the run-time half (no reader writes) has no Coq theorem; it rests on the PROT_READ / checksum runs"]
    if not ok_proof:
        proof_failure_violation(res, found)
    return res.finish(level="proof+correspondence", trusted=[
        "Constness.v: hand-written capability model of the SFINAE guards of sbepp.hpp and of the accessor templates "
        "sbeppc emits, tied by the generated probe table (route T5)",
        "harness/props/c11.py (probe / run-time code generator), cpp/c11_harness.cpp, harness/msggen.py",
        "extraction: ExtrOcamlBasic only; ocaml/drv_c11.ml operation-name table"])
