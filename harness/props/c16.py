"""C16 — optional/required scalars: null, range, ordering and SBE defaults."""
import os
import re
import struct
import time
from common import *

PRIMS = ["char", "int8", "int16", "int32", "int64", "uint8", "uint16", "uint32", "uint64", "float", "double"]
CPP = {"char": "char", "int8": "std::int8_t", "int16": "std::int16_t", "int32": "std::int32_t",
       "int64": "std::int64_t", "uint8": "std::uint8_t", "uint16": "std::uint16_t", "uint32": "std::uint32_t",
       "uint64": "std::uint64_t", "float": "float", "double": "double"}
RANGE = {"char": (-128, 127), "int8": (-128, 127), "int16": (-2 ** 15, 2 ** 15 - 1), "int32": (-2 ** 31, 2 ** 31 - 1),
         "int64": (-2 ** 63, 2 ** 63 - 1), "uint8": (0, 255), "uint16": (0, 2 ** 16 - 1), "uint32": (0, 2 ** 32 - 1),
         "uint64": (0, 2 ** 64 - 1)}
FP = ("float", "double")

# explicit attribute texts: variant -> prim -> (minValue, maxValue, nullValue)
EXPLICIT = {
    "e": {
        "char": ("65", "90", "32"), "int8": ("-100", "100", "127"), "uint8": ("1", "200", "0"),
        "int16": ("-30000", "30000", "-1"), "uint16": ("10", "60000", "0"),
        "int32": ("-2147483648", "2147483646", "2147483647"), "uint32": ("1", "4294967295", "0"),
        "int64": ("-9223372036854775808", "9223372036854775806", "9223372036854775807"),
        "uint64": ("1", "18446744073709551615", "9223372036854775808"),
        "float": ("-1.5", "1e10", "-INF"), "double": ("-0.1", "1e300", "INF")},
    "x": {
        "char": ("-128", "127", "0"), "int8": ("-128", "127", "0"), "uint8": ("0", "255", "7"),
        "int16": ("-32768", "32767", "0"), "uint16": ("0", "65535", "7"),
        "int32": ("-2147483647", "2147483647", "-2147483648"), "uint32": ("0", "4294967294", "4294967295"),
        "int64": ("-9223372036854775807", "9223372036854775807", "-9223372036854775808"),
        "uint64": ("0", "9223372036854775807", "18446744073709551615"),
        "float": ("-INF", "INF", "NaN"), "double": ("0.0", "+INF", "-0.0")},
    # leading zeros: std::from_chars reads them as decimal
    "z": {
        "char": ("0040", "0100", "00"), "int8": ("-010", "0100", "-0"), "uint8": ("010", "0200", "00"),
        "int16": ("-010", "0100", "0012"), "uint16": ("010", "0100", "000"),
        "int32": ("-0010", "00100", "017"), "uint32": ("010", "0100", "0"),
        "int64": ("-010", "0100", "-000123"), "uint64": ("010", "0100", "0000"),
        "float": ("010", "010.5", "-00.5"), "double": ("-010", "0100", "00.25")},
}


def fbits(prim, x):
    return struct.unpack("<I", struct.pack("<f", x))[0] if prim == "float" else \
        struct.unpack("<Q", struct.pack("<d", x))[0]


def hexv(prim, v):
    if prim == "float":
        return "0x%08x" % v
    if prim == "double":
        return "0x%016x" % v
    return str(v)


def enc(text):
    return text.replace(" ", "~")


class TypeInfo:
    def __init__(self, tid, cpp, prim, opt, origin, explicit=None, xml=""):
        self.tid, self.cpp, self.prim, self.opt, self.origin = tid, cpp, prim, opt, origin
        self.explicit = explicit      # (min, max, null) attribute texts or None
        self.xml = xml
        self.header = None
        self.header_text = {}         # which -> text in the generated header
        self.exp = {}                 # which -> expected value
        self.usable = True

    def whiches(self):
        return ("min", "max", "null") if self.opt else ("min", "max")


def schema_types():
    ts, xml = [], ""
    for p in PRIMS:
        for opt in (False, True):
            for var in ("d", "e", "x", "z"):
                if var == "x" and not opt and p not in FP:
                    continue
                name = "%s_%s%s" % (p, "o" if opt else "r", var)
                attrs = ""
                ex = None
                if var != "d":
                    mn, mx, nl = EXPLICIT[var][p]
                    ex = (mn, mx, nl if opt else None)
                    attrs = ' minValue="%s" maxValue="%s"' % (mn, mx)
                    if opt:
                        attrs += ' nullValue="%s"' % nl
                x = '<type name="%s" primitiveType="%s"%s%s/>' % (
                    name, p, ' presence="optional"' if opt else "", attrs)
                xml += "    " + x + "\n"
                ts.append(TypeInfo("g_" + name, "::hs_opt::types::" + name, p, opt, "generated", ex, x))
                ts[-1].header = "hs_opt/types/%s.hpp" % name
    return ts, schema_xml("hs_opt", xml)


def builtin_types():
    ts = []
    for p in PRIMS:
        ts.append(TypeInfo("b_%s" % p, "::sbepp::%s_t" % p, p, False, "builtin"))
        ts.append(TypeInfo("b_%s_opt" % p, "::sbepp::%s_opt_t" % p, p, True, "builtin"))
    return ts


def int_values(prim, d, rng, nrand):
    lo, hi = RANGE[prim]
    vs = [lo, lo + 1, lo + 2, -2, -1, 0, 1, 2, hi - 2, hi - 1, hi, 0x20, 0x7e, 0x7f, lo // 2, hi // 2]
    for k in ("min", "max", "null"):
        if k in d:
            vs += [d[k] - 1, d[k], d[k] + 1]
    for _ in range(nrand):
        vs.append(lo + rng.below(hi - lo + 1))
    out = []
    for v in vs:
        if lo <= v <= hi and v not in out:
            out.append(v)
    return out


def fp_values(prim, d, rng, nrand):
    if prim == "float":
        w, eb, mb = 32, 8, 23
    else:
        w, eb, mb = 64, 11, 52
    sign = 1 << (w - 1)
    expmask = ((1 << eb) - 1) << mb
    one = ((1 << (eb - 1)) - 1) << mb
    vs = [0, sign,                                    # +0 -0
          1, sign | 1,                                # +-denorm_min
          (1 << mb) - 1,                              # largest subnormal
          1 << mb, sign | (1 << mb),                  # +-min normal
          one, sign | one, one | (1 << (mb - 1)),     # 1, -1, 1.5
          one + 1, one - 1,
          expmask - 1, sign | (expmask - 1),          # max, lowest
          expmask, sign | expmask,                    # +-inf
          expmask | (1 << (mb - 1)),                  # default quiet NaN
          expmask | (1 << (mb - 1)) | 1,              # quiet NaN, payload 1
          sign | expmask | (1 << (mb - 1)),           # negative quiet NaN (x86 default NaN)
          sign | expmask | (1 << (mb - 1)) | 0x1234,  # negative quiet NaN with payload
          expmask | (1 << (mb - 2)),                  # signalling NaN
          expmask | 1]                                # signalling NaN, smallest payload
    for k in ("min", "max", "null"):
        if k in d:
            b = d[k]
            vs += [b, b ^ sign]
            if 0 < (b & ~sign) < expmask:
                vs += [b - 1, b + 1]
    for _ in range(nrand):
        vs.append(rng.next() & ((1 << w) - 1))
    out = []
    for v in vs:
        if v not in out:
            out.append(v)
    return out


# bit pattern -> C++ constant expression (for the static_assert block)
def fp_const_expr(prim, bits):
    T = prim
    L = "::std::numeric_limits<%s>" % T
    suf = "f" if prim == "float" else ""
    w = 32 if prim == "float" else 64
    sign = 1 << (w - 1)
    table = {fbits(prim, 0.0): "0.0" + suf, fbits(prim, 1.0): "1.0" + suf, fbits(prim, 1.5): "1.5" + suf,
             fbits(prim, float("inf")): L + "::infinity()",
             (fbits(prim, float("inf")) | (1 << ((23 if prim == "float" else 52) - 1))): L + "::quiet_NaN()"}
    mb = 23 if prim == "float" else 52
    eb = 8 if prim == "float" else 11
    expmask = ((1 << eb) - 1) << mb
    table[1 << mb] = L + "::min()"
    table[expmask - 1] = L + "::max()"
    table[1] = L + "::denorm_min()"
    if bits in table:
        return table[bits]
    if (bits ^ sign) in table and (bits ^ sign) != (expmask | (1 << (mb - 1))):
        return "-" + table[bits ^ sign]
    return None


def int_const_expr(prim, v):
    if v == -2 ** 63:
        lit = "(-9223372036854775807LL - 1)"
    elif v > 2 ** 63 - 1:
        lit = "%dULL" % v
    else:
        lit = "%dLL" % v
    return "static_cast<%s>(%s)" % (CPP[prim], lit)


def parse_kv(line):
    return dict(x.split("=", 1) for x in line.split() if "=" in x)


def run(res, replay=None):
    rng = SplitMix64(res.seed)
    thorough = res.tier == "thorough"
    res.rule = ("every built-in sbepp::<prim>_t/_opt_t and every type of a generated schema (11 primitive types x "
                "required/optional x default / explicit / extreme / leading-zero attribute texts): (1) literal text in the "
                "generated header vs the model of the generator, its value per the model's C++ literal semantics, the "
                "static min/max/null_value() and type_traits values of the compiled header vs the expected value; "
                "(2) full cross product of a boundary value set (type extremes, min/max/null and neighbours, 0, +-1, "
                "+-0, denormals, +-inf, 6 NaN patterns; plus random values in thorough) through default/nullopt "
                "construction, has_value, bool, value_or, in_range and ==,!=,<,<=,>,>= (and <=> in C++20) compared "
                "with the model of the repaired code, which is itself compared with the specification functions; "
                "(3) a static_assert block with model-computed expectations (constant evaluation). A case is "
                "non-trivial when distinct by (configuration kind, type, l, r).")
    ok_proof = proof_step(res)
    model = Model()
    found = False
    t_last = [time.time()]

    def lap(what):
        log("[c16] %s: %.1fs" % (what, time.time() - t_last[0]))
        t_last[0] = time.time()

    # Result keeps at most 50 violations; report each signature once
    seen_sigs = set()
    raw_violation = res.violation

    def violation_once(sig, what, rep):
        if sig in seen_sigs:
            return False
        seen_sigs.add(sig)
        return raw_violation(sig, what, rep)
    res.violation = violation_once
    lap("proof step")

    gen_types, xml = schema_types()
    inc, rc, out = gen_headers("hs_opt", xml)
    if rc != 0:
        res.violation("harness-schema-rejected", "sbeppc rejects the C16 harness schema: " + out[-500:],
                      {"schema": xml, "no_failing_input": True})
        return res.finish()
    types = builtin_types() + gen_types
    by_id = {t.tid: t for t in types}

    # ---------------- (1) static values ----------------
    # expected values
    bi = {}
    for p, line in zip(PRIMS, model.run(["c16builtin %s" % p for p in PRIMS])):
        kv = parse_kv(line)
        bi[p] = {k: int(v) for k, v in kv.items()}
    q_lines, q_keys = [], []
    for t in gen_types:
        hdr = open(os.path.join(inc, t.header)).read()
        for w in t.whiches():
            m = re.search(r"%s_value\(\) noexcept\s*\{\s*return \{(.*?)\};\s*\}" % w, hdr, flags=re.S)
            t.header_text[w] = m.group(1).strip() if m else None
            ex = t.explicit[("min", "max", "null").index(w)] if t.explicit else None
            q_keys.append((t, w, ex))
            q_lines.append("c16gen fix %s %s %s" % (w, t.prim, enc(ex) if ex is not None else "-"))
            q_lines.append("c16lit %s %s" % (t.prim, enc(t.header_text[w] or "?")))
            q_lines.append("c16fc %s %s" % (t.prim, enc(ex) if ex is not None else "-"))
    q_out = model.run(q_lines)
    illformed = []
    for i, (t, w, ex) in enumerate(q_keys):
        g_text = q_out[3 * i][5:].replace("~", " ")
        lit = q_out[3 * i + 1]
        fc = q_out[3 * i + 2]
        res.count(("static-text", t.tid, w))
        h_text = t.header_text[w]
        # expected value (specification level)
        if ex is None:
            exp = bi[t.prim][w]
        elif t.prim in FP:
            sx = ex.lstrip("+")
            if ex == "NaN":
                exp = fbits(t.prim, float("nan")) & ~(1 << (31 if t.prim == "float" else 63))
            elif sx == "INF":
                exp = fbits(t.prim, float("inf"))
            elif ex == "-INF":
                exp = fbits(t.prim, float("-inf"))
            else:
                exp = fbits(t.prim, float(ex))   # decimal text: trusted Python strtod + IEEE rounding to float
        else:
            exp = int(fc.split()[1]) if fc.startswith("some") else None
            if exp is None or exp != int(ex):
                res.violation("model-from-chars", "model of from_chars disagrees with int() on %r" % ex,
                              {"no_failing_input": True, "text": ex, "model": fc})
        t.exp[w] = exp
        kind = "default" if ex is None else "explicit"
        rep = {"type_xml": t.xml, "which": w, "primitive": t.prim, "attribute_text": ex,
               "header_text": h_text, "model_generator_text": g_text, "expected_value": exp,
               "model_value_of_header_text": lit}
        # The literal TEXT is not constrained by the property (only the value it denotes is): the model's
        # rendering differs harmlessly from the generator's (e.g. `-0` vs `0`, `10` vs `010.0` for a float).
        # A text difference is therefore only counted; the value checks below and the static_assert block decide.
        if h_text != g_text:
            res.extra["literal_text_differs_from_model"] = res.extra.get("literal_text_differs_from_model", 0) + 1
        if lit.startswith("ok"):
            if int(lit.split()[1]) != exp:
                found = True
                t.usable = False
                res.violation("gen-value:%s:%s:%s" % (kind, t.prim if ex is None else "any",
                                                       "leading-zero" if ex and re.match(r"[-+]?0\d", ex) else w),
                              "%s: generated %s_value() is `%s` = %s, expected %s"
                              % (t.xml, w, h_text, hexv(t.prim, int(lit.split()[1])), hexv(t.prim, exp)), rep)
        elif lit == "illformed" or (lit == "unsupported" and t.prim not in FP):
            t.usable = False
            illformed.append((t, w, rep, lit))
    # confirm model-predicted ill-formed headers with the real compiler
    td = tmpdir()
    try:
        for (t, w, rep, lit) in illformed:
            src = os.path.join(td, "probe_%s.cpp" % t.tid)
            open(src, "w").write("#include <%s>\nint main(){ return sizeof(%s) == 0; }\n" % (t.header, t.cpp))
            rc, err = compile_cpp(src, None, std="c++17", includes=(inc,), syntax_only=True)
            res.count(("static-probe", t.tid, w))
            rep = dict(rep, probe_source=open(src).read(), compiler_rc=rc, compiler_stderr=err[-1500:])
            found = True
            if rc != 0:
                res.violation("gen-illformed:%s:%s" % (t.prim, w),
                              "%s: generated header does not compile: %s_value() is `return {%s};` (%s)"
                              % (t.xml, w, t.header_text[w], (re.search(r"error: .*", err) or [""])[0][:160]), rep)
            else:
                res.violation("lit-model:%s:%s" % (t.prim, w),
                              "model calls `%s{%s}` %s but the compiler accepts it" % (CPP[t.prim], t.header_text[w], lit),
                              rep)
    finally:
        shutil.rmtree(td, ignore_errors=True)

    for t in types:
        if t.origin == "builtin":
            for w in t.whiches():
                t.exp[w] = bi[t.prim][w]

    lap("static text/literal checks")
    # ---------------- harness build ----------------
    tdir = os.path.join(os.path.dirname(inc), "c16tab")
    os.makedirs(tdir, exist_ok=True)
    usable = [t for t in types if t.usable or t.origin == "builtin"]
    # unusable-by-value types still compile: keep them in the harness for the meta check
    compilable = [t for t in types if t.origin == "builtin" or not any(t is x[0] for x in illformed)]
    s = "#ifdef C16_INCLUDES\n"
    for t in compilable:
        if t.header:
            s += "#include <%s>\n" % t.header
    s += "#endif\n#ifdef C16_TABLE\n"
    for t in compilable:
        s += 'C16_%s("%s", %s)\n' % ("OPT" if t.opt else "REQ", t.tid, t.cpp)
    s += "#endif\n"
    tab = os.path.join(tdir, "c16_types.inc")
    if not os.path.exists(tab) or open(tab).read() != s:
        open(tab, "w").write(s)

    configs = [("g++", "c++11", ("-O1",)), ("g++", "c++17", ("-O1",)), ("g++", "c++20", ("-O2",))]
    if thorough:
        configs += [("clang++", st, ("-O1",)) for st in ("c++11", "c++14", "c++17", "c++20", "c++2b")] + \
                   [("g++", st, ("-O1",)) for st in ("c++14", "c++23")] + \
                   [("g++", "c++20", ("-O0",)), ("g++", "c++17", ("-O2", "-ffloat-store"))]
    res.extra["configurations"] = ["%s -std=%s %s" % (c, st, " ".join(f)) for c, st, f in configs]

    def is20(st):
        return st in ("c++20", "c++23", "c++2b")

    # C++20: do relational operators of floating-point optionals compile at all?
    fp_order = {}
    td = tmpdir()
    try:
        src = os.path.join(td, "c16_fp_order.cpp")
        open(src, "w").write(
            "#include <sbepp/sbepp.hpp>\n"
            "bool f(sbepp::float_opt_t a, sbepp::float_opt_t b){ return a < b; }\n"
            "bool g(sbepp::double_opt_t a, sbepp::double_opt_t b){ return (a <=> b) >= 0; }\n"
            "int main(){}\n")
        for cxx in sorted(set(c for c, st, f in configs if is20(st))):
            st = "c++20"
            rc, err = compile_cpp(src, None, std=st, cxx=cxx, syntax_only=True)
            fp_order[cxx] = (rc == 0)
            res.count(("fp-order-probe", cxx))
            if rc != 0:
                found = True
                res.violation("cxx20-fp-order",
                              "C++20: `float_opt_t a, b; a < b` does not compile (%s): %s"
                              % (cxx, (re.search(r"error: .*", err) or [""])[0][:200]),
                              {"source": open(src).read(), "config": [cxx, st], "stderr": err[-2000:],
                               "expected": "well-formed, value per C16_compare_spec"})
    finally:
        shutil.rmtree(td, ignore_errors=True)

    # ---------------- (2) runtime cases ----------------
    cases = []      # (type, l, r)
    for t in compilable:
        if not all(t.exp.get(w) is not None for w in t.whiches()):
            continue
        if not t.usable and t.origin != "builtin":
            continue
        d = dict(t.exp)
        nrand = (12 if thorough else 0)
        vs = fp_values(t.prim, d, rng, nrand) if t.prim in FP else int_values(t.prim, d, rng, nrand)
        for l in vs:
            for r in vs:
                cases.append((t.tid, l, r))
    if replay and replay.get("cases"):
        cases = [tuple(c) for c in replay["cases"] if c[0] in by_id]

    def model_lines(impl, std):
        ls = []
        for (tid, l, r) in cases:
            t = by_id[tid]
            ls.append("c16 %s %s %s %s %d %d %d %d %d" % (
                impl, std, "opt" if t.opt else "req", t.prim, t.exp["min"], t.exp["max"],
                t.exp.get("null", 0), l, r))
        return ls

    exp_by_std = {"pre20": model.run(model_lines("fix", "pre20")), "cxx20": model.run(model_lines("fix", "cxx20"))}
    spec_by_std = {"pre20": model.run(model_lines("spec", "pre20")), "cxx20": model.run(model_lines("spec", "cxx20"))}
    for std in ("pre20", "cxx20"):
        for c, e, sp in zip(cases, exp_by_std[std], spec_by_std[std]):
            if e != sp:
                found = True
                res.violation("model-vs-spec:%s" % by_id[c[0]].prim,
                              "model of the repaired code disagrees with the specification functions",
                              {"cases": [list(c)], "expected": sp, "observed_model": e})
                break

    lap("model runs (%d cases)" % len(cases))
    meta_lines = ["c16meta %s" % t.tid for t in compilable]
    case_lines = ["c16 %s %d %d" % c for c in cases]

    for cxx, std, flags in configs:
        mstd = "cxx20" if is20(std) else "pre20"
        defines = ["SBEPP_ENABLE_ASSERTS_WITH_HANDLER"]
        no_fp_order = is20(std) and not fp_order.get(cxx, True)
        if no_fp_order:
            defines.append("C16_NO_FP_ORDER")
        try:
            exe = cached_cpp("c16_harness", os.path.join(VERIF, "cpp/c16_harness.cpp"), std=std, cxx=cxx,
                             flags=flags, includes=(inc, tdir), defines=tuple(defines),
                             extra_hash=hash_files(tree_files(inc) + [tab]))
        except BuildError as e:
            res.violation("harness-build:%s:%s" % (cxx, std), "C16 harness no longer builds against /repo",
                          {"no_failing_input": True, "correspondence": "c16_harness.cpp", "error": str(e)[-3000:]})
            continue
        rc, got, err = run_lines(exe, meta_lines + case_lines)
        if rc != 0 or len(got) != len(meta_lines) + len(case_lines):
            found = True
            idx = min(len(got), len(meta_lines) + len(case_lines) - 1)
            res.violation("crash:%s:%s" % (cxx, std), "harness crashed (rc=%d) at line %d: %s" % (rc, idx, err[-300:]),
                          {"line": (meta_lines + case_lines)[idx], "config": [cxx, std, list(flags)],
                           "stderr": err[-2000:]})
            continue
        # static members and traits
        for t, line in zip(compilable, got):
            kv = parse_kv(line)
            for w in t.whiches():
                res.count(("static", cxx, std, t.tid, w))
                exp = t.exp.get(w)
                if exp is None:
                    continue
                for key in (w, "t" + w):
                    if kv.get(key) != str(exp):
                        found = True
                        ex = t.explicit[("min", "max", "null").index(w)] if t.explicit else None
                        res.violation(
                            "static:%s:%s:%s" % ("default" if ex is None else "explicit", t.origin,
                                                 "leading-zero" if ex and re.match(r"[-+]?0\d", ex) else w),
                            "%s %s: %s%s_value() = %s, expected %s (%s -std=%s)"
                            % (t.cpp, t.xml, "type_traits::" if key[0] == "t" and key != w else "", w,
                               hexv(t.prim, int(kv.get(key, "0"))) if kv.get(key, "").lstrip("-").isdigit() else kv.get(key),
                               hexv(t.prim, exp), cxx, std),
                            {"type": t.cpp, "type_xml": t.xml, "which": w, "attribute_text": ex,
                             "header_text": t.header_text.get(w), "expected": exp, "observed": kv.get(key),
                             "config": [cxx, std, list(flags)]})
            sz = kv.get("size", "1/1").split("/")
            if sz[0] != sz[1]:
                found = True
                res.violation("sizeof:%s" % t.prim, "sizeof(%s) = %s, sizeof(value_type) = %s" % (t.cpp, sz[0], sz[1]),
                              {"type": t.cpp, "config": [cxx, std, list(flags)]})
        # behaviour
        exp_lines = exp_by_std[mstd]
        for i, c in enumerate(cases):
            t = by_id[c[0]]
            res.count((mstd, c))
            g = got[len(meta_lines) + i]
            e = exp_lines[i]
            if g == e:
                continue
            found = True
            gk, ek = parse_kv(g), parse_kv(e)
            diff = [k for k in ek if gk.get(k) != ek[k]]
            isfp = t.prim in FP
            sig = "behaviour:%s:%s:%s:%s" % ("opt" if t.opt else "req", "fp" if isfp else "int", mstd,
                                            "+".join(sorted(set("rel" if k in ("ops", "cmp") else
                                                                ("null" if k in ("dn", "hv", "bo", "vo") else k)
                                                                for k in diff))))
            res.violation(sig,
                          "%s (%s; min=%s max=%s%s) l=%s r=%s: expected `%s`, got `%s` (%s -std=%s)"
                          % (t.cpp, t.prim, hexv(t.prim, t.exp["min"]), hexv(t.prim, t.exp["max"]),
                             " null=%s" % hexv(t.prim, t.exp["null"]) if t.opt else "",
                             hexv(t.prim, c[1]), hexv(t.prim, c[2]), e, g, cxx, std),
                          {"cases": [list(c)], "type": t.cpp, "type_xml": t.xml, "expected": e, "observed": g,
                           "differs_in": diff, "config": [cxx, std, list(flags)]})
    if cases:
        k = 4242 % len(cases)
        res.sample({"case": case_lines[k], "type": by_id[cases[k][0]].cpp, "expected_pre20": exp_by_std["pre20"][k],
                    "expected_cxx20": exp_by_std["cxx20"][k]})
        k = (len(cases) * 7) // 8
        res.sample({"case": case_lines[k], "type": by_id[cases[k][0]].cpp, "expected_pre20": exp_by_std["pre20"][k],
                    "expected_cxx20": exp_by_std["cxx20"][k]})

    lap("C++ runs")
    # ---------------- (3) constant evaluation ----------------
    sa = ["#include <sbepp/sbepp.hpp>"]
    for t in compilable:
        if t.header:
            sa.append("#include <%s>" % t.header)
    nsa = 0
    by_type = {}
    for i, c in enumerate(cases):
        by_type.setdefault(c[0], []).append(i)
    per_type = 60 if thorough else 25
    for tid, idxs in sorted(by_type.items()):
        t = by_id[tid]
        pick = []
        cand = []
        for i in idxs:
            _, l, r = cases[i]
            if t.prim in FP:
                le, re_ = fp_const_expr(t.prim, l), fp_const_expr(t.prim, r)
            else:
                le, re_ = int_const_expr(t.prim, l), int_const_expr(t.prim, r)
            if le and re_:
                cand.append((i, le, re_))
        r2 = rng.fork("sa" + tid)
        r2.shuffle(cand)
        pick = cand[:per_type]
        T = t.cpp
        if t.opt:
            sa.append("static_assert(!%s{}.has_value(), \"default %s\");" % (T, tid))
            sa.append("static_assert(!%s{::sbepp::nullopt}.has_value(), \"nullopt %s\");" % (T, tid))
            sa.append("static_assert(%s{} == %s{::sbepp::nullopt}, \"nulleq %s\");" % (T, T, tid))
            nsa += 3
        for (i, le, re_) in pick:
            _, l, r = cases[i]
            tag = "%s %d %d" % (tid, l, r)
            for stdk, guard in (("pre20", "#if !SBEPP_HAS_THREE_WAY_COMPARISON"), ("cxx20", "#if SBEPP_HAS_THREE_WAY_COMPARISON")):
                ek = parse_kv(exp_by_std[stdk][i])
                sa.append(guard)
                if t.prim in FP and t.opt:
                    sa.append("#ifndef C16_NO_FP_ORDER")
                ops = ek["ops"]
                for op, bit in zip(("==", "!=", "<", "<=", ">", ">="), ops):
                    sa.append("static_assert((%s{%s} %s %s{%s}) == %s, \"op%s %s\");"
                              % (T, le, op, T, re_, "true" if bit == "1" else "false", op, tag))
                    nsa += 1
                if t.prim in FP and t.opt:
                    sa.append("#endif")
                sa.append("#endif")
            ek = parse_kv(exp_by_std["pre20"][i])
            sa.append("static_assert(%s{%s}.in_range() == %s, \"in_range %s\");"
                      % (T, le, "true" if ek["ir"] == "1" else "false", tag))
            nsa += 1
            if t.opt:
                sa.append("static_assert(%s{%s}.has_value() == %s, \"has_value %s\");"
                          % (T, le, "true" if ek["hv"] == "1" else "false", tag))
                sa.append("static_assert(static_cast<bool>(%s{%s}) == %s, \"bool %s\");"
                          % (T, le, "true" if ek["bo"] == "1" else "false", tag))
                nsa += 2
                vo = int(ek["vo"])
                voe = fp_const_expr(t.prim, vo) if t.prim in FP else int_const_expr(t.prim, vo)
                isnan = t.prim in FP and "quiet_NaN" in (voe or "")
                if voe and not isnan and not (t.prim in FP and vo in (0, 1 << (31 if t.prim == "float" else 63))):
                    sa.append("#if __cplusplus >= 201402L")
                    sa.append("static_assert(%s{%s}.value_or(%s) == %s, \"value_or %s\");" % (T, le, re_, voe, tag))
                    sa.append("#endif")
                    nsa += 1
    sa.append("int main(){}")
    td = tmpdir()
    try:
        src = os.path.join(td, "c16_constexpr.cpp")
        open(src, "w").write("\n".join(sa))
        stds = ["c++11", "c++17", "c++20"] if not thorough else ["c++11", "c++14", "c++17", "c++20", "c++23"]
        for cxx in (["g++"] if not thorough else ["g++", "clang++"]):
            for std in stds:
                if cxx == "clang++" and std == "c++23":
                    std = "c++2b"
                defs = ("C16_NO_FP_ORDER",) if (is20(std) and not fp_order.get(cxx, True)) else ()
                rc, err = compile_cpp(src, None, std=std, cxx=cxx, includes=(inc,), defines=defs, syntax_only=True,
                                      flags=("-ftemplate-depth=2000",))
                res.count(("constexpr", cxx, std, nsa))
                res.evaluations += nsa - 1
                if rc != 0:
                    found = True
                    m = re.search(r"static assertion failed: (\S+) (\S+) (-?\d+) (-?\d+)", err) or \
                        re.search(r"static_assert failed[^\"]*\"(\S+) (\S+) (-?\d+) (-?\d+)\"", err) or \
                        re.search(r"static assertion failed[^:]*: (\S+) (\S+)()()", err)
                    if m and m.group(2) in by_id:
                        t = by_id[m.group(2)]
                        sig = "constexpr:%s:%s:%s" % ("opt" if t.opt else "req", "fp" if t.prim in FP else "int",
                                                      re.sub(r"[^a-z_]", "", m.group(1)) or "op")
                        what = "constant evaluation disagrees with the model: %s on %s (%s -std=%s)" % (
                            m.group(0)[:120], t.cpp, cxx, std)
                        rep = {"cases": [[m.group(2), int(m.group(3)), int(m.group(4))]] if m.group(3) else [],
                               "assertion": m.group(0), "config": [cxx, std], "stderr": err[-2000:]}
                    else:
                        sig = "constexpr:compile"
                        what = "static_assert block does not compile (%s -std=%s): %s" % (
                            cxx, std, (re.search(r"error: .*", err) or [""])[0][:200])
                        rep = {"config": [cxx, std], "stderr": err[-3000:], "no_failing_input": False,
                               "source_head": "\n".join(sa[:60])}
                    res.violation(sig, what, rep)
    finally:
        shutil.rmtree(td, ignore_errors=True)
    lap("static_assert block (%d)" % nsa)
    res.extra["static_asserts"] = nsa
    res.extra["types"] = {"builtin": 22, "generated": len(gen_types), "in_harness": len(compilable)}
    res.extra["runtime_cases_per_configuration"] = len(cases)

    if not ok_proof:
        proof_failure_violation(res, found)
    return res.finish(trusted=[
        "Fp.v: IEEE-754 comparison decoded from bit patterns (cross-checked against Flocq Bcompare in "
        "FpFlocqCheck_C16.v and against the hardware/compiler on the whole boundary cross product)",
        "char is a signed 8-bit type, float/double are IEEE-754 binary32/64, little-endian (x86-64 SysV)",
        "OptLit.v: C++ literal typing/narrowing rules for the fragment sbeppc prints; decimal floating literals "
        "are outside the model (expected values of explicit decimal float attributes come from Python float())",
        "regex extraction of `return {...};` from generated headers; harness cpp/c16_harness.cpp",
        "extraction: ExtrOcamlBasic only; ocaml/drv_c16.ml text<->ascii list and decimal<->Z conversion"])
