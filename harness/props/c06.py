"""C06 — size_bytes_checked is safe and exact on untrusted buffers."""
from common import *
from msgcheck import *

NOASSERT = ("SBEPP_DISABLE_ASSERTS",)
KINDS = {"1": "field-beyond-wire-block", "2": "data-length-prefix", "3": "dimension"}


def header_fields(lay, v, hdr_pos=0):
    """(absolute offset, width, current value name) of every blockLength / numInGroup / data length in
    the image described by value tree v (positions computed here from encoder lengths: harness oracle only)"""
    out = []
    W = {"u8": 1, "u16": 2, "u32": 4, "u64": 8}

    def enc_len(lv, val):
        n = len(val["block"])
        for g, gv in zip(lv["groups"], val["groups"]):
            n += g["dim"] + sum(enc_len(g["level"], e) for e in gv["entries"])
        for t, d in zip(lv["data"], val["data"]):
            n += W[t] + len(d)
        return n

    def walk(lv, val, pos):
        p = pos + len(val["block"])
        for g, gv in zip(lv["groups"], val["groups"]):
            out.append((p + g["bl"][0], W[g["bl"][1]], "group.blockLength"))
            out.append((p + g["n"][0], W[g["n"][1]], "group.numInGroup"))
            q = p + g["dim"]
            for e in gv["entries"]:
                walk(g["level"], e, q)
                q += enc_len(g["level"], e)
            p = q
        for t, d in zip(lv["data"], val["data"]):
            out.append((p, W[t], "data.length"))
            p += W[t] + len(d)

    out.append((hdr_pos + lay["bl"][0], W[lay["bl"][1]], "message.blockLength"))
    walk(lay["level"], v, hdr_pos + lay["hdr"])
    return out


def work_factor(lv):
    """WorkSpec.cl_members: callbacks one instance of every level can cost"""
    return len(lv["fields"]) + len(lv["data"]) + sum(2 + work_factor(g["level"]) for g in lv["groups"])


def run(res, replay=None):
    rng = SplitMix64(res.seed + 6)
    res.rule = ("random accepted schemas x reference-encoder images (compiled and inflated block lengths) x (a) every "
                "truncation point n = 0..len, (b) every blockLength / numInGroup / data length field overwritten with "
                "0, value-1, value+1, a value that just fits / just exceeds the buffer, and the type maximum, alone and "
                "combined with truncation; the buffer ends on a PROT_NONE page, assertions are disabled. Judged against "
                "the property: no fault / no read at offset >= n (model trace), valid=true with the exact size iff the "
                "described structure fits (Checked.described_fit), work (callbacks) <= (W+1)(n+1) with W = WorkSpec.cl_members of the schema (the bound proved in WorkProofs.v). Non-trivial = buffer "
                "with at least one group or data member reached.")
    ok_proof = proof_step(res)
    model = Model()
    found = False
    nschemas = 5 if res.tier == "quick" else 30
    nimgs = 3 if res.tier == "quick" else 10
    cfgs = [("g++", "c++11", ("-O1",), NOASSERT), ("g++", "c++20", ("-O2",), NOASSERT)]
    if res.tier == "thorough":
        cfgs += [("clang++", "c++17", ("-O1",), NOASSERT)]
    res.extra["configurations"] = ["%s -std=%s -DSBEPP_DISABLE_ASSERTS" % (c[0], c[1]) for c in cfgs]
    cases = prepare_many(res.seed, nschemas, cfgs)
    cases.append(prepare_fixed(edge_schema(), cfgs))
    dist = {"valid": 0, "invalid": 0, "oob": 0, "truncations": 0, "overwrites": 0}
    for ci, mc in enumerate(cases):
        if mc.error:
            kind, msg = mc.error
            res.violation(kind, "schema preparation failed: " + msg[-400:],
                          {"schema_xml": mc.xml, "error": msg[-3000:], "no_failing_input": True,
                           "correspondence": "T1 generated driver (asserts disabled)"})
            continue
        s = mc.s
        trng = rng.fork("c06-%d" % ci)
        lays = [parse_layout(x) for x in model.run([model_msg_line(s, m) for m in s.messages])]
        meta = []
        for m, lay in zip(s.messages, lays):
            for ti in range(nimgs):
                inflate = ti % 2 == 1
                wbl = lay["cbl"] + (trng.choice([0, 1, 7]) if inflate else 0)
                if wbl >= (1 << TBITS[lay["bl"][1]]):
                    wbl = lay["cbl"]
                v = gen_vlevel(trng, lay["level"], wbl, inflate, 0, (0, 1, 2, 3))
                hdrbg = bytes(trng.below(256) for _ in range(lay["hdr"]))
                meta.append((m, lay, v, hdrbg))
        enc_lines = []
        for (m, lay, v, hdrbg) in meta:
            enc_lines += [model_msg_line(s, m), "encv %s %s" % (hx(hdrbg), " ".join(vtree_tokens(v)))]
        eout = model.run(enc_lines)
        mlines, ilines, jobs = [], [], []
        for i, (m, lay, v, hdrbg) in enumerate(meta):
            img = bytes.fromhex(eout[2 * i + 1]) if eout[2 * i + 1] != "-" else b""
            if len(img) > 1500:
                continue
            bufs = []
            for n in range(len(img) + 1):
                bufs.append(("trunc", img[:n]))
            dist["truncations"] += len(img) + 1
            for (off, w, what) in header_fields(lay, v):
                cur = int.from_bytes(img[off:off + w], "big" if s.big_endian else "little")
                tmax = (1 << (8 * w)) - 1
                cands = {0, max(0, cur - 1), min(tmax, cur + 1), tmax, min(tmax, len(img)), min(tmax, max(0, len(img) - off))}
                for val in sorted(cands):
                    if val == cur:
                        continue
                    mod = bytearray(img)
                    mod[off:off + w] = val.to_bytes(w, "big" if s.big_endian else "little")
                    bufs.append(("overwrite:%s=%d" % (what, val), bytes(mod)))
                    if trng.chance(1, 3) and len(img) > 2:
                        cut = trng.below(len(img))
                        bufs.append(("overwrite+trunc:%s=%d" % (what, val), bytes(mod[:cut])))
                    # structures that end exactly at the buffer end: right after the message header and
                    # right after the overwritten dimension / length field's header
                    for cut in sorted({lay["hdr"]} | {off + w + k for k in range(9)}):
                        if val in (0, 1) and cut <= len(img):
                            bufs.append(("overwrite+cut:%s=%d@%d" % (what, val, cut), bytes(mod[:cut])))
                    dist["overwrites"] += 1
            for kind, b in bufs:
                jobs.append((m, kind, b, len(mlines), len(ilines)))
                mlines += [model_msg_line(s, m), "buf " + hx(b), "sbc 20000", "fit"]
                ilines += ["use " + m.name, "buf " + hx(b), "sbc"]
        mout = model.run(mlines)
        for (cxx, std), exe in mc.exes.items():
            rc, iout, err = run_impl(exe, ilines)
            if rc != 0 or len(iout) != len(ilines):
                found = True
                res.violation("driver-crash", "generated driver crashed (%s %s): %s" % (cxx, std, err[-300:]),
                              {"schema_xml": mc.xml, "stderr": err[-2000:]})
                continue
            for (m, kind, b, mo, io) in jobs:
                M = mout[mo + 2].split()
                F = mout[mo + 3].split()
                I = iout[io + 2].split()
                n = len(b)
                res.count((s.package, m.name, hx(b), cxx, std), M[0] != "invalid" or n > 12)
                dist[M[0]] = dist.get(M[0], 0) + 1
                base = {"schema_xml": mc.xml, "message": m.name, "buffer": hx(b), "n": n, "case": kind,
                        "model": " ".join(M), "spec": " ".join(F), "observed": " ".join(I), "config": [cxx, std]}
                steps = int([x for x in M if x.startswith("steps=")][0][6:]) if any(x.startswith("steps=") for x in M) else 0
                if I[0] == "TIMEOUT" or M[0] == "fuel":
                    found |= res.violation("work:unbounded-iterations",
                                           "size_bytes_checked(view, %d) iterates numInGroup times over zero-length entries: "
                                           "work is not bounded by n (model: %s; implementation: %s) [%s]"
                                           % (n, " ".join(M), " ".join(I), kind), base)
                    continue
                if I[0] == "FAULT" or M[0] == "oob":
                    k = dict(x.split("=") for x in M[2:]).get("kind", "?") if M[0] == "oob" else "?"
                    found |= res.violation("oob-read:%s" % KINDS.get(k, "unmodelled"),
                                           "size_bytes_checked(view, %d) reads a byte at offset >= %d (%s; implementation: %s) [%s]"
                                           % (n, n, " ".join(M), " ".join(I), kind), base)
                    if M[0] != "oob":
                        found |= res.violation("fault-unmodelled", "implementation faults where the model does not: " + kind, base)
                    continue
                wf_ = work_factor(lays[s.messages.index(m)]["level"]) + 1
                if steps > wf_ * (n + 1):
                    found |= res.violation("work:unbounded", "size_bytes_checked did %d callbacks on a %d-byte buffer, proven bound "
                                           "(WorkProofs.checked_work_bound) is %d*(n+1) [%s]" % (steps, n, wf_, kind), base)
                # exactness against the specification
                exp = "valid " + F[1] if F[0] == "fits" else "invalid"
                got = " ".join(I[:2]) if I[0] == "valid" else I[0]
                mod = " ".join(M[:2]) if M[0] == "valid" else M[0]
                if got != exp:
                    cls = "accepts" if I[0] == "valid" else "rejects"
                    mm = re.search(r"data\.length=(\d+)", kind)
                    if cls == "accepts" and mm and int(mm.group(1)) >= 2 ** 64 - 8:
                        cls = "accepts:data-length-wraps-size_t"
                    found |= res.violation("inexact:%s" % cls,
                                           "size_bytes_checked(view, %d) = %s but the described structure %s [%s]"
                                           % (n, got, "fits with size " + F[1] if F[0] == "fits" else "does not fit", kind), base)
                elif mod != got:
                    found |= res.violation("impl-vs-model", "implementation %s, model %s [%s]" % (got, mod, kind), base)
        if jobs:
            res.sample({"schema": s.package, "message": jobs[-1][0].name, "case": jobs[-1][1], "n": len(jobs[-1][2])})

    # deterministic probes (corpus): the recorded findings and the repaired work bound
    ps = Schema("hs_work", big_endian=False, sid=9)
    ps.add(TypeDef("messageHeader", "composite", members=[TypeDef(n, "type", prim="uint16") for n in ("blockLength", "templateId", "schemaId", "version")]))
    ps.add(TypeDef("dim", "composite", members=[TypeDef("blockLength", "type", prim="uint16"), TypeDef("numInGroup", "type", prim="uint16")]))
    ps.add(TypeDef("vd", "composite", members=[TypeDef("length", "type", prim="uint32"), TypeDef("varData", "type", prim="uint8", length=0)]))
    mw = Message("W", 1)
    mw.groups.append(Group("g", 2, "dim"))
    md = Message("D", 2)
    md.data.append(Data("d", 3, "vd"))
    mf = Message("F", 3)
    mf.fields.append(Field("x", 1, "uint32"))
    ps.messages += [mw, md, mf]
    probes = [(mw, bytes(8) + (0).to_bytes(2, "little") + (65535).to_bytes(2, "little"), "work"),
              (md, bytes(8), "data-prefix"), (mf, bytes(8), "short-block")]
    out = model.run(sum([[model_msg_line(ps, m_), "buf " + hx(b_), "sbc 70000"] for m_, b_, _ in probes], []))
    for i, (m_, b_, what) in enumerate(probes):
        r = out[3 * i + 2]
        res.count(("probe", what, hx(b_)))
        st = int(r.split("steps=")[1]) if "steps=" in r else 0
        base = {"schema_xml": schema_to_xml(ps), "message": m_.name, "buffer": hx(b_), "model": r}
        if r.startswith("oob"):
            k = dict(x.split("=") for x in r.split()[2:]).get("kind", "?")
            found |= res.violation("oob-read:%s" % KINDS.get(k, "unmodelled"),
                                   "probe %s: size_bytes_checked(view, %d) reads a byte at offset >= %d (%s)" % (what, len(b_), len(b_), r), base)
        elif r == "fuel" or st > 4 * (len(b_) + 1):
            found |= res.violation("work:unbounded-iterations",
                                   "probe %s: a %d-byte buffer costs %s callbacks" % (what, len(b_), r), base)
    # ---- sizes beyond 2^31 / 2^32: the entries of a flat group are never touched, so the claimed length n can be
    # far larger than the bytes that exist (the real buffer ends right after the dimension, on the guard page: any read
    # beyond it faults).  Expected verdict from exact integer arithmetic (= Checked.described_fit for this shape).
    import c05
    bs = c05.pairs_schema()
    bc = prepare_fixed(bs, cfgs[:2])
    if bc.error:
        res.violation("driver-build:big-n", "large-n probe: " + bc.error[1][-300:], {"no_failing_input": True, "correspondence": "T1 probe"})
    else:
        W = {"u8": 1, "u16": 2, "u32": 4, "u64": 8}
        il, meta = [], []
        for m_ in bs.messages:
            _, nt, bt = m_.name.split("_")
            for (ng, bl) in ((40000, 60000), (65535, 65535), (65536, 65536), (3, 2 ** 31), (2 ** 31, 3), (2 ** 32 - 1, 2), (1, 2 ** 32),
                             (255, 255), (2, 2 ** 33), (2 ** 20, 2 ** 20)):
                if ng > c05.TMAX[nt] or bl > c05.TMAX[bt]:
                    continue
                exact = 8 + W[bt] + W[nt] + ng * bl
                if exact >= 2 ** 63:
                    continue
                buf = bytes(8) + bl.to_bytes(W[bt], "little") + ng.to_bytes(W[nt], "little")
                for n in (exact, exact - 1, exact + 7, 8 + W[bt] + W[nt]):
                    il += ["use " + m_.name, "buf " + hx(buf), "sbcn %d" % n]
                    meta.append((m_.name, ng, bl, n, exact))
        for (cxx, std), exe in bc.exes.items():
            rc, io, err = run_impl(exe, il)
            if rc != 0 or len(io) != len(il):
                found = True
                res.violation("driver-crash:big-n", "large-n probe driver crashed (%s %s): %s" % (cxx, std, err[-300:]), {"stderr": err[-1500:]})
                continue
            for i, (mn, ng, bl, n, exact) in enumerate(meta):
                got = io[3 * i + 2]
                want = ("valid %d" % exact) if exact <= n else "invalid"
                res.count(("big-n", mn, ng, bl, n, cxx, std), ng * bl >= 2 ** 31)
                if got != want:
                    found = True
                    res.violation("inexact:large-size:%s" % ("accepts" if got.startswith("valid") else "rejects"),
                                  "size_bytes_checked(%s with numInGroup=%d blockLength=%d, n=%d) = %s, expected %s (%s -std=%s)"
                                  % (mn, ng, bl, n, got, want, cxx, std),
                                  {"schema_xml": bc.xml, "message": mn, "numInGroup": ng, "blockLength": bl, "n": n, "observed": got, "expected": want})
    res.extra["outcome_distribution_model"] = dist
    if not ok_proof:
        proof_failure_violation(res, found)
    return res.finish(trusted=[
        "Checked.v hand-written model of size_bytes_checked_visitor + generated visit chains (asserts disabled), tied by differential runs",
        "guard page placement (cpp/harness_util.hpp) as the observer of reads beyond n",
        "harness/msggen.py, harness/msgdrv.py; extraction: ExtrOcamlBasic only"])
