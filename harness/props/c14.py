"""C14 — fixed-length arrays: assignment, padding and string length are exact.

Correspondence for sbepp::detail::static_array_ref<Byte, Value, N, tag>
(assign_string x2, assign_range, assign x3, fill, strlen, strlen_r):

  * run time: the extracted Coq model (coq/StaticArray.v), the extracted
    specification functions and the real header are run on the same memory
    image (guard byte, array, three guard bytes; the image ends on a PROT_NONE
    page) -- exhaustive for N <= 4 over {NUL,'a','b'}, random for N = 5, 16;
  * constant evaluation (C++20): a generated static_assert block;
  * other Value types (uint8_t, int8_t): compile probe + the same run-time
    protocol on a sample.
"""
import itertools
import os
import re
from common import *

ALPHA = (0, 0x61, 0x62)
PRE = (0x78,)                     # 'x'
POST = (0x79, 0x7A, 0x77)         # 'y' 'z' 'w'
N_EXH = (0, 1, 2, 3, 4)
N_RND = (5, 16)
MODES = ("n", "s", "a")
ILISTS = ((), (0x61,), (0x61, 0x62), (0x61, 0, 0x62), (0x62,) * 4, (0x61, 0x62, 0x61, 0x62, 0x61))
LITS = ((), (0x61,), (0x61, 0x62), (0x62, 0x61, 0x62), (0x61, 0x62, 0x61, 0x62),
        (0x61, 0x62, 0, 0x62, 0x61), (0x61, 0x62, 0x61, 0x62, 0x61))
RANGE_VARS = ("s", "v", "l", "sv")
ITER_VARS = ("p", "v", "l")


def hx(bs):
    return "".join("%02x" % b for b in bs) if bs else "-"


def case_line(c, impl="cur"):
    opv, checks, mem, off, vend, n, args = c
    return "c14 %s %s %d %s %d %d %d %s" % (impl, opv, checks, mem, off, vend, n, " ".join(args))


def family(opv):
    return opv.split(".")[0]


def needs_cpp17(c):
    return c[0].endswith(".sv")


class Gen:
    """case generator; [full] = every container variant for every input"""

    def __init__(self, rng, full):
        self.rng = rng
        self.full = full
        self.cases = []
        self.k = 0

    def variants(self, vs):
        if self.full:
            return vs
        self.k += 1
        return (vs[self.k % len(vs)],)

    def add(self, opv, content, args, checks=1, post=POST, vend=None, pre=PRE):
        n = len(content)
        off = len(pre)
        self.cases.append((opv, checks, hx(pre + tuple(content) + tuple(post)), off,
                           off + n if vend is None else vend, n, tuple(args)))

    def inputs(self, n):
        for k in range(n + 1):
            for inp in itertools.product(ALPHA, repeat=k):
                yield inp

    def for_content(self, content, inputs, wide_view=False):
        n = len(content)
        vend = len(PRE) + n + (len(POST) if wide_view else 0)
        for inp in inputs:
            # raw pointer: the char object is inp followed by a terminator
            for m in MODES:
                self.add("asp.p", content, (m, hx(inp + (0,))), vend=vend)
                for v in self.variants(RANGE_VARS):
                    self.add("asr." + v, content, (m, hx(inp)), vend=vend)
            for v in self.variants(RANGE_VARS):
                self.add("ar." + v, content, (hx(inp),), vend=vend)
            for v in self.variants(ITER_VARS):
                self.add("ai." + v, content, (hx(inp),), vend=vend)
        for cnt in range(n + 2):          # n + 1 is over-long: assertion before any write
            for val in ALPHA:
                self.add("ac", content, (str(cnt), str(val)), vend=vend)
        for val in ALPHA + (0x7F,):
            self.add("fill", content, (str(val),), vend=vend)
        self.add("len", content, ("0",), vend=vend)
        self.add("len", content, ("0",), post=(0, 0x61, 0), vend=vend)
        for i, il in enumerate(ILISTS):   # longer than N: assertion before any write
            self.add("il.%d" % i, content, (hx(il),), vend=vend)
        for i, lit in enumerate(LITS):
            for m in MODES:
                self.add("asp.lit%d" % i, content, (m, hx(lit + (0,))), vend=vend)
        self.add("asp.pd", content, ("a", hx((0x62,) * min(n, 2) + (0,))), vend=vend)
        self.add("asr.sd", content, ("a", hx((0x62,) * min(n, 2))), vend=vend)

    def precondition_violations(self, content):
        n = len(content)
        # over-long: N+1 .. N+3 fit the guard bytes, N+4 runs off the buffer
        for extra in (1, 2, 3, 4):
            inp = tuple(self.rng.choice((0x61, 0x62, 0x63)) for _ in range(n + extra))
            withnul = tuple(self.rng.choice(ALPHA) for _ in range(n + extra))
            self.add("asp.p", content, (self.rng.choice(MODES), hx(inp + (0,))))
            for r in (inp, withnul):
                for v in RANGE_VARS:
                    self.add("ar." + v, content, (hx(r),))
                    self.add("asr." + v, content, (self.rng.choice(MODES), hx(r)))
                for v in ITER_VARS:
                    self.add("ai." + v, content, (hx(r),))
        self.add("asp.p", content, ("a", "null"))
        # view shorter than N (and, for N = 0 .. the degenerate end-before-begin view,
        # which passes the size check because the difference is converted to size_t)
        off = len(PRE)
        vends = {off + n - 1, off, off - 1} if n else {off - 1}
        for vend in sorted(vends):
            some = tuple(self.rng.choice((0x61, 0x62)) for _ in range(self.rng.below(n + 1)))
            self.add("asp.p", content, ("a", hx(some + (0,))), vend=vend)
            self.add("asr.s", content, ("s", hx(some)), vend=vend)
            self.add("ar.v", content, (hx(some),), vend=vend)
            self.add("ai.p", content, (hx(some),), vend=vend)
            self.add("il.1", content, (hx(ILISTS[1]),), vend=vend)
            self.add("ac", content, (str(len(some)), "97"), vend=vend)
            self.add("fill", content, ("98",), vend=vend)
            self.add("len", content, ("0",), vend=vend)


def gen_cases(rng, tier):
    thorough = tier == "thorough"
    g = Gen(rng, thorough)
    for n in N_EXH:
        contents = list(itertools.product(ALPHA, repeat=n))
        for ci, content in enumerate(contents):
            g.for_content(content, list(g.inputs(n)), wide_view=(ci % 5 == 4))
        for content in contents[:: max(1, len(contents) // 9)]:
            g.precondition_violations(content)
    for n in N_RND:
        for _ in range(1200 if thorough else 250):
            content = tuple(rng.choice(ALPHA) if rng.chance(2, 3) else rng.below(256) for _ in range(n))
            inputs = []
            for k in sorted({0, 1, n - 1, n, rng.below(n + 1), rng.below(n + 1)}):
                inputs.append(tuple(rng.choice(ALPHA) if rng.chance(3, 4) else 1 + rng.below(255)
                                    for _ in range(k)))
            g.for_content(content, inputs, wide_view=rng.chance(1, 4))
        for _ in range(12):
            g.precondition_violations(tuple(rng.choice(ALPHA) for _ in range(n)))
    return g.cases


def classify(c, spec):
    if spec != "n/a":
        return "inpre"
    opv, checks, mem, off, vend, n, args = c
    if vend < off + n:
        return "shortview"
    if args and args[-1] == "null":
        return "nullptr"
    return "overlong"


# ---------------------------------------------------------------------------
# constant evaluation
# ---------------------------------------------------------------------------

CX_PRELUDE = r'''
#include <sbepp/sbepp.hpp>
#include <string_view>
struct tag{};
template<std::size_t L> struct mem_t { char b[L]; std::size_t ret; };
template<std::size_t N, std::size_t L>
constexpr sbepp::detail::static_array_ref<char, char, N, tag> view(mem_t<L>& m, std::size_t off, std::size_t vend)
{ return {m.b + off, m.b + vend}; }
template<std::size_t L> constexpr mem_t<L> load(const char (&m)[L])
{ mem_t<L> r{}; for(std::size_t i = 0; i != L; i++) r.b[i] = m[i]; return r; }
template<std::size_t L> constexpr bool same(const mem_t<L>& r, const char (&e)[L], std::size_t ret)
{ for(std::size_t i = 0; i != L; i++) if(r.b[i] != e[i]) return false; return r.ret == ret; }
template<std::size_t N, std::size_t L> constexpr std::size_t cx_strlen(const char (&m)[L], std::size_t off, std::size_t vend)
{ auto r = load(m); return view<N>(r, off, vend).strlen(); }
template<std::size_t N, std::size_t L> constexpr std::size_t cx_strlen_r(const char (&m)[L], std::size_t off, std::size_t vend)
{ auto r = load(m); return view<N>(r, off, vend).strlen_r(); }
template<std::size_t N, std::size_t L> constexpr mem_t<L> cx_asp(const char (&m)[L], std::size_t off, std::size_t vend, const char* s, sbepp::eos_null mode)
{ auto r = load(m); r.ret = view<N>(r, off, vend).assign_string(s, mode) - r.b; return r; }
template<std::size_t N, std::size_t L> constexpr mem_t<L> cx_asr(const char (&m)[L], std::size_t off, std::size_t vend, std::string_view s, sbepp::eos_null mode)
{ auto r = load(m); r.ret = view<N>(r, off, vend).assign_string(s, mode) - r.b; return r; }
template<std::size_t N, std::size_t L> constexpr mem_t<L> cx_ar(const char (&m)[L], std::size_t off, std::size_t vend, std::string_view s)
{ auto r = load(m); r.ret = view<N>(r, off, vend).assign_range(s) - r.b; return r; }
template<std::size_t N, std::size_t L> constexpr mem_t<L> cx_ai(const char (&m)[L], std::size_t off, std::size_t vend, std::string_view s)
{ auto r = load(m); r.ret = view<N>(r, off, vend).assign(s.data(), s.data() + s.size()) - r.b; return r; }
template<std::size_t N, std::size_t L> constexpr mem_t<L> cx_ac(const char (&m)[L], std::size_t off, std::size_t vend, std::size_t count, char v)
{ auto r = load(m); r.ret = view<N>(r, off, vend).assign(count, v) - r.b; return r; }
template<std::size_t N, std::size_t L> constexpr mem_t<L> cx_fill(const char (&m)[L], std::size_t off, std::size_t vend, char v)
{ auto r = load(m); view<N>(r, off, vend).fill(v); r.ret = 0; return r; }
'''

CX_MODE = {"n": "sbepp::eos_null::none", "s": "sbepp::eos_null::single", "a": "sbepp::eos_null::all"}


def c_arr(name, hexs):
    bs = [] if hexs == "-" else [int(hexs[i:i + 2], 16) for i in range(0, len(hexs), 2)]
    return "constexpr char %s[] = {%s};" % (name, ", ".join("'\\x%02x'" % b for b in bs))


def gen_cx_cases(rng, tier):
    """(opv, 1, mem, off, vend, N, args) like the run-time cases; len carries ce = 1"""
    g = Gen(rng, False)
    out = []
    posts = ((0x79, 0x7A, 0x77), (0x61, 0x62, 0), (0,), ())
    for n in (0, 1, 2, 3):
        for content in itertools.product(ALPHA, repeat=n):
            for post in posts:
                g.cases = []
                g.add("len", content, ("1",), post=post)
                out += g.cases
    for n in (4, 5):
        for _ in range(12 if tier == "quick" else 60):
            content = tuple(rng.choice(ALPHA) for _ in range(n))
            if rng.chance(1, 3):
                content = tuple(rng.choice((0x61, 0x62)) for _ in range(n))
            g.cases = []
            g.add("len", content, ("1",), post=rng.choice(posts))
            out += g.cases
    for _ in range(60 if tier == "quick" else 400):
        n = rng.choice((0, 1, 2, 3, 4, 5))
        content = tuple(rng.choice(ALPHA) for _ in range(n))
        inp = tuple(rng.choice(ALPHA) for _ in range(rng.below(n + 1)))
        m = rng.choice(MODES)
        g.cases = []
        g.add("asp.p", content, (m, hx(inp + (0,))))
        g.add("asr.sv", content, (m, hx(inp)))
        g.add("ar.sv", content, (hx(inp),))
        g.add("ai.p", content, (hx(inp),))
        g.add("ac", content, (str(rng.below(n + 1)), str(rng.choice(ALPHA))))
        g.add("fill", content, (str(rng.choice(ALPHA)),))
        out += g.cases
    return out


def cx_source(cases, expect):
    """expect[i] = parsed spec answer (dict) of case i"""
    src = [CX_PRELUDE]
    for i, (c, e) in enumerate(zip(cases, expect)):
        opv, _, mem, off, vend, n, args = c
        op = family(opv)
        src.append(c_arr("M_%d" % i, mem))
        if op == "len":
            src.append('static_assert(cx_strlen<%d>(M_%d, %d, %d) == %s, "c14cx strlen %d");'
                       % (n, i, off, vend, e["strlen"], i))
            src.append('static_assert(cx_strlen_r<%d>(M_%d, %d, %d) == %s, "c14cx strlen_r %d");'
                       % (n, i, off, vend, e["strlen_r"], i))
            continue
        src.append(c_arr("E_%d" % i, e["mem"]))
        ret = "0" if e["ret"] == "-" else e["ret"]
        if op in ("asp", "asr"):
            s = args[1]
            ln = 0 if s == "-" else len(s) // 2
            src.append(c_arr("S_%d" % i, s if s != "-" else "00"))
            a = ("S_%d" % i) if op == "asp" else ("std::string_view{S_%d, %d}" % (i, ln))
            call = "cx_%s<%d>(M_%d, %d, %d, %s, %s)" % (op, n, i, off, vend, a, CX_MODE[args[0]])
        elif op in ("ar", "ai"):
            s = args[0]
            ln = 0 if s == "-" else len(s) // 2
            src.append(c_arr("S_%d" % i, s if s != "-" else "00"))
            call = "cx_%s<%d>(M_%d, %d, %d, std::string_view{S_%d, %d})" % (op, n, i, off, vend, i, ln)
        elif op == "ac":
            call = "cx_ac<%d>(M_%d, %d, %d, %s, '\\x%02x')" % (n, i, off, vend, args[0], int(args[1]))
        else:
            call = "cx_fill<%d>(M_%d, %d, %d, '\\x%02x')" % (n, i, off, vend, int(args[0]))
        src.append('static_assert(same(%s, E_%d, %s), "c14cx %s %d");' % (call, i, ret, op, i))
    src.append("int main(){}")
    return "\n".join(src)


VALTYPE_PROBE = '''#include <sbepp/sbepp.hpp>
#include <cstdint>
struct tag{};
std::size_t probe(sbepp::detail::static_array_ref<char, %s, 4, tag> a)
{
    return a.strlen() + a.strlen_r();
}
int main(){}
'''


def parse_answer(s):
    return dict(x.split("=", 1) for x in s.split())


def run(res, replay=None):
    rng = SplitMix64(res.seed)
    res.rule = ("static_array_ref<char,char,N,tag>, memory = guard 'x' + array + guards 'y' 'z' 'w' ending on a "
                "PROT_NONE page. N in 0..4: every array content over {NUL,a,b} x every input over the same alphabet "
                "of length 0..N x 3 eos modes x overload families (const char*, ranges string/vector/list/"
                "string_view, iterator pairs pointer/vector/list, 6 initializer lists, 7 string literals), "
                "assign(count,value) for count 0..N+1, fill, strlen, strlen_r; N = 5, 16 random contents/inputs. "
                "Observables: whole memory image incl. guards, returned iterator offset, strlen, strlen_r, "
                "assertion-handler flag, memory fault. Precondition violations (input N+1..N+4, null pointer, view "
                "shorter than N) are compared with the model (assert before / after the copy, fault). Quick tier "
                "rotates the container variant per input, thorough runs every variant. Constant evaluation: "
                "static_assert block (C++20). Value types uint8_t/int8_t: compile probe + sample. A case is "
                "non-trivial when distinct by (overload, memory image, view, N, arguments, configuration).")
    ok_proof = proof_step(res)
    model = Model()
    found = False
    thorough = res.tier == "thorough"

    cases = gen_cases(rng, res.tier)
    cx_cases = gen_cx_cases(rng.fork("cx"), res.tier)
    probes = ["std::uint8_t", "std::int8_t"]
    if replay:
        cases = [tuple(c[:6]) + (tuple(c[6]),) for c in replay.get("cases", [])]
        cx_cases = [tuple(c[:6]) + (tuple(c[6]),) for c in replay.get("cx", [])]
        probes = replay.get("probes", [])

    # ---- model and specification -------------------------------------------------
    cur = model.run([case_line(c, "cur") for c in cases])
    spec = model.run([case_line(c, "spec") for c in cases])
    expected = []
    for c, m, s in zip(cases, cur, spec):
        if s != "n/a" and m != s:
            found = True
            res.violation("model-vs-spec:%s" % family(c[0]), "model of the current code disagrees with the "
                          "specification function (a proved theorem!): %s model=%s spec=%s" % (case_line(c), m, s),
                          {"cases": [list(c)], "expected": s, "observed_model": m})
        expected.append(s if s != "n/a" else m)
    nclass = {}
    for c, s in zip(cases, spec):
        k = classify(c, s)
        nclass[k] = nclass.get(k, 0) + 1
    res.extra["runtime_cases_by_class"] = nclass
    res.extra["runtime_cases_by_N"] = {str(n): sum(1 for c in cases if c[5] == n) for n in N_EXH + N_RND}

    # ---- run-time correspondence --------------------------------------------------
    ASSERTS = ("SBEPP_ENABLE_ASSERTS_WITH_HANDLER",)
    configs = [("g++", "c++11", ("-O1",), ASSERTS, 1, 1),
               ("g++", "c++20", ("-O2",), ASSERTS, 1, 1),
               ("g++", "c++17", ("-O1", "-fsanitize=undefined", "-fno-sanitize-recover=all"), ASSERTS, 1, 1),
               ("g++", "c++17", ("-O2",), ("SBEPP_DISABLE_ASSERTS",), 0, 3)]
    if thorough:
        configs += [("clang++", s, ("-O1",), ASSERTS, 1, 1) for s in ("c++11", "c++14", "c++17", "c++20")] + \
                   [("g++", s, ("-O1",), ASSERTS, 1, 1) for s in ("c++14", "c++23")] + \
                   [("clang++", "c++20", ("-O2",), ("SBEPP_DISABLE_ASSERTS",), 0, 1),
                    ("g++", "c++17", ("-O1",), ASSERTS + ("C14_BYTE=unsigned char",), 1, 5)]
    res.extra["configurations"] = ["%s -std=%s %s %s" % (c, s, " ".join(f), " ".join("-D" + d for d in defs))
                                   for c, s, f, defs, _, _ in configs]
    src = os.path.join(VERIF, "cpp/c14_harness.cpp")

    def run_config(name, cxx, std, flags, defs, checks, stride, what):
        nonlocal found
        try:
            exe = cached_cpp(name, src, std=std, cxx=cxx, flags=flags, defines=defs)
        except BuildError as e:
            res.violation("harness-build:%s:%s" % (cxx, std), "C14 harness no longer builds against /repo (%s)" % what,
                          {"no_failing_input": True, "correspondence": "c14_harness.cpp", "error": str(e)[-3000:]})
            return
        sel = []
        for i, c in enumerate(cases):
            if std in ("c++11", "c++14") and needs_cpp17(c):
                continue
            if checks == 0 and spec[i] == "n/a":
                continue            # without assertions a violated precondition is plain UB
            if stride > 1 and i % stride and not replay:
                continue
            sel.append(i)
        if not sel:
            return
        rc, got, err = run_lines(exe, [case_line(cases[i]) for i in sel])
        if len(got) < len(sel):
            i = sel[min(len(got), len(sel) - 1)]
            found = True
            res.violation("crash:%s:N%d" % (family(cases[i][0]), cases[i][5]),
                          "harness died (rc=%d) at %s (%s -std=%s): %s" % (rc, case_line(cases[i]), cxx, std, err[-300:]),
                          {"cases": [list(cases[i])], "config": [cxx, std, list(flags), list(defs)], "stderr": err[-2000:]})
            return
        for i, g in zip(sel, got):
            c = cases[i]
            res.count((what, cxx, std, flags, defs) + c)
            e = expected[i]
            if g != e:
                found = True
                res.violation("%s:%s:N%d:%s" % (what, family(c[0]), c[5], classify(c, spec[i])),
                              "%s: expected %s, got %s (%s -std=%s %s)" % (case_line(c), e, g, cxx, std, " ".join(defs)),
                              {"cases": [list(c)], "expected": e, "observed": g,
                               "config": [cxx, std, list(flags), list(defs)]})

    if cases:
        for cxx, std, flags, defs, checks, stride in configs:
            run_config("c14_harness", cxx, std, flags, defs, checks, stride, "rt")
        res.sample({"case": case_line(cases[len(cases) // 2]), "expected": expected[len(cases) // 2]})
        res.sample({"case": case_line(cases[-1]), "expected": expected[-1]})
        for want in ("overlong", "shortview"):
            for c, s, e in zip(cases, spec, expected):
                if classify(c, s) == want and e.startswith("res=assert") and family(c[0]) in ("ar", "fill"):
                    res.sample({"case": case_line(c), "expected": e, "class": want})
                    break

    # ---- other Value types: strlen()/strlen_r() must at least compile ---------------
    td = tmpdir()
    try:
        for vt in probes:
            text = VALTYPE_PROBE % vt
            p = os.path.join(td, "c14_valtype.cpp")
            open(p, "w").write(text)
            okv = True
            for std in (("c++11", "c++20") if not thorough else ("c++11", "c++14", "c++17", "c++20")):
                rc, err = compile_cpp(p, None, std=std, includes=(), syntax_only=True)
                res.count(("valtype-compile", vt, std))
                if rc != 0:
                    okv = False
                    found = True
                    res.violation("valtype-compile:%s" % vt.replace("std::", "").replace(" ", "_"),
                                  "static_array_ref<char, %s, 4, tag>::strlen() does not compile (-std=%s): %s"
                                  % (vt, std, " ".join(err.split("\n")[0:6])[-600:]),
                                  {"probes": [vt], "source": text, "stderr": err[-2500:], "config": ["g++", std]})
                    break
            if okv and cases:
                defs = ("SBEPP_ENABLE_ASSERTS_WITH_HANDLER", "C14_VALUE=" + vt)
                run_config("c14_harness", "g++", "c++17", ("-O1",), defs, 1, 1 if replay else 4, "rt-" + vt.replace("std::", ""))
    finally:
        shutil.rmtree(td, ignore_errors=True)

    # ---- constant evaluation ---------------------------------------------------------
    if cx_cases:
        cx_cur = model.run([case_line(c, "cur") for c in cx_cases])
        cx_spec = model.run([case_line(c, "spec") for c in cx_cases])
        for c, m, s in zip(cx_cases, cx_cur, cx_spec):
            if m != s:
                found = True
                res.violation("model-vs-spec:cx:%s" % family(c[0]), "constant-evaluation model disagrees with the "
                              "specification: %s model=%s spec=%s" % (case_line(c), m, s),
                              {"cx": [list(c)], "expected": s, "observed_model": m})
        text = cx_source(cx_cases, [parse_answer(s) for s in cx_spec])
        td = tmpdir()
        try:
            p = os.path.join(td, "c14_constexpr.cpp")
            open(p, "w").write(text)
            for cxx, std in ([("g++", "c++20")] if not thorough else
                             [("g++", "c++20"), ("g++", "c++23"), ("clang++", "c++20")]):
                rc, err = compile_cpp(p, None, std=std, cxx=cxx, syntax_only=True)
                for c in cx_cases:
                    res.count(("cx", cxx, std) + c)
                if rc == 0:
                    continue
                found = True
                ids = []
                for m in re.finditer(r"c14cx (\w+) (\d+)|\bM_(\d+)\b", err):
                    k = int(m.group(2) or m.group(3))
                    if k not in ids:
                        ids.append(k)
                if not ids:
                    res.violation("cx:compile", "constant-evaluation block does not compile (%s -std=%s): %s"
                                  % (cxx, std, err[-400:]),
                                  {"no_failing_input": True, "stderr": err[-3000:], "config": [cxx, std]})
                    continue
                k = ids[0]
                c = cx_cases[k]
                m = re.search(r"[^\n]*(c14cx \w+ %d\b|M_%d\b)[^\n]*" % (k, k), err)
                res.violation("cx:%s:N%d" % (family(c[0]), c[5]),
                              "constant evaluation disagrees with the specification for %s: expected %s "
                              "(%d static_asserts failing; %s -std=%s): %s"
                              % (case_line(c), cx_spec[k], len(ids), cxx, std, (m.group(0) if m else "")[-300:]),
                              {"cx": [list(c)], "expected": cx_spec[k], "failing_case_ids": ids[:40],
                               "legacy_model_predicts": model.run([case_line(c, "legacy")])[0],
                               "source": cx_source([c], [parse_answer(cx_spec[k])]),
                               "stderr": err[:3000], "config": [cxx, std]})
            res.sample({"constexpr_case": case_line(cx_cases[0]), "expected": cx_spec[0]})
        finally:
            shutil.rmtree(td, ignore_errors=True)
        res.extra["constexpr_static_asserts"] = text.count("static_assert(")

    if not ok_proof:
        proof_failure_violation(res, found)
    return res.finish(trusted=[
        "StaticArray.v: std::copy/copy_n/ranges::copy/fill/fill_n/memchr/find_if/strlen modelled as the obvious "
        "element loops over a list (libstdc++ not verified); pointers are offsets into one list",
        "size_t(end - begin) of SBEPP_SIZE_CHECK modelled without a 2^64 bound (equals the U64 cast on every "
        "ptrdiff_t, lemma size_t_of_ptrdiff_is_ccast)",
        "correspondence harness cpp/c14_harness.cpp (guard page, assertion handler via siglongjmp)",
        "extraction: ExtrOcamlBasic only; ocaml/drv_c14.ml hex/decimal conversion and the cut of memory into "
        "pre/array/post for the spec answers"])
