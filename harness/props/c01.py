"""C01 — encoding writes exactly the SBE wire image of the schema."""
from common import *
from msgcheck import *

ASSERT_DEF = ("SBEPP_ENABLE_ASSERTS_WITH_HANDLER",)


def configs_for(tier):
    # the second compiler is part of the quick tier too: the byte-swap / bit_cast paths are selected by compiler and
    # language standard
    cf = [("g++", "c++11", ("-O1",), ASSERT_DEF), ("g++", "c++20", ("-O1",), ASSERT_DEF),
          ("clang++", "c++14", ("-O1",), ASSERT_DEF)]
    if tier == "thorough":
        cf += [("g++", "c++14", ("-O1",), ASSERT_DEF), ("g++", "c++17", ("-O2",), ASSERT_DEF),
               ("g++", "c++23", ("-O1",), ASSERT_DEF),
               ("clang++", "c++11", ("-O1",), ASSERT_DEF), ("clang++", "c++17", ("-O1",), ASSERT_DEF),
               ("clang++", "c++20", ("-O1",), ASSERT_DEF)]
    return cf


def run(res, replay=None):
    rng = SplitMix64(res.seed)
    res.rule = ("random accepted schemas (all primitive types, both byte orders, custom offsets/blockLengths, "
                "refs/inline composites/constants, groups nested <= 3, every unsigned header/dimension/length type, "
                "permuted/offset/ref-typed header members) x random value trees; the in-order setter script is run on "
                "a random background buffer by /repo's generated code and by the model; the final bytes must equal "
                "Wire.over_message (reference encoder) and the model's. Non-trivial = distinct (schema,message,tree) "
                "with at least one group entry or data payload.")
    ok_proof = proof_step(res)
    model = Model()
    found = False
    nschemas = 6 if res.tier == "quick" else 40
    ntrees = 8 if res.tier == "quick" else 30
    cfgs = configs_for(res.tier)
    res.extra["configurations"] = ["%s -std=%s" % (c[0], c[1]) for c in cfgs]
    cases = prepare_many(res.seed, nschemas, cfgs)
    # fixed edge schemas: constant-only / member-less levels, narrow-count dimensions, nested composites with offsets
    cases.append(prepare_fixed(edge_schema(), cfgs))
    dist = {}
    for ci, mc in enumerate(cases):
        for k, v in mc.stats.items():
            dist[k] = dist.get(k, 0) + v
        if mc.error:
            kind, msg = mc.error
            if kind == "sbeppc-rejected":
                # the generator only produces valid schemas; the Coq layout model accepts it => disagreement
                found = True
                res.violation("schema-rejected", "sbeppc rejects a schema the layout model accepts: " + msg[-300:],
                              {"schema_xml": mc.xml, "stdout": msg[-2000:]})
            else:
                res.violation(kind, "generated driver does not build: " + msg[-600:],
                              {"schema_xml": mc.xml, "error": msg[-4000:], "no_failing_input": True,
                               "correspondence": "T1 generated driver"})
            continue
        s = mc.s
        trng = rng.fork("trees%d" % ci)
        # pass 1: sizes
        jobs = []
        for m in s.messages:
            for ti in range(ntrees):
                t = gen_tree(trng, s, m)
                jobs.append((m, t))
        size_lines = []
        for m, t in jobs:
            size_lines.append(model_msg_line(s, m))
            size_lines.append("oversize %s %s" % ("00" * 6000, " ".join(tree_tokens(t))))
        out = model.run(size_lines)
        mlines, ilines, meta = [], [], []
        for ji, (m, t) in enumerate(jobs):
            if not out[2 * ji].startswith("ok"):
                found = True
                res.violation("model-rejects", "layout model rejects a schema sbeppc accepts",
                              {"schema_xml": mc.xml, "message": m.name, "model": out[2 * ji]})
                continue
            size = int(out[2 * ji + 1])
            if size > 5000:
                continue
            pad = trng.choice([0, 0, 1, 7, 64])
            bg = bytes(trng.below(256) for _ in range(size + pad))
            script = ["fillhdr"] + encode_script(trng, t)
            ml = [model_msg_line(s, m), "buf " + hx(bg)] + script + ["dump", "over %s %s" % (hx(bg), " ".join(tree_tokens(t)))]
            il = ["use " + m.name, "buf " + hx(bg)] + script + ["dump"]
            meta.append((m, t, bg, script, len(mlines), len(ml), len(ilines), len(il)))
            mlines += ml
            ilines += il
        mout = model.run(mlines)
        for (cxx, std), exe in mc.exes.items():
            rc, iout, err = run_impl(exe, ilines)
            if rc != 0 or len(iout) != len(ilines):
                found = True
                res.violation("driver-crash", "generated driver crashed (%s %s): %s" % (cxx, std, err[-300:]),
                              {"schema_xml": mc.xml, "stderr": err[-2000:], "lines": ilines[:50]})
                continue
            for (m, t, bg, script, mo, mn, io, in_) in meta:
                mres = mout[mo:mo + mn]
                ires = iout[io:io + in_]
                spec = mres[-1]
                mdump = mres[-2]
                idump = ires[-1]
                nontriv = any(t["groups"]) or any(t["data"])
                res.count((mc.s.package, m.name, script[:40].__str__(), hx(bg)[:32], cxx, std), nontriv)
                bad = None
                if mdump != spec:
                    bad = ("model-vs-spec", "runtime model's final buffer differs from the Wire.over_message image")
                elif idump != spec:
                    bad = ("impl-vs-spec", "encoded bytes differ from the SBE image (%s -std=%s)" % (cxx, std))
                else:
                    for a, b2, op in zip(mres[2:-2], ires[2:-1], script):
                        if a != b2:
                            bad = ("op-result", "op `%s`: model %s, implementation %s" % (op, a, b2))
                            break
                if bad:
                    found = True
                    # first differing byte
                    diff = next((i for i in range(0, min(len(idump), len(spec)), 2) if idump[i:i + 2] != spec[i:i + 2]), None)
                    res.violation("%s:%s" % (bad[0], "be" if s.big_endian else "le"), bad[1],
                                  {"schema_xml": mc.xml, "message": m.name, "background": hx(bg), "script": script,
                                   "expected_image": spec, "observed": idump, "model_rt": mdump,
                                   "first_diff_byte": None if diff is None else diff // 2,
                                   "config": [cxx, std]})
        if meta:
            m, t, bg, script = meta[0][:4]
            res.sample({"schema": s.package, "message": m.name, "byte_order": "big" if s.big_endian else "little",
                        "script": script[:12], "image_bytes": len(bg)})
    res.extra["input_distribution"] = dist
    res.extra["schemas"] = len(cases)
    if not ok_proof:
        proof_failure_violation(res, found)
    return res.finish(trusted=[
        "Msg.v/Layout.v/Wire.v hand-written model of sbepp.hpp navigation and sbeppc layout, tied by differential runs",
        "harness/msggen.py (schema generator, XML renderer), harness/msgdrv.py (C++ driver generator), cpp/msg_harness.hpp",
        "extraction: ExtrOcamlBasic only; ocaml/drv_msg.ml token parser"])
