"""C04 — cursor access is equivalent to random access and tracks position."""
from common import *
from msgcheck import *
import c01

CUR_DEF = ("SBEPP_ENABLE_ASSERTS_WITH_HANDLER", "MSGDRV_CURSOR")
VISIT_DEF = ("SBEPP_ENABLE_ASSERTS_WITH_HANDLER", "MSGDRV_CURSOR", "MSGDRV_BYTAG")
WR = "pinms"


# release-style build: size checks compiled out (the library has separate code for this configuration in the cursor
# range iterators); only call sequences the model runs without a report are executed there
NOASSERT_KEY = ("g++", "c++14")


def configs_for(tier):
    cf = [("g++", "c++11", ("-O1",), CUR_DEF), ("g++", "c++20", ("-O1",), CUR_DEF),
          ("g++", "c++14", ("-O1",), ("SBEPP_DISABLE_ASSERTS", "MSGDRV_CURSOR"))]
    if tier == "thorough":
        cf += [("g++", "c++17", ("-O2",), CUR_DEF), ("clang++", "c++14", ("-O1",), CUR_DEF),
               ("clang++", "c++20", ("-O1",), CUR_DEF)]
    return cf


def level_views(s, lv, v, path="."):
    """(path, level, value) for the root and every entry"""
    out = [(path, lv, v)]
    for gi, g in enumerate(lv.groups):
        for ei, e in enumerate(v["groups"][gi]["entries"]):
            sub = ("%d:%d" % (gi, ei)) if path == "." else (path + "/%d:%d" % (gi, ei))
            out += level_views(s, g, e, sub)
    return out


def member_ops(s, lv):
    ops = []
    for k, f in enumerate(msgdrv.nonconst_fields(s, lv)):
        r = s.resolve(f.type_name)
        ops.append(("f%d" % k, r[1] if r[0] == "S" else "v"))
    for k in range(len(lv.groups)):
        ops.append(("g%d" % k, None))
    for k in range(len(lv.data)):
        ops.append(("d%d" % k, None))
    return ops


def gen_sequence(rng, mops, maxlen):
    """mostly-forward sequences with occasional repeats/jumps; wrapper per call"""
    if not mops:
        return []
    seq = []
    i = rng.below(len(mops)) if rng.chance(1, 4) else 0
    n = 1 + rng.below(maxlen)
    for _ in range(n):
        if i >= len(mops):
            break
        name, prim = mops[i]
        w = rng.choice(WR) if rng.chance(1, 2) else "p"
        seq.append("%s%s%s" % (name, w, (":" + prim) if prim else ""))
        k = rng.below(10)
        if k < 6:
            i += 1            # next member
        elif k < 8:
            pass              # same member again (legal after dont_move, illegal after plain)
        elif k < 9:
            i += 2            # skip one (illegal for plain on fields unless offsets allow)
        else:
            i = rng.below(len(mops))
    return seq


def expected_names(s, lv, v):
    out = []
    for f in msgdrv.nonconst_fields(s, lv):
        out.append(f.name)
    for gi, g in enumerate(lv.groups):
        out.append(g.name)
        for e in v["groups"][gi]["entries"]:
            out += expected_names(s, g, e)
    for d in lv.data:
        out.append(d.name)
    return out


def run(res, replay=None, visit_only=False):
    rng = SplitMix64(res.seed + 4)
    res.rule = ("random accepted schemas x reference-encoder images (block lengths inflated per level) x "
                "(a) complete visit/cursor traversal: event list (member order, values/addresses, entry addresses) and "
                "final cursor must equal the model's, whose end is the image size; (b) per level view (root and every "
                "entry) random sequences of (member, wrapper in {plain,init,init_dont_move,dont_move,skip}) calls from "
                "init or an arbitrary cursor offset: every call's value/address, the cursor after it, and whether the "
                "assertion handler fired must equal the model's. Non-trivial = sequence with >= 2 calls or traversal of "
                "an image with entries.")
    ok_proof = proof_step(res)
    model = Model()
    found = False
    nschemas = 5 if res.tier == "quick" else 30
    nimgs = 4 if res.tier == "quick" else 12
    nseq = 14 if res.tier == "quick" else 40
    cfgs = configs_for(res.tier)
    if visit_only:
        cfgs = [(c[0], c[1], c[2], VISIT_DEF if "SBEPP_DISABLE_ASSERTS" not in c[3] else c[3] + ("MSGDRV_BYTAG",)) for c in cfgs]
    res.extra["configurations"] = ["%s -std=%s" % (c[0], c[1]) for c in cfgs]
    cases = prepare_many(res.seed, nschemas, cfgs)
    if visit_only:
        cases.append(prepare_fixed(composites_schema(), cfgs))
    cases.append(prepare_fixed(edge_schema(), cfgs))
    outcome_dist = {"ok": 0, "assert": 0, "oob": 0}
    for ci, mc in enumerate(cases):
        if mc.error:
            kind, msg = mc.error
            res.violation(kind, "schema preparation failed: " + msg[-400:],
                          {"schema_xml": mc.xml, "error": msg[-3000:], "no_failing_input": True,
                           "correspondence": "T1 generated driver (cursor)"})
            continue
        s = mc.s
        trng = rng.fork("img%d" % ci)
        lays = [parse_layout(x) for x in model.run([model_msg_line(s, m) for m in s.messages])]
        meta = []
        for m, lay in zip(s.messages, lays):
            for ti in range(nimgs):
                wbl = lay["cbl"] + trng.choice([0, 0, 1, 7])
                if wbl >= (1 << TBITS[lay["bl"][1]]):
                    wbl = lay["cbl"]
                v = gen_vlevel(trng, lay["level"], wbl, True, 0, (0, 1, 2, 2, 3))
                hdrbg = bytes(trng.below(256) for _ in range(lay["hdr"]))
                pre = bytes(trng.below(256) for _ in range(trng.choice([0, 5, 16])))
                post = bytes(trng.below(256) for _ in range(trng.choice([0, 2, 24])))
                meta.append((m, lay, v, hdrbg, pre, post))
        enc_lines = []
        for (m, lay, v, hdrbg, pre, post) in meta:
            enc_lines += [model_msg_line(s, m), "encv %s %s" % (hx(hdrbg), " ".join(vtree_tokens(v)))]
        eout = model.run(enc_lines)
        mlines, ilines, jobs = [], [], []
        for i, (m, lay, v, hdrbg, pre, post) in enumerate(meta):
            img = bytes.fromhex(eout[2 * i + 1]) if eout[2 * i + 1] != "-" else b""
            if len(img) > 6000:
                continue
            buf = pre + img + post
            script = ["base %d" % len(pre), "ctrav"]
            cvexp = {}
            if not visit_only:
                for (path, lv, val) in level_views(s, m, v)[:12]:
                    mops = member_ops(s, lv)
                    for _ in range(nseq if path == "." else 3):
                        seq = gen_sequence(trng, mops, 7)
                        if not seq:
                            continue
                        k = trng.below(10)
                        if k < 6:
                            start = "init"
                        else:
                            start = str(trng.below(max(1, len(img))))
                        script.append("cur %s %s %s" % (path, start, " ".join(seq)))
            if visit_only:
                # get_by_tag<Tag>(view, cursor) must behave exactly like the named cursor accessor: the same call
                # sequences through both ("curt" = by tag), judged against the same model result
                for (path, lv, val) in level_views(s, m, v)[:6]:
                    mops = member_ops(s, lv)
                    for _ in range(4 if path == "." else 2):
                        seq = gen_sequence(trng, mops, 7)
                        if not seq:
                            continue
                        start = "init" if trng.below(10) < 7 else str(trng.below(max(1, len(img))))
                        script.append("cur %s %s %s" % (path, start, " ".join(seq)))
                        script.append("curt %s %s %s" % (path, start, " ".join(seq)))
            crexp = {}
            if not visit_only:
                # cursor_range / cursor_subrange(pos[, count]) over the groups of the root and of the first entries
                for (path, lv, val) in level_views(s, m, v)[:4]:
                    for gi, g in enumerate(lv.groups):
                        n = len(val["groups"][gi]["entries"])
                        base_idx = len(script)
                        script.append("ginfo %s %d" % (path, gi))
                        script.append("gsize %s %d" % (path, gi))
                        for i in range(n):
                            sub = ("%d:%d" % (gi, i)) if path == "." else (path + "/%d:%d" % (gi, i))
                            script.append("epos %s" % sub)
                        reqs = [("r", None, None)]
                        for pos in sorted({0, n - 1, trng.below(max(1, n))}):
                            if 0 <= pos < n:
                                reqs.append(("s", pos, None))
                                for cnt in sorted({0, 1, n - pos}):
                                    reqs.append(("s", pos, cnt))
                        for (mode, pos, cnt) in reqs:
                            line = "crange %s %d %s" % (path, gi, mode) + ("" if pos is None else " %d" % pos) + ("" if cnt is None else " %d" % cnt)
                            script.append(line)
                            crexp[len(script) - 1] = (base_idx, n, pos if pos is not None else 0,
                                                      (n - (pos or 0)) if cnt is None else cnt)
            if visit_only:
                nev = len(expected_names(s, m, v)) + sum(1 for _ in level_views(s, m, v)) - 1
                ks = list(range(0, nev + 2)) if nev <= 30 else sorted(set([0, 1, 2, nev - 1, nev, nev + 1] + [trng.below(nev) for _ in range(24)]))
                for k in ks:
                    script.append("ctrav %d" % k)
                # composite views: visit_children reports the non-constant direct members in order,
                # and stops at the k-th callback
                for (path, lv, val) in level_views(s, m, v)[:6]:
                    for k, f in enumerate(msgdrv.nonconst_fields(s, lv)):
                        if s.resolve(f.type_name)[0] == "C":
                            kinds = composite_visit_kinds(s, f.type_name)
                            script.append("cvisit %s %d" % (path, k))
                            cvexp[len(script) - 1] = kinds
                            for kk in range(0, len(kinds.replace("-", "")) + 1):
                                script.append("cvisit %s %d %d" % (path, k, kk))
                                cvexp[len(script) - 1] = kinds.replace("-", "")[:kk] or "-"
                # by-tag access must behave exactly like the named accessors
                for op in decode_script(s, m, vtree_as_tree(v)):
                    w = op.split()
                    if w[0] in ("getf", "getb", "ginfo", "dinfo"):
                        script.append(op)
                        script.append(" ".join([{"getf": "getft", "getb": "getbt", "ginfo": "ginfot", "dinfo": "dinfot"}[w[0]]] + w[1:]))
                # visiting a set yields every declared choice, in schema order, with its own bit (name-based visit_set
                # and tag-based sbepp::visit alike; the driver flags a difference between the two)
                import c02
                for (cop, gop, choices) in c02.set_choice_ops(s, m, vtree_as_tree(v)):
                    if gop in script:
                        script.append(cop)
                        crexp[len(script) - 1] = (script.index(gop), choices)
            names = expected_names(s, m, v)
            jobs.append((m, v, buf, script, len(img), names, len(mlines), len(ilines), cvexp, crexp))
            mlines += [model_msg_line(s, m), "buf " + hx(buf)] + [(x.replace("curt ", "cur ", 1) if x.startswith("curt ") else x) if not x.startswith(("cvisit", "getfc")) else "use x" for x in script]
            ilines += ["use " + m.name, "buf " + hx(buf)] + script
        mout = model.run(mlines)
        for (cxx, std), exe in mc.exes.items():
            noassert = (cxx, std) == NOASSERT_KEY
            skip = set()
            il = ilines
            if noassert:
                # without size checks a misplaced call is undefined behaviour: run only what the model runs cleanly
                il = list(ilines)
                for (m, v, buf, script, imglen, names, mo, io, cvexp, crexp) in jobs:
                    for j, op in enumerate(script):
                        a = mout[mo + 2 + j]
                        if j and ("ASSERT" in a or "OOB" in a) and not op.startswith("cvisit"):
                            il[io + 2 + j] = "size"
                            skip.add(io + 2 + j)
            rc, iout, err = run_impl(exe, il)
            if rc != 0 or len(iout) != len(ilines):
                found = True
                res.violation("driver-crash", "generated driver crashed (%s %s): %s" % (cxx, std, err[-300:]),
                              {"schema_xml": mc.xml, "stderr": err[-2000:]})
                continue
            for (m, v, buf, script, imglen, names, mo, io, cvexp, crexp) in jobs:
                for j, op in enumerate(script):
                    if j == 0 or (io + 2 + j) in skip:
                        continue
                    a = mout[mo + 2 + j]
                    b2 = iout[io + 2 + j]
                    nontriv = (len(op.split()) > 4) if op.startswith("cur") else bool(names)
                    res.count((s.package, m.name, hx(buf)[:40], op, cxx, std), nontriv)
                    bad = None
                    if op.startswith("crange"):
                        bi, n, pos, cnt = crexp[j]
                        gi_ = dict(x.split("=") for x in mout[mo + 2 + bi].split())
                        gend = int(gi_["pos"]) + int(mout[mo + 2 + bi + 1])
                        eaddr = [int(mout[mo + 2 + bi + 2 + i].split("=")[1]) for i in range(n)]
                        fin = eaddr[pos + cnt] if pos + cnt < n else gend
                        if cnt == 0:
                            fin = eaddr[pos] if pos < n else gend
                        want = "n=%d " % cnt + "".join("E@%d " % a_ for a_ in eaddr[pos:pos + cnt]) + "c=%d" % fin
                        if b2 != want:
                            bad = ("cursor-range", "`%s`: entries/cursor `%s`, expected `%s` (random-access entry addresses)" % (op, b2, want))
                        elif a != b2:
                            bad = ("cursor-range-model", "`%s`: implementation `%s`, CursorRange model `%s`" % (op, b2, a))
                    elif op.startswith("getfc"):
                        gi_, choices = crexp[j]
                        raw = int(mout[mo + 2 + gi_]) & ((1 << 64) - 1)
                        want = ",".join("%s:%d" % (n_, (raw >> i_) & 1) for n_, i_ in choices)
                        outcome_dist["set_visits"] = outcome_dist.get("set_visits", 0) + 1
                        if len(choices) > 1 and [n_ for n_, _ in choices] != sorted(n_ for n_, _ in choices):
                            outcome_dist["set_visits_unsorted_names"] = outcome_dist.get("set_visits_unsorted_names", 0) + 1
                        if b2 != want:
                            bad = ("set-visit", "`%s`: visiting the set reported `%s`, the declared choices with their bits "
                                   "are `%s`" % (op, b2[:200], want[:200]))
                    elif op.startswith("cvisit"):
                        if b2 != cvexp[j]:
                            bad = ("composite-visit", "`%s`: visit_children of the composite reported members `%s`, the schema's "
                                   "non-constant members are `%s`" % (op, b2, cvexp[j]))
                    elif op.startswith("ctrav "):
                        k = int(op.split()[1])
                        full = mout[mo + 2 + 1]
                        full = full[:full.rfind("c=")].split() if "c=" in full else full.split()
                        want = " ".join(full[:k])
                        got = b2.partition(" | ")[0]
                        got = got[:got.rfind("c=")].strip() if "c=" in got else got
                        ms = a[:a.rfind("c=")].strip() if "c=" in a else a.replace("STOP", "").strip()
                        if got.strip() != want.strip():
                            bad = ("visit-stop", "stop at callback %d: events `%s`, expected exactly the first %d: `%s`" % (k, got[-160:], k, want[-160:]))
                        elif ms != got.strip():
                            bad = ("visit-stop-model", "stop at callback %d: implementation `%s`, CursorStop model `%s`" % (k, got[-160:], ms[-160:]))
                        elif ("STOP" in a) != (k < len(full)):
                            bad = ("visit-stop-model", "stop at callback %d of %d: model outcome `%s`" % (k, len(full), a[-60:]))
                    elif op.split()[0] in ("getft", "getbt", "ginfot", "dinfot"):
                        named = iout[io + 2 + j - 1]
                        if b2 != named:
                            bad = ("by-tag", "`%s` returned %s but the named accessor returned %s" % (op, b2, named))
                    elif op.split()[0] in ("getf", "getb", "ginfo", "dinfo"):
                        if a != b2:
                            bad = ("getter", "`%s`: implementation %s, model %s" % (op, b2, a))
                    elif op == "ctrav":
                        ev, _, nm = b2.partition(" | ")
                        if a in ("ASSERT", "OOB"):
                            bad = ("model-traversal", "model traversal of a well-formed image ends in " + a)
                        elif ev != a:
                            bad = ("traversal", "visit/cursor traversal differs: implementation `%s`, model `%s`" % (ev[-120:], a[-120:]))
                        elif not a.endswith("c=%d" % (int(script[0].split()[1]) * 0 + imglen)):
                            bad = ("traverse-end", "cursor after a complete traversal is not at the message end (%d): %s" % (imglen, a[-30:]))
                        elif [x for x in nm.split(",") if x] != names:
                            bad = ("visit-tags", "visited member tags differ from schema order: %s vs %s" % (nm[:200], names[:20]))
                    else:
                        if "ASSERT" in a:
                            outcome_dist["assert"] += 1
                        elif "OOB" in a:
                            outcome_dist["oob"] += 1
                        else:
                            outcome_dist["ok"] += 1
                        # a memory fault / assert on the implementation where the model reads out of bounds
                        an = a.replace(":OOB", ":X").replace("#OOB", "#X")
                        bn = b2.replace(":FAULT", ":X").replace("#OOB", "#X")
                        if an != bn:
                            bad = ("cursor-seq", "`%s`: implementation `%s`, model `%s` (%s -std=%s)" % (op, b2, a, cxx, std))
                    if bad:
                        found = True
                        res.violation("%s:%s" % (bad[0], "be" if s.big_endian else "le"), bad[1],
                                      {"schema_xml": mc.xml, "message": m.name, "buffer": hx(buf),
                                       "script": [script[0], op], "model": a, "observed": b2, "config": [cxx, std]})
                        break
        if jobs:
            m, v, buf, script = jobs[0][:4]
            res.sample({"schema": s.package, "message": m.name, "script": script[:6]})
    if visit_only:
        import c19enum
        found |= c19enum.run_enum_part(res, model)
    res.extra["sequence_outcomes_model"] = outcome_dist
    if not ok_proof:
        proof_failure_violation(res, found)
    return res.finish(trusted=[
        "Cursor.v/Msg.v/Layout.v hand-written model, tied by differential runs",
        "harness/msggen.py, harness/msgdrv.py, cpp/msg_harness.hpp; extraction: ExtrOcamlBasic only"])
