"""C18 — traits and tags mirror the schema (partial: the derived traits are
proved about the model, the copy-through traits are decided by this
correspondence alone)."""
import concurrent.futures
import os
import re
from common import *
import namegen
import touchgen


def viol(res, sig, what, replay):
    seen = res.extra.setdefault("_seen_signatures", [])
    if sig in seen:
        return False
    seen.append(sig)
    return res.violation(sig, what, replay)


def derive(model, s):
    """everything the Coq model says about the schema: sizes, offsets, block
    lengths, presences, tag kinds"""
    lines = ["c18enc " + " ".join(namegen.traits_enc_tokens(s, t)) for t in s.types.values()]
    lines += ["c18msg M %s %s %s" % (m.name, namegen._o(m.block_length), " ".join(namegen.traits_level_tokens(s, m)))
              for m in s.messages]
    ttoks = [str(len(s.types))]
    for t in s.types.values():
        ttoks += namegen.traits_enc_tokens(s, t)
    ttoks.append(str(len(s.messages)))
    for m in s.messages:
        ttoks += ["M", m.name, namegen._o(m.block_length)] + namegen.traits_level_tokens(s, m)
    lines.append("c18tags " + " ".join(ttoks))
    out = model.run(lines)
    d = {"enc": {}, "lvl": {}, "fld": {}, "kinds": {}}
    nt = len(s.types)
    for o in out[:nt]:
        if o.startswith("ERR"):
            raise RuntimeError("model: " + o)
        for item in o.split(" ; "):
            k, sz, off = item.split()
            d["enc"][k] = (sz.split("=")[1], off.split("=")[1])
    for o in out[nt:-1]:
        if o.startswith("ERR"):
            raise RuntimeError("model: " + o)
        for item in o.split(" ; "):
            parts = item.split()
            key = "msg:" + parts[0]
            if parts[1].startswith("bl="):
                d["lvl"][key] = parts[1].split("=")[1]
            else:
                d["fld"][key] = (parts[1].split("=")[1], parts[2].split("=")[1])
    if out[-1].startswith("ERR"):
        raise RuntimeError("model: " + out[-1])
    for item in out[-1].split(" ; "):
        path, bits = item.split()
        d["kinds"][path] = bits
    return d


def build_and_run(job):
    src, inc, cxx, std, exe = job
    rc, err = compile_cpp(src, exe, std=std, cxx=cxx, includes=(inc,), flags=("-O0",), timeout=900)
    if rc != 0:
        return job, "compile", err
    rc, out, err2 = sh([exe], timeout=120)
    if rc != 0:
        return job, "run", err2
    return job, "ok", out


def compare(res, src_text, xml, cfg, got, want, found_box):
    gl = [l for l in got.split("\n") if l]
    if len(gl) != len(want):
        found_box[0] = True
        viol(res, "dump:line-count", "trait dump has %d lines, expected %d (%s)" % (len(gl), len(want), cfg),
             {"schema_xml": xml, "config": cfg, "got_tail": gl[-5:], "want_tail": want[-5:],
              "dump_source": src_text[:400000], "expected_lines": want})
        return
    for g, w in zip(gl, want):
        key, trait = w.split()[0], w.split()[1]
        res.count((xml, key, trait, cfg), nontrivial=(cfg == "g++ c++11"))
        ok = g == w
        if not ok and trait == "type_tags" and g.split()[:2] == w.split()[:2]:
            # documented as unordered
            ok = sorted(g.split(" l:", 1)[1].split(",")) == sorted(w.split(" l:", 1)[1].split(","))
        if not ok:
            found_box[0] = True
            derived = trait in ("offset", "size_bytes", "block_length", "presence", "kinds") or trait.endswith("_tags")
            viol(res, "trait:%s:%s" % ("derived" if derived else "copy", trait),
                 "trait %s of %s: /repo reports `%s`, expected `%s` (%s)" % (trait, key, g, w, cfg),
                 {"schema_xml": xml, "entity": key, "trait": trait, "observed": g, "expected": w, "config": cfg,
                  "dump_source": src_text[:400000], "expected_lines": want})


def sentinel_schema():
    """texts that compile whatever the generator does with them but are easy to
    get wrong: a backslash that starts a valid escape, values with a leading
    zero made of octal digits"""
    s = namegen.S("sent", desc="tab\\there \\a\\101", semver="1.0\\x41")
    s.add(namegen.T("messageHeader", "composite", members=[namegen.T(n, "type", prim="uint16") for n in
                                                           ("blockLength", "templateId", "schemaId", "version")]))
    s.add(namegen.T("oct8", "type", prim="uint8", minv="010", maxv="0177", desc="C:\\new\\table"))
    s.add(namegen.T("oct64", "type", prim="int64", presence="optional", minv="-017", maxv="017", nullv="-0"))
    s.add(namegen.T("e", "enum", prim="uint16", values=[namegen.V("ten", "010", "\\v"), namegen.V("one", "01")]))
    # control characters directly followed by octal digits (variable-width octal escapes would swallow the digit)
    s.add(namegen.T("ctl", "type", prim="uint8", desc="one of:\n1 = Buy\n2 = Sell", semtype="tab\t7"))
    s.add(namegen.T("ctl2", "enum", prim="uint8", values=[namegen.V("a", "1", "\x7f0"), namegen.V("b", "2", "\x017")], desc="\r3"))
    m = namegen.M("M", 1, desc="\\60")
    m.fields.append(namegen.F("a", 1, "oct8", desc="\\n"))
    s.messages.append(m)
    return s


def boundary_schema():
    """numeric copy-through traits at the limits of their C++ types: message ids beyond 16 bits (message_id_t is
    32 bit while member_id_t is 16 bit), member ids at 65535, schema id at 2^32-1, versions / since / deprecated
    beyond 32 bits (version_t is 64 bit), an explicit blockLength, an offset and an array length beyond 32 bits"""
    T, F, G, D, M, V = namegen.T, namegen.F, namegen.G, namegen.D, namegen.M, namegen.V
    U64 = 2 ** 64 - 1
    s = namegen.S("bnd", sid=2 ** 32 - 1, version=U64, desc="limits")
    s.add(T("messageHeader", "composite", members=[T("blockLength", "type", prim="uint64"), T("templateId", "type", prim="uint32"),
                                                   T("schemaId", "type", prim="uint32"), T("version", "type", prim="uint64")]))
    s.add(T("dim", "composite", members=[T("blockLength", "type", prim="uint64"), T("numInGroup", "type", prim="uint32")]))
    s.add(T("vd", "composite", members=[T("length", "type", prim="uint32"), T("varData", "type", prim="uint8", length=0)]))
    s.add(T("late", "type", prim="uint32", since=2 ** 32, depr=U64))
    s.add(T("text", "type", prim="char", length=2 ** 32 + 5, since=U64 - 1))
    s.add(T("far", "composite", members=[T("a", "type", prim="uint8"), T("b", "type", prim="uint16", offset=2 ** 32 + 1)], since=7))
    # a nested composite with its own offset (applied once, by the parent) and a sibling after it
    s.add(T("quote", "composite", members=[T("flags", "type", prim="uint8"),
                                           T("px", "composite", offset=4, members=[T("mantissa", "type", prim="int32"),
                                                                                   T("exponent", "type", prim="int8")]),
                                           T("qty", "type", prim="uint16")]))
    # enum / set whose encodingType names a <type> (CME style)
    s.add(T("uInt8", "type", prim="uint8"))
    s.add(T("nset", "set", prim="uInt8", values=[V("a", "0"), V("h", "7")]))
    s.add(T("nenum", "enum", prim="uInt8", values=[V("x", "1"), V("y", "254")]))
    s.add(T("e", "enum", prim="uint64", values=[V("top", str(U64 - 1), since=U64), V("zero", "0")]))
    s.add(T("st", "set", prim="uint64", values=[V("hi", "63", since=2 ** 33), V("lo", "0")]))
    for i, mid in enumerate((65535, 65536, 70000, 2 ** 32 - 1)):
        m = M("M%d" % i, mid, since=[0, 2 ** 32, U64, 1][i], depr=[None, U64, None, 2 ** 40][i],
              block_length=(2 ** 32 + 16) if i == 1 else None)
        m.fields.append(F("f", 65535, "late", since=2 ** 32 + i))
        m.fields.append(F("g", 65534 - i, "e", since=1, depr=U64 - i))
        if i == 0:
            m.fields.append(F("s", 1, "st"))
            m.fields.append(F("q", 2, "quote"))
            m.fields.append(F("ns", 3, "nset"))
            m.fields.append(F("ne", 4, "nenum"))
        gr = G("grp", 65535, "dim", since=2 ** 35, block_length=(2 ** 32 + 2) if i == 2 else None)
        gr.fields.append(F("x", 65535, "uint8", since=U64))
        gr.data.append(D("dd", 65535, "vd", since=2 ** 63))
        m.groups.append(gr)
        m.data.append(D("d", 65535, "vd", since=2 ** 32, depr=2 ** 32))
        s.messages.append(m)
    return s


def gen_schemas(rng, tier):
    n = 8 if tier == "quick" else 40
    pkgs = ["ns", "types", "messages", "schema", "tr", "x"]
    out = [(sentinel_schema(), {"sentinel": 1}), (boundary_schema(), {"boundary": 1})]
    for i in range(n):
        feats = {"all_prims": i % 2 == 0, "max_scalars": 12 if tier == "quick" else 22, "path_clash": i % 4 == 0}
        g = namegen.Gen(rng.fork("schema%d" % i), package=pkgs[i % len(pkgs)], feats=feats)
        out.append((g.schema(nmsg=2 if tier == "quick" else 3, max_depth=2 if tier == "quick" else 3), g.stats))
    return out


def run(res, replay=None):
    rng = SplitMix64(res.seed)
    thorough = res.tier == "thorough"
    res.rule = ("random accepted schemas (namegen: every primitive type x presence x explicit/implicit min/max/null, enums and "
                "sets of every encoding type, nested composites with refs / constants / custom offsets, groups and data, "
                "descriptions and semantic types with special characters, since/deprecated versions, clash names): a generated "
                "TU prints every trait of every entity (names, ids, descriptions, versions, presence, lengths, offsets, block "
                "lengths, sizes, min/max/null, encoding/primitive/header/dimension/length types via is_same, value_type / "
                "traits_tag round trips, children tag lists through a type_list walker, the eleven tag-kind predicates) and the "
                "text is compared line by line with the AST (copy-through) and the Coq model (offsets, sizes, block lengths, "
                "presence, tag kinds). Non-trivial = distinct (schema, entity, trait).")
    ok_proof = proof_step(res)
    model = Model()
    found = [False]
    configs = [("g++", "c++11"), ("g++", "c++20")]
    if thorough:
        configs += [("g++", "c++14"), ("g++", "c++17"), ("g++", "c++23"), ("clang++", "c++11"), ("clang++", "c++17"),
                    ("clang++", "c++20")]
    res.extra["configurations"] = ["%s -std=%s" % c for c in configs]
    schemas = gen_schemas(rng.fork("gen"), res.tier)
    if replay:
        schemas = []
    td = tmpdir()
    try:
        jobs, ctx = [], {}
        todo = [(namegen.schema_to_xml(s), s, st) for s, st in schemas]
        if replay:
            todo = [(replay["schema_xml"], None, {})]
        for si, (xml, s, st) in enumerate(todo):
            inc, rc, out = gen_headers("c18s", xml)
            if rc != 0:
                found[0] = True
                viol(res, "schema-rejected", "sbeppc rejects a schema the generator considers valid: " + out[-300:],
                     {"schema_xml": xml, "stdout": out[-2000:]})
                continue
            if s is None:
                # replay: the TU and the expectation travel with the replay file
                src_text, want = replay["dump_source"], replay["expected_lines"]
            else:
                try:
                    d = derive(model, s)
                except RuntimeError as e:
                    found[0] = True
                    viol(res, "model-rejects", "the layout model rejects a schema sbeppc accepts: " + str(e)[-300:],
                         {"schema_xml": xml})
                    continue
                if any(v == "REJECT" for v in d["lvl"].values()):
                    found[0] = True
                    viol(res, "model-rejects", "the layout model rejects a block length sbeppc accepts", {"schema_xml": xml})
                    continue
                src_text, want = touchgen.dump_tu(s, d)
            src = os.path.join(td, "dump%d.cpp" % si)
            open(src, "w").write(src_text)
            ctx[src] = (xml, want, src_text, st)
            for cxx, std in configs:
                jobs.append((src, inc, cxx, std, os.path.join(td, "dump%d_%s_%s" % (si, cxx.replace("+", "p"), std.replace("+", "p")))))
        with concurrent.futures.ThreadPoolExecutor(max_workers=16) as ex:
            results = list(ex.map(build_and_run, jobs))
        for (src, inc, cxx, std, exe), status, text in results:
            xml, want, src_text, st = ctx[src]
            cfg = "%s %s" % (cxx, std)
            if status != "ok":
                found[0] = True
                errs = "\n".join([l for l in text.split("\n") if "error" in l][:8])[-1500:]
                viol(res, "dump:%s" % status, "the trait dump TU does not %s (%s): %s" % (status, cfg, errs[-400:]),
                     {"schema_xml": xml, "config": cfg, "stderr": errs, "dump_source": src_text[:200000],
                      "expected_lines": want})
                continue
            compare(res, src_text, xml, cfg, text, want, found)
        if schemas:
            res.sample({"package": schemas[0][0].package, "stats": schemas[0][1],
                        "traits_compared": len(ctx[next(iter(ctx))][1]) if ctx else 0})
            first = ctx[next(iter(ctx))][1] if ctx else []
            res.sample({"expected_lines": first[:3] + first[len(first) // 2:len(first) // 2 + 3]})
    finally:
        shutil.rmtree(td, ignore_errors=True)
    res.extra.pop("_seen_signatures", None)
    if not ok_proof:
        proof_failure_violation(res, found[0])
    return res.finish(level="partial-proof+sampling", trusted=[
        "Traits.v projects the AST to Layout.v (type_size, member_offsets, layout_fields, block_length)",
        "the copy-through traits are compared with the Python AST only (no theorem)",
        "correspondence: harness/touchgen.py dump TUs + cpp/c18_dump.hpp; ocaml/drv_c18.ml token parser"])
