"""C05 — all size computations agree with the encoded size."""
from common import *
from msgcheck import *
import c01

TMAX = {"u8": 255, "u16": 65535, "u32": 2 ** 32 - 1, "u64": 2 ** 64 - 1}
ITY_PRIM = {"u8": "uint8", "u16": "uint16", "u32": "uint32", "u64": "uint64"}


def pairs_schema():
    """16 messages, one flat group each, one per (numInGroup, blockLength) type pair"""
    s = Schema("hs_dims", big_endian=False, sid=7, version=0)
    s.add(TypeDef("messageHeader", "composite", members=[
        TypeDef(n, "type", prim="uint16") for n in ("blockLength", "templateId", "schemaId", "version")]))
    i = 0
    for nt in ("u8", "u16", "u32", "u64"):
        for bt in ("u8", "u16", "u32", "u64"):
            i += 1
            dn = "dim_%s_%s" % (nt, bt)
            s.add(TypeDef(dn, "composite", members=[TypeDef("blockLength", "type", prim=ITY_PRIM[bt]),
                                                    TypeDef("numInGroup", "type", prim=ITY_PRIM[nt])]))
            m = Message("M_%s_%s" % (nt, bt), i)
            g = Group("g", 10, dn)
            g.fields.append(Field("x", 1, "uint8"))
            m.groups.append(g)
            s.messages.append(m)
    return s


def product_values(rng, nt, bt, thorough):
    ns = {0, 1, 2, 3, TMAX[nt], TMAX[nt] - 1, (TMAX[nt] + 1) // 2}
    bs = {0, 1, 2, 7, TMAX[bt], TMAX[bt] - 1, (TMAX[bt] + 1) // 2}
    for e in (15, 16, 31, 32):
        for d in (-1, 0, 1):
            for st, t in ((ns, nt), (bs, bt)):
                x = (1 << e) + d
                if 0 <= x <= TMAX[t]:
                    st.add(x)
    for _ in range(20 if thorough else 6):
        ns.add(rng.next() & TMAX[nt])
        bs.add(rng.next() & TMAX[bt])
    return sorted(ns), sorted(bs)


def run(res, replay=None):
    rng = SplitMix64(res.seed + 5)
    res.rule = ("(a) random accepted schemas x reference-encoder images with compiled block lengths: size_bytes of the "
                "message, of every group, entry and data member, the cursor-based size after a full traversal, and the "
                "generated message_traits::size_bytes(counts..., total_data_size) must all equal the image length (and the "
                "model's values); (b) all 16 (numInGroup, blockLength) type pairs x boundary values (0, 1, type maxima, "
                "2^15/2^16/2^31/2^32 +-1, random): flat group size_bytes = dimension + numInGroup*blockLength exactly "
                "whenever it fits size_t. Non-trivial = image with entries/data, or a product >= 2^15.")
    ok_proof = proof_step(res)
    model = Model()
    found = False
    cfgs = [("g++", "c++11", ("-O1",), ("SBEPP_ENABLE_ASSERTS_WITH_HANDLER", "MSGDRV_CURSOR")),
            ("g++", "c++20", ("-O2",), ("SBEPP_ENABLE_ASSERTS_WITH_HANDLER", "MSGDRV_CURSOR"))]
    if res.tier == "thorough":
        cfgs += [("clang++", "c++17", ("-O1",), ("SBEPP_ENABLE_ASSERTS_WITH_HANDLER", "MSGDRV_CURSOR")),
                 ("g++", "c++17", ("-O1", "-fsanitize=undefined", "-fno-sanitize-recover=all"),
                  ("SBEPP_ENABLE_ASSERTS_WITH_HANDLER", "MSGDRV_CURSOR"))]
    res.extra["configurations"] = ["%s -std=%s %s" % (c[0], c[1], " ".join(c[2])) for c in cfgs]

    # ---- (b) products --------------------------------------------------
    ps = pairs_schema()
    xml = schema_to_xml(ps)
    inc, rc, out = gen_headers(ps.package, xml)
    if rc != 0:
        res.violation("harness-schema-rejected", "sbeppc rejects the 16-pair harness schema: " + out[-400:],
                      {"schema_xml": xml, "no_failing_input": True})
        return res.finish()
    drv = msgdrv.gen_driver_cpp(ps)
    ddir = os.path.join(os.path.dirname(inc), "drv")
    os.makedirs(ddir, exist_ok=True)
    src = os.path.join(ddir, "driver.cpp")
    if not os.path.exists(src) or open(src).read() != drv:
        open(src, "w").write(drv)
    mlines, ilines, meta = [], [], []
    for m in ps.messages:
        _, nt, bt = m.name.split("_")
        ns, bs = product_values(rng, nt, bt, res.tier == "thorough")
        w = {"u8": 1, "u16": 2, "u32": 4, "u64": 8}
        for n in ns:
            for b in bs:
                if 4 + n * b >= 2 ** 64:
                    continue
                # header(8: blockLength=0 -> group right after the header) + dimension (blockLength, numInGroup)
                buf = (0).to_bytes(2, "little") + bytes(6) + b.to_bytes(w[bt], "little") + n.to_bytes(w[nt], "little")
                meta.append((m, nt, bt, n, b, len(mlines), len(ilines)))
                mlines += [model_msg_line(ps, m), "buf " + hx(buf), "gsize . 0", "fgs %s %s %d %d %d" % (nt, bt, w[nt] + w[bt], n, b)]
                ilines += ["use " + m.name, "buf " + hx(buf), "gsize . 0"]
    mout = model.run(mlines)
    for (cxx, std, flags, defs) in cfgs:
        try:
            exe = cached_cpp("msgdrv", src, std=std, cxx=cxx, flags=flags, includes=(inc,), defines=defs,
                             extra_hash=hash_files(tree_files(inc)))
        except BuildError as e:
            res.violation("driver-build:%s:%s" % (cxx, std), "16-pair driver does not build: " + str(e)[-500:],
                          {"no_failing_input": True, "correspondence": "T1 driver for hs_dims", "error": str(e)[-3000:]})
            continue
        rc, iout, err = run_lines(exe, ilines)
        if rc != 0 or len(iout) != len(ilines):
            found = True
            idx = max(0, len(iout) - 1)
            res.violation("driver-crash:products", "driver crashed (UB?) (%s %s): %s" % (cxx, std, err[-300:]),
                          {"stderr": err[-2000:], "near": ilines[max(0, idx - 3):idx + 2], "config": [cxx, std]})
            continue
        for (m, nt, bt, n, b, mo, io) in meta:
            exp = str(len_dim(nt, bt) + n * b)
            a = mout[mo + 2]
            f = mout[mo + 3]
            g = iout[io + 2]
            res.count(("prod", nt, bt, n, b, cxx, std), n * b >= 2 ** 15)
            if a != exp or f != exp:
                found = True
                res.violation("model-product", "model flat group size %s/%s != %s" % (a, f, exp),
                              {"pair": [nt, bt], "n": n, "bl": b})
            elif g != exp:
                found = True
                res.violation("flat-size:%s*%s" % (nt, bt),
                              "flat group size_bytes with numInGroup=%d (%s) blockLength=%d (%s): got %s, true size %s (%s -std=%s)"
                              % (n, nt, b, bt, g, exp, cxx, std),
                              {"schema_xml": xml, "message": m.name, "numInGroup": n, "blockLength": b,
                               "observed": g, "expected": exp, "config": [cxx, std]})
    res.sample({"case": "flat group u16*u16 numInGroup=65535 blockLength=65535", "expected": str(4 + 65535 * 65535)})

    # ---- (c) flat message / flat entry size with every blockLength header type up to the type maximum ----
    # one schema per header type (headerType is per schema)
    for bt in ("u8", "u16", "u32", "u64"):
        one = Schema("hs_flatbl_" + bt, big_endian=False, sid=8)
        one.header = "messageHeader"
        one.add(TypeDef("messageHeader", "composite", members=[TypeDef("blockLength", "type", prim=ITY_PRIM[bt])] + [
            TypeDef(n, "type", prim="uint16") for n in ("templateId", "schemaId", "version")]))
        mm = Message("F", 1)
        mm.fields.append(Field("x", 1, "uint8"))
        one.messages.append(mm)
        pc = prepare_fixed(one, cfgs[:2])
        if pc.error:
            res.violation("driver-build:flatbl", "flat blockLength probe: " + pc.error[1][-300:], {"no_failing_input": True, "correspondence": "T1 probe"})
            continue
        w = {"u8": 1, "u16": 2, "u32": 4, "u64": 8}[bt]
        hsz = w + 6
        vals = sorted(v for v in {1, 2, 255, TMAX[bt], TMAX[bt] - 1, TMAX[bt] - hsz, TMAX[bt] - hsz + 1, (TMAX[bt] + 1) // 2} if 0 <= v < 2 ** 64 - hsz)
        ml, il = [], []
        for bl in vals:
            buf = bl.to_bytes(w, "little") + bytes(6) + bytes(2)
            ml += [model_msg_line(one, mm), "buf " + hx(buf), "size"]
            il += ["use F", "buf " + hx(buf), "size"]
        mo = model.run(ml)
        for (cxx, std), exe in pc.exes.items():
            rc, io, err = run_lines(exe, il)
            for i, bl in enumerate(vals):
                res.count(("flatbl", bt, bl, cxx, std), bl >= 2 ** 15)
                exp = str(hsz + bl)
                if mo[3 * i + 2] != exp:
                    found = True
                    res.violation("model-flat-size", "model flat message size %s != %s" % (mo[3 * i + 2], exp), {"bl": bl})
                elif io[3 * i + 2] != exp:
                    found = True
                    res.violation("flat-message-size:%s" % bt,
                                  "size_bytes of a flat message with a %s blockLength of %d: got %s, true size %s (%s -std=%s)"
                                  % (ITY_PRIM[bt], bl, io[3 * i + 2], exp, cxx, std),
                                  {"schema_xml": pc.xml, "blockLength": bl, "observed": io[3 * i + 2], "expected": exp})

    # ---- (d) trait formula with nested-group totals beyond the numInGroup type ----------------
    ns = Schema("hs_nest8", big_endian=False, sid=11)
    ns.add(TypeDef("messageHeader", "composite", members=[TypeDef(n, "type", prim="uint16") for n in ("blockLength", "templateId", "schemaId", "version")]))
    ns.add(TypeDef("dim8", "composite", members=[TypeDef("blockLength", "type", prim="uint16"), TypeDef("numInGroup", "type", prim="uint8")]))
    ns.add(TypeDef("vd", "composite", members=[TypeDef("length", "type", prim="uint8"), TypeDef("varData", "type", prim="uint8", length=0)]))
    nm = Message("N", 1)
    nm.fields.append(Field("f", 1, "uint8"))
    og = Group("outer", 10, "dim8"); og.fields.append(Field("a", 1, "uint8"))
    ig = Group("inner", 11, "dim8"); ig.fields.append(Field("b", 1, "uint16")); og.groups.append(ig)
    nm.groups.append(og)
    ns.messages.append(nm)
    nc = prepare_fixed(ns, cfgs[:2])
    if nc.error:
        res.violation("driver-build:nest8", "nested-total probe: " + nc.error[1][-300:], {"no_failing_input": True, "correspondence": "T1 probe"})
    else:
        lay = parse_layout(model.run([model_msg_line(ns, nm)])[0])
        for outer_n, inner_n in ((2, 200), (3, 255), (1, 255), (2, 128)):
            inner = lambda: {"block": bytes(2), "groups": [], "data": []}
            v = {"block": bytes(lay["cbl"]), "data": [], "groups": [{"dimbg": bytes(3), "wbl": lay["level"]["groups"][0]["cbl"], "entries": [
                {"block": bytes(lay["level"]["groups"][0]["cbl"]), "data": [],
                 "groups": [{"dimbg": bytes(3), "wbl": 2, "entries": [inner() for _ in range(inner_n)]}]} for _ in range(outer_n)]}]}
            vt = " ".join(vtree_tokens(v))
            eo = model.run([model_msg_line(ns, nm), "encv %s %s" % (hx(bytes(8)), vt), "traitv " + vt])
            img = bytes.fromhex(eo[1])
            tv = dict(x.split("=") for x in eo[2].split())
            args = [x for x in tv["counts"].split(",") if x]
            for (cxx, std), exe in nc.exes.items():
                rc, io, err = run_lines(exe, ["use N", "buf " + hx(img), "size", "traitsize " + " ".join(args)])
                res.count(("nest8", outer_n, inner_n, cxx, std), True)
                if tv["size"] != str(len(img)):
                    found = True
                    res.violation("model-trait", "model trait formula %s != image length %d" % (tv["size"], len(img)), {"counts": args})
                elif io[2] != str(len(img)) or io[3] != str(len(img)):
                    found = True
                    res.violation("trait-size:nested-total",
                                  "%d outer entries x %d inner entries (uint8 numInGroup): size_bytes = %s, message_traits::size_bytes(%s) = %s, "
                                  "image length %d (%s -std=%s)" % (outer_n, inner_n, io[2], ", ".join(args), io[3], len(img), cxx, std),
                                  {"schema_xml": nc.xml, "counts": args, "image_len": len(img), "observed": io[3]})

    # ---- (a) images ----------------------------------------------------
    nschemas = 5 if res.tier == "quick" else 30
    nimgs = 6 if res.tier == "quick" else 20
    cases = prepare_many(res.seed, nschemas, cfgs)
    cases.append(prepare_fixed(edge_schema(), cfgs))
    for ci, mc in enumerate(cases):
        if mc.error:
            kind, msg = mc.error
            res.violation(kind, "schema preparation failed: " + msg[-400:],
                          {"schema_xml": mc.xml, "error": msg[-3000:], "no_failing_input": True,
                           "correspondence": "T1 generated driver"})
            continue
        s = mc.s
        trng = rng.fork("img%d" % ci)
        lays = [parse_layout(x) for x in model.run([model_msg_line(s, m) for m in s.messages])]
        meta = []
        for m, lay in zip(s.messages, lays):
            for ti in range(nimgs):
                v = gen_vlevel(trng, lay["level"], lay["cbl"], False, 0, (0, 1, 2, 3, 5))
                hdrbg = bytes(trng.below(256) for _ in range(lay["hdr"]))
                meta.append((m, lay, v, hdrbg))
        enc_lines = []
        for (m, lay, v, hdrbg) in meta:
            vt = " ".join(vtree_tokens(v))
            enc_lines += [model_msg_line(s, m), "encv %s %s" % (hx(hdrbg), vt), "traitv " + vt]
        eout = model.run(enc_lines)
        mlines, ilines, jobs = [], [], []
        for i, (m, lay, v, hdrbg) in enumerate(meta):
            img = bytes.fromhex(eout[3 * i + 1]) if eout[3 * i + 1] != "-" else b""
            tv = dict(x.split("=") for x in eout[3 * i + 2].split())
            if len(img) > 8000:
                continue
            args = [x for x in tv["counts"].split(",") if x]
            if msgdrv.has_data(m):
                args.append(tv["total"])
            script = ["size", "ctrav", "traitsize " + " ".join(args)]
            for op in decode_script(s, m, vtree_as_tree(v)):
                if op.split()[0] in ("gsize", "esize"):
                    script.append(op)
            jobs.append((m, v, img, script, tv, len(mlines), len(ilines)))
            mlines += [model_msg_line(s, m), "buf " + hx(img)] + [x for x in script if not x.startswith("traitsize")]
            ilines += ["use " + m.name, "buf " + hx(img)] + script
        mout = model.run(mlines)
        for (cxx, std), exe in mc.exes.items():
            rc, iout, err = run_impl(exe, ilines)
            if rc != 0 or len(iout) != len(ilines):
                found = True
                res.violation("driver-crash", "generated driver crashed (%s %s): %s" % (cxx, std, err[-300:]),
                              {"schema_xml": mc.xml, "stderr": err[-2000:]})
                continue
            for (m, v, img, script, tv, mo, io) in jobs:
                nontriv = any(g["entries"] for g in v["groups"]) or any(v["data"])
                res.count((s.package, m.name, hx(img)[:48], len(img), cxx, std), nontriv)
                n = len(img)
                got_size = iout[io + 2]
                got_trav = iout[io + 3].partition(" | ")[0]
                got_trait = iout[io + 4]
                bad = None
                if tv["size"] != str(n):
                    bad = ("model-trait", "model trait formula %s != image length %d" % (tv["size"], n))
                elif got_size != str(n):
                    bad = ("size_bytes", "size_bytes(message) = %s, image length %d" % (got_size, n))
                elif not got_trav.endswith("c=%d" % n):
                    bad = ("cursor-size", "cursor after full traversal `%s`, image length %d" % (got_trav[-30:], n))
                elif got_trait != str(n):
                    bad = ("trait-size", "message_traits::size_bytes(%s) = %s, image length %d" % (script[2][10:], got_trait, n))
                else:
                    mres = mout[mo + 2:]
                    k = 2
                    for j, op in enumerate(script):
                        if j < 3:
                            continue
                        a = mres[k]
                        k += 1
                        b2 = iout[io + 2 + j]
                        if a != b2:
                            bad = ("part-size", "`%s`: implementation %s, model %s" % (op, b2, a))
                            break
                if bad:
                    found = True
                    res.violation("%s" % bad[0], bad[1] + " (%s -std=%s)" % (cxx, std),
                                  {"schema_xml": mc.xml, "message": m.name, "image": hx(img), "script": script[:3],
                                   "config": [cxx, std]})
        if jobs:
            m, v, img, script = jobs[0][:4]
            res.sample({"schema": s.package, "message": m.name, "image_bytes": len(img), "script": script[:3]})
    if not ok_proof:
        proof_failure_violation(res, found)
    return res.finish(trusted=[
        "Msg.v (flat_group_size through CInt: the product is evaluated in size_t as the C++ does after the fix)",
        "harness/msggen.py, harness/msgdrv.py, cpp/msg_harness.hpp; extraction: ExtrOcamlBasic only"])


def len_dim(nt, bt):
    w = {"u8": 1, "u16": 2, "u32": 4, "u64": 8}
    return w[nt] + w[bt]
