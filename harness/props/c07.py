"""C07 — accepted schemas yield compilable, name-preserving headers (partial:
the literal / string / naming logic is proved, "the compilers accept the text"
is sampled)."""
import concurrent.futures
import os
import re
from common import *
import namegen
import touchgen

HARNESS_FLAGS = ("-O1", "-DFMT_HEADER_ONLY", "-isystem", MINICONDA + "/include")
ITY_CPP = {"i32": ("int", 4, True), "u32": ("unsigned int", 4, False), "i64": ("long", 8, True),
           "u64": ("unsigned long", 8, False)}
TARGET_CPP = namegen.CPP_T


def viol(res, sig, what, replay):
    """one violation per signature (the first failing input of each kind is the replay)"""
    seen = res.extra.setdefault("_seen_signatures", [])
    if sig in seen:
        return False
    seen.append(sig)
    return res.violation(sig, what, replay)


def hx(s):
    b = s.encode("utf-8") if isinstance(s, str) else s
    return b.hex() if b else "-"


def unhx(h):
    return b"" if h == "-" else bytes.fromhex(h)


def kv(line):
    return dict(x.split("=", 1) for x in line.split() if "=" in x)


# ----------------------------------------------------------------------
# A: the generator functions themselves
# ----------------------------------------------------------------------

def literal_cases(rng, tier):
    cases = []
    for p in namegen.INT_PRIMS:
        lo, hi = namegen.RANGE[p]
        vals = {lo, hi, lo + 1, hi - 1, 0, 1, 7, 8, 9, 10, 63, 64, 100, lo - 1, hi + 1}
        if lo < 0:
            vals |= {-1, -7, -8, -9, -10}
        for _ in range(40 if tier == "thorough" else 8):
            vals.add(lo + rng.next() % (hi - lo + 1))
        for v in sorted(vals):
            spell = {str(v)}
            a = str(abs(v))
            sg = "-" if v < 0 else ""
            spell |= {sg + "0" + a, sg + "00" + a, sg + "0000000000000000000000" + a}
            if v == 0:
                spell |= {"-0", "-00", "+0"}
            if v > 0:
                spell.add("+" + a)
            for sp in sorted(spell):
                cases.append((p, sp))
        for junk in ("", "-", "0x10", "1 ", " 1", "1e3", "1.0", "--1", "1-", "١"):
            cases.append((p, junk))
    return cases


FP_TEXTS = ["0", "1", "09", "-09", "+7", "16777216", "16777217", "9007199254740993", "18446744073709551616",
            "123456789012345678901234567890", "1.5", "-2.25", ".5", "-.5", "1.", "1e5", "1E5", "-1e-3", "+3.0e+2",
            "007.50", "00", "0e0", "1e+05", "08.5", "00012"]

STR_CASES = ["", "plain", "say \"hi\"", "back\\slash", "tab\there", "it's", "what??/", "??=x??(", "a?b??", "???",
             "new\nline", "a\rb", "\x7f", "\x01\x02", "\\\"", "trailing\\", "café €", "%d {} {0}", "R\"(raw)\"",
             "\\0", "?\\?", "\"", "'", "\\", "?"]


def run_unit(res, rng, model, cases_lit, cases_fp, cases_str, found_box):
    """differential against the real sbeppc functions (c07_harness.cpp)"""
    try:
        exe = cached_cpp("c07_harness", os.path.join(VERIF, "cpp/c07_harness.cpp"), std="c++17", cxx="g++",
                         flags=HARNESS_FLAGS, includes=(SBEPPC_SRC,), extra_hash=repo_hash())
    except BuildError as e:
        viol(res, "harness-build", "C07 harness no longer builds against /repo's sbeppc",
                      {"no_failing_input": True, "correspondence": "c07_harness.cpp", "error": str(e)[-3000:]})
        return None
    if cases_lit:
        unit_literals(res, model, exe, cases_lit, found_box)
    if cases_fp:
        unit_fp(res, model, exe, cases_fp, found_box)
    if cases_str:
        unit_strings(res, model, exe, cases_str, found_box)
    return exe


def unit_literals(res, model, exe, cases_lit, found_box):
    mlines = ["c07lit cur %s %s" % (p, hx(sp)) for p, sp in cases_lit]
    ilines = ["c07lit %s %s" % (p, hx(sp)) for p, sp in cases_lit]
    mo = model.run(mlines)
    rc, io, err = run_lines(exe, ilines)
    if rc != 0 or len(io) != len(ilines):
        viol(res, "harness-crash", "c07_harness crashed: " + err[-300:], {"no_failing_input": True, "stderr": err[-2000:]})
        return
    ev1 = model.run(["c07eval %s" % kv(l).get("text", "-") if kv(l).get("accepted") == "1" else "c07eval -" for l in io])
    ev2 = model.run(["c07eval %s" % kv(l).get("etext", "-") if kv(l).get("accepted") == "1" else "c07eval -" for l in io])
    rows = []
    for (p, sp), m, i, e1, e2 in zip(cases_lit, mo, io, ev1, ev2):
        # the attribute path (numeric_literal_to_value) and the enum value path (to_integer_literal)
        rows.append(((p, sp), m, i, e1, "attribute"))
        rows.append(((p, sp), m, i.replace(" text=", " atext=").replace(" etext=", " text="), e2, "enum value"))
    for (p, sp), m, i, e, path in rows:
        dm, di = kv(m), kv(i)
        res.count(("lit", p, sp))
        if dm["accepted"] != di["accepted"] or dm["value"] != di["value"]:
            found_box[0] = True
            viol(res, "model-mismatch:from_chars", "string_to_number<%s>(%r): model %s, sbeppc %s" % (p, sp, m, i),
                          {"kind": "lit", "cases": [[p, sp]], "model": m, "observed": i})
            continue
        if di["accepted"] != "1":
            continue
        lo, hi = namegen.RANGE[p]
        val = int(di["value"])
        evs = e.split("=", 1)[1]
        good = evs != "ILL" and int(evs.split(":")[0]) == val and lo <= val <= hi
        if not good:
            found_box[0] = True
            lead = sp.lstrip("-").startswith("0") and len(sp.lstrip("-")) > 1
            viol(res, "literal:%s" % ("leading-zero" if lead else "other"),
                          "%s %s %r (= %d) is emitted as `%s`, which a C++ compiler reads as %s"
                          % (p, path, sp, val, unhx(di["text"]).decode("utf-8", "replace"), evs),
                          {"kind": "lit", "cases": [[p, sp]], "expected_value": val, "emitted_text": unhx(di["text"]).decode("utf-8", "replace"),
                           "cpp_meaning": evs})
        elif dm["text"] != di["text"]:
            found_box[0] = True
            viol(res, "model-mismatch:literal-text", "to_integer_literal(%r, %s): model `%s`, sbeppc `%s`"
                          % (sp, p, unhx(dm["text"]).decode(), unhx(di["text"]).decode("utf-8", "replace")),
                          {"kind": "lit", "cases": [[p, sp]], "model": m, "observed": i})
    res.sample({"case": mlines[len(mlines) // 3], "model": mo[len(mlines) // 3], "sbeppc": io[len(mlines) // 3]})


def unit_fp(res, model, exe, cases_fp, found_box):
    ml = ["c07fp cur %s" % hx(t) for t in cases_fp]
    mo = model.run(ml)
    for prim in ("float", "double"):
        rc, io, err = run_lines(exe, ["c07fp %s %s" % (prim, hx(t)) for t in cases_fp])
        for t, m, i in zip(cases_fp, mo, io):
            dm = kv(m)
            res.count(("fp", prim, t))
            if dm["xml"] != "1":
                continue
            it = i.split("=", 1)[1]
            k = kv(model.run(["c07fp legacy %s" % it])[0])["kind"]
            harmless = False
            if k == "int":
                # an integer literal is acceptable when it is well-formed, means the decimal value
                # and is exactly representable
                txt = unhx(it).decode()
                sign = -1 if txt.startswith("-") else 1
                ev = model.run(["c07eval %s" % hx(txt.lstrip("+-"))])[0].split("=", 1)[1]
                if ev != "ILL" and int(ev.split(":")[0]) == int(t.lstrip("+-")):
                    harmless = model.run(["c07fpx %s %d" % (prim, sign * int(ev.split(":")[0]))])[0] == "exact=1"
            if k != "float" and not harmless:
                found_box[0] = True
                viol(res, "literal:fp-as-integer", "%s value %r is emitted as `%s`: an integer literal (octal with a leading "
                              "zero, narrowing when not exactly representable)" % (prim, t, unhx(it).decode()),
                              {"kind": "fp", "cases": [t], "prim": prim, "emitted_text": unhx(it).decode()})
            elif it != dm["text"]:
                found_box[0] = True
                viol(res, "model-mismatch:fp-text", "numeric_literal_to_value(%r, %s): model `%s`, sbeppc `%s`"
                              % (t, prim, unhx(dm["text"]).decode(), unhx(it).decode()),
                              {"kind": "fp", "cases": [t], "prim": prim})


def unit_strings(res, model, exe, cases_str, found_box):
    sl, cl = [], []
    for t in cases_str:
        n = len(t.encode("utf-8"))
        for ln in (n, n + 2):
            sl.append((t, ln))
        if n == 1:
            cl.append(t)
    mo = model.run(["c07strc %s %d" % (hx(t), ln) for t, ln in sl])
    rc, io, err = run_lines(exe, ["c07strc %s %d" % (hx(t), ln) for t, ln in sl])
    den = model.run(["c07str legacy %s" % i.split("=", 1)[1] if not i.endswith("REJECT") and not i.startswith("const=ERR")
                     else "c07str legacy -" for i in io])
    for (t, ln), m, i, d in zip(sl, mo, io, den):
        res.count(("strc", t, ln))
        want = t.encode("utf-8") + b"\0" * (ln - len(t.encode("utf-8")))
        got = kv(d)["denotes"]
        if i.endswith("REJECT") or got == "NONE" or unhx(got) != want:
            found_box[0] = True
            viol(res, "string:unescaped", "constant %r (length %d) is emitted as \"%s\", which denotes %s"
                          % (t, ln, unhx(i.split("=", 1)[1]).decode("utf-8", "replace") if "=" in i else i,
                             "no string literal" if got == "NONE" else repr(unhx(got))),
                          {"kind": "strc", "cases": [[t, ln]], "emitted": i, "denotes": got})
        elif m != i:
            found_box[0] = True
            viol(res, "model-mismatch:string-constant", "make_string_constant(%r, %d): model %s, sbeppc %s" % (t, ln, m, i),
                          {"kind": "strc", "cases": [[t, ln]]})
    if not cl:
        return
    mo = model.run(["c07str cur %s" % hx(t) for t in cl])
    rc, io, err = run_lines(exe, ["c07chr %s" % hx(t) for t in cl])
    den = model.run(["c07str legacy %s" % i.split("=", 1)[1] for i in io])
    for t, m, i, d in zip(cl, mo, io, den):
        res.count(("chr", t))
        got = kv(d)["denotes"]
        if got == "NONE" or unhx(got) != t.encode("utf-8"):
            found_box[0] = True
            viol(res, "string:unescaped", "character constant %r is emitted as '%s'" % (t, unhx(i.split("=", 1)[1]).decode("utf-8", "replace")),
                          {"kind": "chr", "cases": [t], "emitted": i, "denotes": got})
        elif kv(m)["esc"] != i.split("=", 1)[1]:
            found_box[0] = True
            viol(res, "model-mismatch:char-constant", "make_char_constant(%r): model %s, sbeppc %s" % (t, m, i),
                          {"kind": "chr", "cases": [t]})


# ---- naming: random token-level schemas against names_generator ----
def rand_names_schema(rng):
    pool = ["A", "A_0", "A_1", "A_2", "A_entry", "A_0_entry", "A_1_entry", "B", "B_0", "B_entry", "types", "types_0",
            "messages", "messages_0", "min_value", "max_value", "null_value", "min_value_0", "null_value_0", "x"]

    def names(n, must=None):
        out = []
        if must and rng.chance(1, 2):
            out.append(must)
        while len(out) < n:
            c = rng.choice(pool)
            if c not in out:
                out.append(c)
        rng.shuffle(out)
        return out[:max(n, len(out))]

    def enc(name, depth):
        k = rng.below(5 if depth < 2 else 3)
        if k == 0:
            return ["T", name, rng.choice(["c", "r", "o"])]
        if k == 1 or k == 2:
            vs = names(rng.below(4), name)
            return ["E" if k == 1 else "S", name, str(len(vs))] + vs
        els = names(rng.below(5), name)
        toks = ["C", name, str(len(els))]
        for e in els:
            toks += ["R", e] if rng.chance(1, 4) else ["N"] + enc(e, depth + 1)
        return toks

    def level(own, depth):
        ms = names(rng.below(6), own)
        nf = rng.below(len(ms) + 1)
        ng = rng.below(len(ms) - nf + 1) if depth < 3 else 0
        toks = [str(nf)] + ms[:nf] + [str(ng)]
        for g in ms[nf:nf + ng]:
            toks += ["G", g] + level(g, depth + 1)
        ds = ms[nf + ng:]
        return toks + [str(len(ds))] + ds

    tn = names(1 + rng.below(6))
    types = [(n, enc(n, 0)) for n in tn]
    mn = names(1 + rng.below(4))
    msgs = []
    for n in mn:
        msgs += ["M", n] + level(n, 0)
    return types, [str(len(mn))] + msgs


def names_tokens(types, msgs, order=None):
    by = dict(types)
    seq = order if order is not None else [n for n, _ in types]
    toks = [str(len(seq))]
    for n in seq:
        toks += by[n]
    return toks + msgs


def run_names_unit(res, rng, model, exe, n, found_box, cases=None):
    if cases is None:
        cases = [rand_names_schema(rng) for _ in range(n)]
    rc, io, err = run_lines(exe, ["c07names " + " ".join(names_tokens(t, m)) for t, m in cases])
    if rc != 0 or len(io) != len(cases):
        viol(res, "harness-crash", "c07_harness crashed in names_generator: " + err[-300:],
                      {"no_failing_input": True, "stderr": err[-2000:]})
        return
    ml = []
    for (t, m), i in zip(cases, io):
        order = i.split(" | ")[0].split("=", 1)[1]
        order = [] if order == "-" else order.split(",")
        ml.append("c07names " + " ".join(names_tokens(t, m, order)))
    mo = model.run(ml)
    for (t, m), mm, i in zip(cases, mo, io):
        res.count(("names", tuple(x for _, tt in t for x in tt), tuple(m)))
        impl = i.split(" | ", 1)[1]
        mod, nodup = mm.rsplit(" ; nodup=", 1)
        if nodup != "1":
            found_box[0] = True
            viol(res, "model-vs-theorem:names", "model produced duplicate names in a detail namespace",
                          {"kind": "names", "cases": [[t, m]], "model": mm})
        if impl != mod:
            found_box[0] = True
            viol(res, "model-mismatch:names", "names_generator disagrees with the model: sbeppc `%s`, model `%s`" % (impl[:300], mod[:300]),
                          {"kind": "names", "cases": [[t, m]], "observed": impl, "model": mod})
    res.sample({"case": ml[0][:200], "model": mo[0][:200]})


# ----------------------------------------------------------------------
# B: the literal semantics against real compilers
# ----------------------------------------------------------------------

def semantics_tu(model, texts, targets):
    """static_asserts over expression texts: value, type class, and narrowing
    into every integer target, as the model predicts"""
    ev = model.run(["c07eval %s" % hx(t) for t in texts])
    src = ["#include <cstdint>", "#include <type_traits>"]
    bad = []
    n = 0
    for t, e in zip(texts, ev):
        r = e.split("=", 1)[1]
        if r == "ILL":
            bad.append(t)
            continue
        v, ty = r.split(":")
        cpp, size, signed = ITY_CPP[ty]
        lit = ("%sULL" % v) if int(v) > 2 ** 63 - 1 else ("(-9223372036854775807LL - 1)" if int(v) == -2 ** 63 else "%sLL" % v)
        src.append("static_assert((%s) == %s, \"value of %s\");" % (t, lit, t))
        src.append("static_assert(sizeof(decltype(%s)) == %d && std::is_signed<decltype(%s)>::value == %s, \"type of %s\");"
                   % (t, size, t, "true" if signed else "false", t))
        for prim in targets:
            lo, hi = namegen.RANGE[prim]
            if lo <= int(v) <= hi:
                n += 1
                src.append("constexpr %s ok_%d{%s};" % (TARGET_CPP[prim].replace("::std", "std"), n, t))
    src.append("int main(){}")
    return "\n".join(src) + "\n", bad


def run_semantics(res, model, rng, configs, found_box):
    texts = ["0", "7", "10", "010", "017", "0x20", "0x7e", "0xFFFFFFFF", "2147483647", "2147483648", "4294967295", "4294967296",
             "-2147483648", "-2147483647", "-1", "-0", "9223372036854775807", "-9223372036854775807", "-9223372036854775807 -1",
             "-9223372036854775807 - 1", "18446744073709551615UL", "18446744073709551614UL", "9223372036854775808UL",
             "255", "65535", "-128", "-32768", "254", "65534", "4294967294", "127", "32767", "-127", "-32767"]
    for p in namegen.INT_PRIMS:
        lo, hi = namegen.RANGE[p]
        for v in (lo, hi):
            t = model.run(["c07lit cur %s %s" % (p, hx(str(v)))])[0]
            texts.append(unhx(kv(t)["text"]).decode())
    texts = sorted(set(texts))
    src, bad = semantics_tu(model, texts, namegen.INT_PRIMS)
    td = tmpdir()
    try:
        f = os.path.join(td, "c07_semantics.cpp")
        open(f, "w").write(src)
        for cxx, std in configs:
            rc, err = compile_cpp(f, None, std=std, cxx=cxx, syntax_only=True, flags=("-Wno-overflow",))
            res.count(("semantics", cxx, std, len(texts)))
            if rc != 0:
                found_box[0] = True
                m = re.search(r"static assertion failed: (.*)", err)
                viol(res, "semantics:%s" % ("static-assert" if m else "compile"),
                              "the C++ literal semantics of Literals.v disagrees with %s -std=%s: %s" % (cxx, std, (m.group(0) if m else err[-300:])),
                              {"kind": "semantics", "source": src[:6000], "stderr": err[-2000:], "config": [cxx, std]})
        # texts the model calls ill-formed must not compile
        for t in bad + ["08", "09", "0189", "18446744073709551616"]:
            g = os.path.join(td, "bad.cpp")
            open(g, "w").write("constexpr auto x = %s;\nint main(){}\n" % t)
            cxx, std = configs[0]
            rc, err = compile_cpp(g, None, std=std, cxx=cxx, syntax_only=True, flags=("-Werror", "-pedantic-errors"))
            res.count(("semantics-ill", t))
            if rc == 0:
                found_box[0] = True
                viol(res, "semantics:ill-formed-accepted", "Literals.v calls `%s` ill-formed but %s accepts it" % (t, cxx),
                              {"kind": "semantics", "text": t})
    finally:
        shutil.rmtree(td, ignore_errors=True)


# ----------------------------------------------------------------------
# C: end to end
# ----------------------------------------------------------------------

def classify(err):
    e = err
    if "narrowing conversion" in e or "cannot be narrowed" in e or "non-constant-expression cannot be narrowed" in e:
        if re.search(r"fill_(message|group)_header_tag|header\.\w+\(\{", e) or "blockLength" in e and "header" in e:
            return "compile:narrowing-header-value"
        if "float" in e or "double" in e:
            return "compile:narrowing-fp-literal"
        return "compile:narrowing-literal"
    if "invalid digit" in e:
        return "compile:octal-literal"
    if re.search(r"missing terminating|string literal operator|empty character constant|user-defined literal|unknown escape|"
                 r"multi-character character constant|stray '\\\\'|stray .\\. in program", e):
        return "compile:unescaped-string"
    if re.search(r"redefinition of '?(const )?[\w: ]*num_in_group|redefinition of parameter", e):
        return "compile:duplicate-size-bytes-param"
    if re.search(r"template (type )?parameter 'Byte'|shadows template parameter|declaration of 'Byte' shadows", e):
        return "compile:name-Byte"
    if "static assertion failed" in e or "static_assert failed" in e or "static assertion failed due to" in e:
        m = re.search(r"static[_ ]assert(?:ion)? failed[^\"']*[\"']?([a-z_ A-Z]+?) [\w/:]+[\"']?", e)
        return "compile:static-assert:" + (m.group(1).strip().replace(" ", "-") if m else "other")
    return "compile:other"


def first_errors(err, n=6):
    return "\n".join([l for l in err.split("\n") if "error" in l][:n])[-1500:]


def parse_type_order(inc, pkg):
    txt = open(os.path.join(inc, pkg, "schema", "schema.hpp")).read()
    m = re.search(r"using type_tags = ::sbepp::type_list<(.*?)>;", txt, flags=re.S)
    return [x.strip().rsplit("::", 1)[1] for x in m.group(1).split(",") if x.strip()] if m else []


def model_names(model, s, order):
    toks = namegen.names_schema_tokens(s, order)
    out = model.run(["c07names " + " ".join(toks), "c07params cur " + " ".join(toks)])
    parts = out[0].split(" ; ")
    names = {"types": {}, "msgs": {}}
    for kvp in parts[0].split()[1:]:
        k, v = kvp.split("=")
        names["types"][k] = (v.rstrip("*"), v.endswith("*"))
    names["tagtypes"] = parts[1].split("=")[1]
    for kvp in parts[2].split()[1:]:
        k, v = kvp.split("=")
        mg = v.endswith("*")
        v = v.rstrip("*")
        impl, _, entry = v.partition(":")
        names["msgs"][k] = (impl, entry, mg)
    names["tagmsgs"] = parts[3].split("=")[1]
    params = {}
    plist = {}
    for kvp in out[1].split():
        k, v = kvp.split("=")
        plist[k] = [] if v == "-" else v.split(",")
        params[k] = len(plist[k])
    return names, params, plist


def header_param_lists(inc, pkg, msg):
    txt = open(os.path.join(inc, pkg, "messages", msg + ".hpp")).read()
    out = []
    for m in re.finditer(r"static constexpr ::std::size_t size_bytes\((.*?)\) noexcept", txt, flags=re.S):
        if "length_type::value_type" in m.group(1):
            continue        # data_traits::size_bytes(size)
        ps = [p.strip().split()[-1] for p in m.group(1).split(",") if p.strip()]
        out.append(ps)
    return out


def one_compile(job):
    kind, name, src, inc, cxx, std = job
    rc, err = compile_cpp(src, None, std=std, cxx=cxx, includes=(inc,), syntax_only=True, timeout=600)
    return job, rc, err


def e2e_schemas(rng, tier):
    n = 8 if tier == "quick" else 48
    out = []
    pkgs = ["ns", "types", "messages", "schema", "detail", "ns2", "A", "x"]
    for i in range(n):
        feats = {"all_prims": i % 2 == 0, "max_scalars": 12 if tier == "quick" else 22, "path_clash": i % 3 == 0}
        g = namegen.Gen(rng.fork("schema%d" % i), package=pkgs[i % len(pkgs)], feats=feats)
        s = g.schema(nmsg=2 if tier == "quick" else 3, max_depth=2 if tier == "quick" else 3)
        out.append((s, g.stats))
    return out


def run_e2e(res, rng, model, schemas, configs, found_box, label="e2e", allow_reject=False):
    jobs = []
    ctx = {}
    td = tmpdir()
    try:
        for si, (s, stats) in enumerate(schemas):
            # every other schema refers to its named types with a different letter case (SBE lookup is
            # case-insensitive; generated includes must still use the defining spelling)
            xml = namegen.schema_to_xml(s, case_variant_seed=(1000 + si) if si % 2 == 1 else None)
            inc, rc, out = gen_headers(s.package, xml)
            res.count((label, "sbeppc", xml))
            if rc != 0 and allow_reject:
                continue
            if rc != 0:
                found_box[0] = True
                viol(res, "schema-rejected", "sbeppc rejects a schema the generator considers valid: " + out[-300:],
                              {"kind": "schema", "schema_xml": xml, "stdout": out[-2000:]})
                continue
            order = parse_type_order(inc, s.package)
            if sorted(order) != sorted(s.types.keys()):
                found_box[0] = True
                viol(res, "type-tags", "schema_traits::type_tags does not list exactly the public types",
                              {"kind": "schema", "schema_xml": xml, "type_tags": order})
                continue
            names, params, plist = model_names(model, s, order)
            # size_bytes parameter lists, as emitted
            for m in s.messages:
                got = sorted(header_param_lists(inc, s.package, m.name))
                want = sorted(v for k, v in plist.items() if k == m.name or k.startswith(m.name + "/"))
                res.count((label, "params", xml, m.name))
                dup = [p for p in got if len(set(p)) != len(p)]
                if dup:
                    found_box[0] = True
                    viol(res, "compile:duplicate-size-bytes-param", "size_bytes of message %s declares a parameter twice: %s"
                                  % (m.name, dup[0]), {"kind": "schema", "schema_xml": xml, "message": m.name, "params": dup[0]})
                elif got != want:
                    found_box[0] = True
                    viol(res, "model-mismatch:size-params", "size_bytes parameter names of message %s: sbeppc %s, model %s"
                                  % (m.name, got, want), {"kind": "schema", "schema_xml": xml, "message": m.name})
            d = os.path.join(td, "s%d" % si)
            os.makedirs(d)
            hdrs = sorted(os.path.relpath(f, inc) for f in tree_files(os.path.join(inc, s.package), {".hpp"}))
            for h in hdrs:
                src = os.path.join(d, "hdr_%s.cpp" % re.sub(r"\W", "_", h))
                open(src, "w").write('#include "%s"\nint main(){}\n' % h)
                for cxx, std in configs:
                    jobs.append(("header", h, src, inc, cxx, std))
            tsrc = os.path.join(d, "touch.cpp")
            open(tsrc, "w").write(touchgen.touch_tu(s, names, params))
            for cxx, std in configs:
                jobs.append(("touch", "touch", tsrc, inc, cxx, std))
            ctx[inc] = (s, xml, stats, tsrc)
        with concurrent.futures.ThreadPoolExecutor(max_workers=16) as ex:
            results = list(ex.map(one_compile, jobs))
        seen = set()
        for (kind, name, src, inc, cxx, std), rc, err in results:
            s, xml, stats, tsrc = ctx[inc]
            res.count((label, kind, name, cxx, std, xml), nontrivial=(kind == "touch" or (cxx, std) == configs[0]))
            if rc != 0:
                found_box[0] = True
                sig = classify(err)
                if isinstance(stats, dict) and stats.get("probe") == "macro-name":
                    sig = "compile:macro-name"
                if (sig, xml) in seen:
                    continue
                seen.add((sig, xml))
                viol(res, sig, "%s of an accepted schema does not compile (%s -std=%s): %s"
                              % ("header " + name if kind == "header" else "the touch-everything TU", cxx, std,
                                 first_errors(err, 2)[-400:]),
                              {"kind": "schema", "schema_xml": xml, "unit": name, "config": [cxx, std], "stderr": first_errors(err, 12),
                               "touch_source": open(tsrc).read()[:20000] if kind == "touch" else None})
        if schemas:
            res.sample({"schema": schemas[0][0].package, "stats": schemas[0][1], "headers": len([j for j in jobs if j[0] == "header"]) // max(1, len(configs))})
    finally:
        shutil.rmtree(td, ignore_errors=True)


# ----------------------------------------------------------------------
# D: probes for candidate defects outside the random generator's reach
# ----------------------------------------------------------------------

def probe_schemas():
    out = []
    # a member / type named like the template parameter of the generated classes
    s = namegen.Gen(SplitMix64(7), package="pb", feats={"strings": False}).schema(nmsg=1, max_depth=1)
    s.add(namegen.T("Byte", "composite", members=[namegen.T("x", "type", prim="uint8")]))
    s.messages[0].fields.append(namegen.F("Byte", 9, "uint8"))
    out.append(("name-Byte", s))
    # header values that do not fit the header member types
    s = namegen.S("ph")
    s.add(namegen.T("messageHeader", "composite", members=[namegen.T(n, "type", prim="uint8") for n in
                                                           ("blockLength", "templateId", "schemaId", "version")]))
    m = namegen.M("M", 70000)
    m.fields.append(namegen.F("a", 1, "uint8"))
    s.messages.append(m)
    out.append(("header-narrowing", s))
    # entities named like a macro that is visible in the generated headers (the library's own and the standard
    # library's): accepted, but the preprocessor replaces the name
    s = namegen.S("pm")
    s.add(namegen.T("messageHeader", "composite", members=[namegen.T(n, "type", prim="uint16") for n in
                                                           ("blockLength", "templateId", "schemaId", "version")]))
    m = namegen.M("M", 1)
    for i, nm in enumerate(("NULL", "EOF", "SBEPP_WARNINGS_OFF", "SBEPP_CPP14_CONSTEXPR")):
        m.fields.append(namegen.F(nm, i + 1, "uint8"))
    s.messages.append(m)
    out.append(("macro-name", s))
    return out


# ----------------------------------------------------------------------

# ----------------------------------------------------------------------
# E: identifier sweep -- every identifier the generator's own templates use, as the name of every kind of entity
# ----------------------------------------------------------------------

def generator_identifiers():
    """identifiers occurring in string literals of /repo's sbeppc sources (raw-string code templates and
    ordinary fmt strings), i.e. names the generated code itself may use for locals, parameters, members and
    helper types; harvested from the CURRENT working tree on every run"""
    ids = set()
    src = os.path.join(REPO, "sbeppc/src/sbepp/sbeppc")
    for f in sorted(os.listdir(src)):
        if not f.endswith((".hpp", ".cpp")):
            continue
        text = open(os.path.join(src, f), errors="replace").read()
        bodies = [m.group(1) for m in re.finditer(r'R"\((.*?)\)"', text, re.S)]
        rest = re.sub(r'R"\((.*?)\)"', " ", text, flags=re.S)
        bodies += [m.group(1) for m in re.finditer(r'"((?:[^"\\\n]|\\.)*)"', rest)]
        for b in bodies:
            b = b.replace("{{", " ").replace("}}", " ")
            b = re.sub(r"\{[a-z_0-9]*\}", " ", b)
            ids.update(re.findall(r"[A-Za-z_][A-Za-z0-9_]*", b))
    kw = set(re.findall(r'"([a-z_0-9]+)"', re.search(r"cpp_keywords\{(.*?)\};", open(os.path.join(
        src, "sbe_schema_cpp_validator.hpp")).read(), re.S).group(1)))
    prims = set(namegen.PSIZE.keys())
    # names the validator itself reserves for the generated code (rejected with a diagnostic): read from the source
    m = re.search(r"is_generated_code_name\(.*?\{(.*?)return(.*?);", open(os.path.join(src, "sbe_schema_cpp_validator.hpp")).read(), re.S)
    reserved = set(re.findall(r'str == "([^"]+)"', m.group(2))) if m else set()
    out = sorted(i for i in ids if i not in kw and len(i) <= 32 and not i.startswith("__") and i not in ("std", "posix")
                 and i not in namegen.PROBE_NAMES and i not in reserved and i.lower() not in prims
                 # the library's own macros: entities named like a macro are the recorded finding compile:macro-name
                 and not i.startswith("SBEPP_"))
    return out


def sweep_schema(pkg, idents):
    """one schema in which every identifier names a field, a last group (with a field and a nested last group of the
    same name), a last data member, a public type, an enum value, a set choice and a composite member"""
    T, F, G, D, M, V = namegen.T, namegen.F, namegen.G, namegen.D, namegen.M, namegen.V
    s = namegen.S(pkg)
    s.add(T("messageHeader", "composite", members=[T(n, "type", prim="uint16") for n in
                                                   ("blockLength", "templateId", "schemaId", "version")]))
    s.add(T("swDim", "composite", members=[T("blockLength", "type", prim="uint16"), T("numInGroup", "type", prim="uint8")]))
    s.add(T("swData", "composite", members=[T("length", "type", prim="uint8"), T("varData", "type", prim="uint8", length=0)]))
    taken = {"messageheader", "swdim", "swdata"}
    mid = 0
    for k, x in enumerate(idents):
        tname = None
        if x.lower() not in taken and not re.match(r"sw(E|S|C)\d+$", x):
            taken.add(x.lower())
            s.add(T(x, "type", prim="uint8"))
            tname = x
        s.add(T("swE%d" % k, "enum", prim="uint8", values=[V(x, 1), V("other%d" % k, 2)]))
        s.add(T("swS%d" % k, "set", prim="uint8", values=[V(x, 3), V("other%d" % k, 0)]))
        s.add(T("swC%d" % k, "composite", members=[T(x, "type", prim="uint16"), T("tail%d" % k, "type", prim="uint8")]))
        for t in ("swe%d" % k, "sws%d" % k, "swc%d" % k):
            taken.add(t)
        mid += 1
        m = M("swF%d" % k, mid)
        m.fields.append(F(x, 1, tname or "uint8"))
        m.fields.append(F("e%d" % k, 2, "swE%d" % k))
        m.fields.append(F("s%d" % k, 3, "swS%d" % k))
        m.fields.append(F("c%d" % k, 4, "swC%d" % k))
        s.messages.append(m)
        mid += 1
        m = M("swG%d" % k, mid)
        m.fields.append(F("f", 1, "uint8"))
        g = G(x, 2, "swDim")
        g.fields.append(F("y0", 3, "uint8"))
        g2 = G(x, 4, "swDim")
        g2.fields.append(F(x, 5, "uint8"))
        g.groups.append(g2)
        m.groups.append(g)
        s.messages.append(m)
        mid += 1
        m = M("swD%d" % k, mid)
        m.fields.append(F("f", 1, "uint8"))
        g = G("grp", 2, "swDim")
        g.fields.append(F("y", 3, "uint8"))
        g.data.append(D(x, 4, "swData"))
        m.groups.append(g)
        m.data.append(D(x, 5, "swData"))
        s.messages.append(m)
    return s


def sweep_schemas(rng, tier):
    ids = generator_identifiers()
    core = [i for i in ("last", "header", "visitor", "cursor", "c", "v", "e", "args", "value", "size", "index", "This") if i in ids]
    chunks = []
    rest = [i for i in ids if i not in core]
    n = 16
    all_chunks = [rest[i:i + n] for i in range(0, len(rest), n)]
    chunks.append(core)
    if tier == "thorough":
        chunks += all_chunks
    elif all_chunks:
        # quick: the fixed core chunk plus two rotating chunks
        a = rng.below(len(all_chunks))
        chunks += [all_chunks[a], all_chunks[(a + 1 + rng.below(max(1, len(all_chunks) - 1))) % len(all_chunks)]]
    return [(sweep_schema("sw%d" % i, ch), {"sweep_identifiers": ch, "harvested": len(ids)}) for i, ch in enumerate(chunks) if ch]


def run(res, replay=None):
    rng = SplitMix64(res.seed)
    thorough = res.tier == "thorough"
    res.rule = ("(A) the real sbeppc functions (string_to_number, to_integer_literal, numeric_literal_to_value, "
                "make_string_constant, make_char_constant, names_generator::generate) against the extracted model on boundary "
                "values x spellings with leading zeros / signs of every integer type, float texts, special-character strings, "
                "random name-clash schemas; the emitted text is judged by the model's C++ literal semantics; (B) that "
                "semantics against g++/clang++ by static_assert; (C) random accepted schemas over a clash-identifier pool "
                "(types/messages/schema/A/A_0/A_entry/min_value/...), special characters in every string attribute, every "
                "primitive type x presence x explicit min/max/null with leading zeros: every generated header compiled alone "
                "and a touch-everything TU (public paths, accessors, by-tag, cursors, traits, visitors, predicted "
                "implementation names) under each configuration; (D) probes for known candidates; (E) identifier sweep: every "
                "identifier harvested from the string literals / code templates of /repo's current sbeppc sources used as the "
                "name of a field, a last group, a nested group, a last data member, a public type, an enum value, a set choice "
                "and a composite member (a fixed core chunk + rotating chunks in quick, all in thorough), same compile checks. "
                "Non-trivial = distinct case.")
    ok_proof = proof_step(res)
    model = Model()
    found = [False]
    if thorough:
        configs = [(c, s) for c in ("g++", "clang++") for s in ("c++11", "c++14", "c++17", "c++20", "c++23")]
        configs = [(c, "c++2b" if (c == "clang++" and s == "c++23") else s) for c, s in configs]
    else:
        configs = [("g++", "c++11"), ("g++", "c++20"), ("clang++", "c++17")]
    res.extra["configurations"] = ["%s -std=%s -fsyntax-only" % c for c in configs]

    if replay:
        k = replay.get("kind")
        if k == "lit":
            run_unit(res, rng, model, [tuple(c) for c in replay["cases"]], [], [], found)
        elif k == "fp":
            run_unit(res, rng, model, [], replay["cases"], [], found)
        elif k in ("strc", "chr"):
            run_unit(res, rng, model, [], [], [c[0] if isinstance(c, list) else c for c in replay["cases"]], found)
        elif k == "names":
            exe = run_unit(res, rng, model, [], [], [], found)
            if exe:
                run_names_unit(res, rng, model, exe, 0, found, cases=[(
                    [tuple(x) for x in c[0]], c[1]) for c in replay["cases"]])
        elif k == "semantics":
            run_semantics(res, model, rng, configs, found)
        elif k == "schema":
            xml = replay["schema_xml"]
            inc, rc, out = gen_headers("replay", xml)
            pkg = re.search(r'package="([^"]*)"', xml).group(1)
            td = tmpdir()
            bad = rc != 0
            if not bad:
                for f in tree_files(os.path.join(inc, pkg, "messages"), {".hpp"}):
                    for pl in header_param_lists(inc, pkg, os.path.basename(f)[:-4]):
                        res.count(("replay", "params", tuple(pl)))
                        if len(set(pl)) != len(pl) and not bad:
                            bad = True
                            found[0] = True
                            viol(res, "compile:duplicate-size-bytes-param", "size_bytes declares a parameter twice: %s" % pl,
                                 {"kind": "schema", "schema_xml": xml, "params": pl})
            if not bad:
                for h in sorted(os.path.relpath(f, inc) for f in tree_files(os.path.join(inc, pkg), {".hpp"})):
                    src = os.path.join(td, "h.cpp")
                    open(src, "w").write('#include "%s"\nint main(){}\n' % h)
                    for cxx, std in configs:
                        rc2, err = compile_cpp(src, None, std=std, cxx=cxx, includes=(inc,), syntax_only=True)
                        res.count(("replay", h, cxx, std))
                        if rc2 != 0 and not bad:
                            bad = True
                            found[0] = True
                            viol(res, classify(err), "header %s does not compile (%s -std=%s): %s" % (h, cxx, std, first_errors(err, 2)),
                                          {"kind": "schema", "schema_xml": xml, "unit": h, "stderr": first_errors(err, 12)})
                if replay.get("touch_source") and not bad:
                    src = os.path.join(td, "t.cpp")
                    open(src, "w").write(replay["touch_source"])
                    for cxx, std in configs:
                        rc2, err = compile_cpp(src, None, std=std, cxx=cxx, includes=(inc,), syntax_only=True)
                        res.count(("replay", "touch", cxx, std))
                        if rc2 != 0 and not bad:
                            bad = True
                            found[0] = True
                            viol(res, classify(err), "touch TU does not compile (%s -std=%s): %s" % (cxx, std, first_errors(err, 2)),
                                          {"kind": "schema", "schema_xml": xml, "unit": "touch", "stderr": first_errors(err, 12),
                                           "touch_source": replay["touch_source"]})
            shutil.rmtree(td, ignore_errors=True)
        res.extra.pop("_seen_signatures", None)
        if not ok_proof:
            proof_failure_violation(res, found[0])
        return res.finish(level="partial-proof+sampling")

    exe = run_unit(res, rng.fork("unit"), model, literal_cases(rng.fork("lit"), res.tier), FP_TEXTS, STR_CASES, found)
    if exe:
        run_names_unit(res, rng.fork("names"), model, exe, 4000 if thorough else 600, found)
    run_semantics(res, model, rng, configs if thorough else configs[:2] + configs[2:], found)
    run_e2e(res, rng.fork("e2e"), model, e2e_schemas(rng.fork("gen"), res.tier), configs, found)
    run_e2e(res, rng.fork("probe"), model, [(s, {"probe": n}) for n, s in probe_schemas()], configs[:1], found, label="probe", allow_reject=True)
    sw = sweep_schemas(rng.fork("sweep"), res.tier)
    res.extra["identifier_sweep"] = {"harvested": sw[0][1]["harvested"] if sw else 0, "chunks": [x[1]["sweep_identifiers"] for x in sw]}
    run_e2e(res, rng.fork("sweep2"), model, sw, configs[:2] if not thorough else configs[:3], found, label="sweep")

    res.extra.pop("_seen_signatures", None)
    if not ok_proof:
        proof_failure_violation(res, found[0])
    return res.finish(level="partial-proof+sampling", trusted=[
        "Literals.v: [lex.icon] literal typing on LP64, unary/binary minus through CInt, [dcl.init.list] narrowing for "
        "constant integer sources, escape sequences of narrow string literals; validated against g++/clang++ by part (B)",
        "std::from_chars / fmt \"{}\" modelled by Coq.Numbers.DecimalString (NilZero) and N.to_uint / N.of_uint",
        "char is signed (x86-64)",
        "correspondence: cpp/c07_harness.cpp calls /repo's sbeppc functions; harness/touchgen.py touch-everything TUs",
        "extraction: ExtrOcamlBasic + `Extract Inductive string => ascii list` (coq/ExtrStrings.v); ocaml/drv_c07.ml hex<->ascii list"])
