"""C20 — sbeppc's exit status is truthful and its output deterministic.

Route T4: /repo's sbeppc is run under harness/iofault.c (LD_PRELOAD), which
fails the k-th mkdir/open/write/close under the output directory with a chosen
errno or makes a write short.  For every k of the fault-free call sequence and
every fault kind the observation (exit status, diagnostic, full call trace,
directory tree) is compared with IoModel's prediction; independently of the
model the property itself is judged on the observation:
    exit 0  =>  every generated file is byte-identical to the fault-free run
    a call failed  =>  exit != 0 and an "Error" line
A second tie drives fs_provider.hpp directly (cpp/c20_harness.cpp) with random
plans (arbitrary paths, sizes around the stream-buffer boundaries, repeated
paths, multi-fault schedules)."""
import concurrent.futures
import os
import re
import resource
import signal
import subprocess
import time
from common import *
import msggen

ANSI = re.compile(r"\x1b\[[0-9;]*m")
ERRNAMES = {28: "enospc", 13: "eacces", 5: "eio"}
WORKERS = 16


# --------------------------------------------------------------------------
# builds
# --------------------------------------------------------------------------

def build_shim():
    src = os.path.join(VERIF, "harness", "iofault.c")
    key = hash_files([src])
    d = os.path.join(CACHE, "iofault-" + key)
    so = os.path.join(d, "iofault.so")
    with Lock("iofault-" + key):
        if os.path.exists(so):
            os.utime(d)
            return so
        os.makedirs(d, exist_ok=True)
        rc, out, err = sh(["cc", "-O1", "-shared", "-fPIC", "-o", so + ".tmp", src, "-ldl"], timeout=300)
        if rc != 0:
            raise RuntimeError("iofault.c does not build:\n" + err[-3000:])
        os.rename(so + ".tmp", so)
        return so


def build_fs_harness(cxx, std):
    """cpp/c20_harness.cpp against /repo's fs_provider.hpp.  sbeppc is C++17 code: with fmt 12 its
    throw_error(format, ...) only compiles as C++20/23 when fmt's consteval format-string check is off."""
    extra = () if std == "c++17" else ("-DFMT_USE_CONSTEVAL=0",)
    return cached_cpp("c20_harness", os.path.join(VERIF, "cpp/c20_harness.cpp"), std=std, cxx=cxx,
                      flags=("-O1", "-DFMT_SHARED") + extra + ("-isystem", MINICONDA + "/include",
                             "-Wl,--no-as-needed", MINICONDA + "/lib/libfmt.so", "-ldl",
                             "-Wl,-rpath," + MINICONDA + "/lib"),
                      includes=(SBEPPC_SRC,), extra_hash=repo_hash(("sbeppc",)))


# --------------------------------------------------------------------------
# observation of one sbeppc run
# --------------------------------------------------------------------------

def read_tree(root):
    files, dirs = {}, []
    for d, ds, fs in os.walk(root):
        rel = os.path.relpath(d, root)
        if rel != ".":
            dirs.append(rel)
        for f in fs:
            p = os.path.join(d, f)
            files[os.path.relpath(p, root)] = open(p, "rb").read()
    return files, sorted(dirs)


def parse_log(path, root):
    toks, failed = [], []
    if not os.path.exists(path):
        return toks, failed
    for line in open(path):
        w = line.split()
        if len(w) < 4 or (w[1] == "write" and len(w) < 5):
            continue
        kind, p = w[1], os.path.relpath(w[2], root)
        if kind == "write":
            toks.append("W:%s:%s:%s" % (p, w[3], w[4]))
            res = w[4]
        else:
            toks.append("%s:%s:%s" % ({"mkdir": "M", "open": "O", "close": "C", "fsync": "F",
                                       "rename": "R"}.get(kind, "?"), p, w[3]))
            res = w[3]
        if res.startswith("E"):
            failed.append((int(w[0]), kind, p, res))
    return toks, failed


STRERR = None


def parse_diag(out, root):
    """canonical diagnostic from sbeppc's stdout"""
    global STRERR
    if STRERR is None:
        STRERR = {os.strerror(c): c for c in range(1, 134)}
    txt = ANSI.sub("", out)
    errs = [l for l in txt.split("\n") if l.startswith("Error: ")]
    if not errs:
        return "-", ""
    l = errs[0]

    def rel(p):
        p = p.strip().strip('"')
        return os.path.relpath(p, root) if p.startswith("/") else p
    m = re.search(r"can't create directory (.*), error: `(.*)`", l)
    if m:
        return "mkdir:%s:%d" % (rel(m.group(1)), STRERR.get(m.group(2), 0)), l
    m = re.search(r"can't open file: `(.*)`", l)
    if m:
        return "open:" + rel(m.group(1)), l
    m = re.search(r"can't write file: `(.*)`", l)
    if m:
        return "write:" + rel(m.group(1)), l
    return "other", l


class Obs:
    pass


def file_state(got, want):
    if got is None:
        return "absent"
    if got == want:
        return "full"
    if want.startswith(got):
        return "part%d" % len(got)
    return "other%d" % len(got)


def run_case(exe, shim, xml_path, scratch, tag, sched, populate=None, rlimit=None, other_env=False):
    """one sbeppc run in a fresh root; returns Obs.  other_env: relative --output-dir from another working
    directory under a different locale/time zone/HOME (determinism runs; the shim sees no absolute path then)"""
    xml_path, extra = xml_path if isinstance(xml_path, tuple) else (xml_path, [])
    root = os.path.join(scratch, tag)
    os.makedirs(root)
    out_dir = os.path.join(root, "out")
    log = os.path.join(root, "log")
    if populate is not None:
        if isinstance(populate, tuple):        # (files, directories): empty directories matter too
            for d in populate[1]:
                os.makedirs(os.path.join(root, d), exist_ok=True)
            populate = populate[0]
        for rel, data in populate.items():
            p = os.path.join(root, rel)
            os.makedirs(os.path.dirname(p), exist_ok=True)
            with open(p, "wb") as f:
                f.write(data)
    env = dict(os.environ)
    # (under RLIMIT_FSIZE the log would be cut short as well: no log there)
    env.update({"LD_PRELOAD": shim, "IOFAULT_PREFIX": out_dir, "IOFAULT_SCHED": sched,
                "IOFAULT_LOG": "" if rlimit is not None else log})
    pre = None
    if rlimit is not None:
        def pre():
            signal.signal(signal.SIGXFSZ, signal.SIG_IGN)
            resource.setrlimit(resource.RLIMIT_FSIZE, (rlimit, rlimit))
    o = Obs()
    try:
        if other_env:
            # another locale / time zone / HOME and a wall clock 400 days and some hours ahead (another year)
            env.update({"TZ": "Asia/Tokyo", "LC_ALL": "C", "LANG": "C", "HOME": "/nonexistent", "COLUMNS": "40",
                        "IOFAULT_TIME_SHIFT": str(400 * 86400 + 7 * 3600 + 11)})
        p = subprocess.run([exe, "--output-dir", "out" if other_env else out_dir] + list(extra) + [xml_path], env=env,
                           cwd=root if other_env else None, stdout=subprocess.PIPE,
                           stderr=subprocess.PIPE, timeout=120, preexec_fn=pre)
        o.rc, o.out = p.returncode, p.stdout.decode("utf-8", "replace") + p.stderr.decode("utf-8", "replace")
    except subprocess.TimeoutExpired:
        o.rc, o.out = 124, "TIMEOUT"
    o.trace, o.failed = parse_log(log, root)
    if os.path.exists(log):
        os.remove(log)
    o.files, o.dirs = read_tree(root)
    o.diag, o.errline = parse_diag(o.out, root)
    shutil.rmtree(root, ignore_errors=True)
    return o


def canon(o, order, ref):
    return "status=%d diag=%s calls=%d trace=%s dirs=%s files=%s" % (
        o.rc, o.diag, len(o.trace), ";".join(o.trace) or "-", ",".join(o.dirs) or "-",
        ",".join("%s=%s" % (p, file_state(o.files.get(p), ref[p])) for p in order) or "-")


# --------------------------------------------------------------------------
# schemas
# --------------------------------------------------------------------------

def pick_schemas(rng, tier, scratch, exe):
    """[(label, xml_path, xml_text)]: schemas from /repo/test/schemas and msggen"""
    names = ["test_schema2.xml", "big_endian_schema.xml"]
    if tier == "thorough":
        names += ["test_schema.xml", "traits_test_schema.xml", "traits_test_schema2.xml"]
    out = []
    for n in names:
        p = os.path.join(REPO, "test/schemas", n)
        if not os.path.exists(p):
            p = os.path.join("/repo/test/schemas", n)
        # /repo/test/CMakeLists.txt passes SCHEMA_NAME for every test schema (one has an empty package)
        out.append((n, (p, ["--schema-name", n[:-4]]), open(p).read()))
    want = 2 if tier == "quick" else 6
    idx = 0
    while want > 0 and idx < 40:
        g = msggen.Gen(rng.fork("c20schema%d" % idx), "rs%d" % idx)
        s = g.schema(nmsg=2 if tier == "quick" else 3, max_depth=2)
        xml = msggen.schema_to_xml(s)
        p = os.path.join(scratch, "rs%d.xml" % idx)
        open(p, "w").write(xml)
        rc, o, e = sh([exe, "--output-dir", os.path.join(scratch, "probe%d" % idx), p], timeout=60)
        shutil.rmtree(os.path.join(scratch, "probe%d" % idx), ignore_errors=True)
        idx += 1
        if rc == 0:
            out.append(("gen:rs%d" % (idx - 1), (p, []), xml))
            want -= 1
    return out


class Ref:
    """fault-free reference of one schema"""
    pass


def model_gen_line(mid, ref):
    def hexs(b):
        return b.hex() if b else "-"
    base = "out/" + ref.sname
    toks = ["c20gen", mid, "out", ref.sname, hexs(ref.files[base + "/schema/schema.hpp"]),
            hexs(ref.files[base + "/" + ref.sname + ".hpp"]), str(len(ref.types))]
    for n in ref.types:
        toks += [n, hexs(ref.files["%s/types/%s.hpp" % (base, n)])]
    toks.append(str(len(ref.messages)))
    for n in ref.messages:
        toks += [n, hexs(ref.files["%s/messages/%s.hpp" % (base, n)])]
    return " ".join(toks)


def make_ref(exe, shim, label, xml_path, scratch, tag):
    o = run_case(exe, shim, xml_path, scratch, tag, "-")
    r = Ref()
    r.obs = o
    r.files, r.dirs, r.trace = o.files, o.dirs, o.trace
    r.n = len(o.trace)
    opens = [t.split(":")[1] for t in o.trace if t.startswith("O:")]
    r.order = opens
    tops = [d for d in o.dirs if d.count("/") == 1 and d.startswith("out/")]
    r.sname = tops[0].split("/")[1] if tops else "?"
    base = "out/" + r.sname
    r.types = [os.path.basename(p)[:-4] for p in opens if p.startswith(base + "/types/")]
    r.messages = [os.path.basename(p)[:-4] for p in opens if p.startswith(base + "/messages/")]
    r.write_ks = [i for i, t in enumerate(o.trace) if t.startswith("W:")]
    r.close_ks = [i for i, t in enumerate(o.trace) if t.startswith("C:")]
    r.open_ks = [i for i, t in enumerate(o.trace) if t.startswith("O:")]
    return r


def schedules(rng, ref, tier, popn):
    """[(disk0, sched)] for one schema"""
    cs = []
    n = ref.n
    for k in range(n):
        for kind in ("enospc", "eacces", "eio"):
            cs.append(("fresh", "%d:%s" % (k, kind)))
        cs.append(("fresh", "%d:short%d" % (k, rng.choice([1, 7, 100, 1024, 4096, 8191, 100000]))))
        cs.append(("fresh", "%d+:enospc" % k))
    for k in ref.write_ks:
        m = rng.choice([1, 100, 4096, 8192])
        cs.append(("fresh", "%d:short%d,%d:eio" % (k, m, k + 1)))
        cs.append(("fresh", "%d:short%d,%d:short%d,%d+:enospc" % (k, m, k + 1, rng.choice([1, 50, 3000]), k + 2)))
    # the disk is full: directory entries can be made, no data can be written
    cs.append(("fresh", ",".join("%d:enospc" % k for k in ref.write_ks)))
    # deferred errors reported by close (NFS, quota)
    cs.append(("fresh", ",".join("%d:eio" % k for k in ref.close_ks)))
    # every write is short once: one more call per file, everything still complete
    sh_all, shift = [], 0
    for k in ref.write_ks:
        sh_all.append("%d:short%d" % (k + shift, rng.choice([1, 64, 2048])))
        shift += 1
    cs.append(("fresh", ",".join(sh_all)))
    # into an already populated directory (no mkdir calls there)
    for k in range(popn):
        cs.append(("pop", "%d:%s" % (k, rng.choice(["enospc", "eacces", "eio"]))))
        if tier == "thorough" or k % 3 == 1:
            cs.append(("pop", "%d+:enospc" % k))
            cs.append(("pop", "%d:short%d" % (k, rng.choice([1, 512, 9000]))))
    if tier == "thorough":
        for k in range(n):
            cs.append(("fresh", "%d:e122" % k))      # EDQUOT
            cs.append(("fresh", "%d:e30" % k))       # EROFS
        for _ in range(3 * n):
            ks = sorted({rng.below(n + 4) for _ in range(1 + rng.below(3))})
            cs.append((rng.choice(["fresh", "pop"]),
                       ",".join("%d%s:%s" % (k, "+" if rng.chance(1, 5) else "",
                                             rng.choice(["enospc", "eacces", "eio", "short%d" % (1 + rng.below(9000))]))
                                for k in ks)))
    seen, out = set(), []
    for c in cs:
        if c not in seen and c[1]:
            seen.add(c)
            out.append(c)
    return out


# --------------------------------------------------------------------------
# the check
# --------------------------------------------------------------------------

def par_model(pool, model, head, lines, nchunks=12):
    """run `lines` (each independent once `head` was given) on several driver processes"""
    if not lines:
        return []
    size = max(1, (len(lines) + nchunks - 1) // nchunks)
    chunks = [lines[i:i + size] for i in range(0, len(lines), size)]
    futs = [pool.submit(model.run, [head] + c) for c in chunks]
    out = []
    for f in futs:
        out += f.result()[1:]
    return out


SIG_SEEN = {}
CUR_EXTRA = [[]]     # sbeppc arguments of the schema being processed (for replay files)
LEG_BUDGET = [60]


def record(res, sig, what, rep, cap=3):
    """Result keeps at most 50 violations: keep room for every kind of finding"""
    SIG_SEEN[sig] = SIG_SEEN.get(sig, 0) + 1
    if SIG_SEEN[sig] <= cap:
        res.violation(sig, what, rep)


def judge(res, model, gen_line, mid, label, xml, disk0, sched, o, ref, exp_cur):
    """returns True when a violation was recorded"""
    got = canon(o, ref.order, ref.files)
    exp_leg = None
    if got != exp_cur or (o.rc == 0 and o.failed):
        # only needed to describe a disagreement: what the unrepaired code is modelled to do
        if LEG_BUDGET[0] <= 0:
            return True      # (dozens of described disagreements are already on record)
        LEG_BUDGET[0] -= 1
        exp_leg = model.run([gen_line, "c20run legacy %s %s %s" % (mid, disk0, sched)])[1]
    incomplete = [p for p in ref.order if o.files.get(p) != ref.files[p]]
    rep = {"schema": label, "schema_xml": xml, "extra_args": CUR_EXTRA[0], "disk0": disk0, "sched": sched, "observed": got,
           "model_cur": exp_cur, "model_legacy": exp_leg, "stdout": ANSI.sub("", o.out)[-600:],
           "agrees_with_legacy_model": got == exp_leg}
    first_kind = o.failed[0][1] if o.failed else "none"
    if o.rc == 0 and incomplete:
        p = incomplete[0]
        record(res, "exit0-incomplete:%s" % first_kind,
                      "sbeppc exits 0 but %s is %s (%d of %d generated files incomplete) after `%s` on call %s "
                      "[schema %s, %s directory]" % (
                          p, file_state(o.files.get(p), ref.files[p]), len(incomplete), len(ref.order),
                          " ".join(o.failed[0][1:]) if o.failed else "?", o.failed[0][0] if o.failed else "?",
                          label, disk0), rep)
        return True
    if o.failed and (o.rc == 0 or o.diag == "-"):
        record(res, "fault-unreported:%s" % first_kind,
                      "call %d (%s %s) failed with %s but sbeppc exits %d %s a diagnostic [schema %s, %s directory]" % (
                          o.failed[0][0], o.failed[0][1], o.failed[0][2], o.failed[0][3], o.rc,
                          "without" if o.diag == "-" else "with", label, disk0), rep)
        return True
    if not o.failed and (o.rc != 0 or o.diag != "-" or incomplete):
        record(res, "spurious-error", "no call failed but sbeppc exits %d (%s) [schema %s]" % (o.rc, o.errline, label), rep)
        return True
    if got != exp_cur and got == exp_leg:
        record(res, "legacy-behaviour:%s" % first_kind,
                      "sbeppc behaves like IoModel.Legacy (stream never checked after <</close), not like the repaired "
                      "model, for schedule %s [schema %s, %s directory]" % (sched, label, disk0), rep)
        return True
    if got != exp_cur:
        a, b = got.split(" "), exp_cur.split(" ")
        d = next((x.split("=")[0] for x, y in zip(a, b) if x != y), "?")
        record(res, "model-mismatch:%s" % d,
                      "sbeppc and IoModel disagree on `%s` for schedule %s [schema %s, %s directory]" % (d, sched, label, disk0),
                      rep)
        return True
    return False


def fs_harness_cases(rng, tier):
    """random plans for the fs_provider tie: (plan tokens, [(disk0, sched)])"""
    out = []
    nplans = 12 if tier == "quick" else 60
    sizes = [0, 1, 2, 3, 100, 1023, 1024, 1025, 4096, 8190, 8191, 8192, 8193, 20000]
    for i in range(nplans):
        r = rng.fork("fsplan%d" % i)
        comps = ["a", "b", "cc", "d_1", "e.x"]
        dirs, steps, files = [], [], []
        for _ in range(1 + r.below(3)):
            d = "/".join(["w"] + [r.choice(comps) for _ in range(1 + r.below(3))])
            dirs.append(d)
            steps.append("M:" + d)
        if r.chance(1, 3):
            steps.append("M:" + r.choice(dirs))   # already there: no call
        for _ in range(1 + r.below(5)):
            d = r.choice(dirs)
            if r.chance(1, 4) and "/" in d:
                d = d.rsplit("/", 1)[0]
            p = d + "/" + (r.choice(files).rsplit("/", 1)[1] if files and r.chance(1, 5) else "f%d.hpp" % r.below(6))
            n = r.choice(sizes) if r.chance(3, 4) else r.below(30000)
            data = bytes(r.below(256) for _ in range(min(n, 64))) * (n // 64 + 1) if n else b""
            data = data[:n]
            files.append(p)
            steps.append("W:%s:%s" % (p, data.hex() if data else "-"))
        if r.chance(1, 4):
            steps.append("M:" + "/".join(["w", "late", r.choice(comps)]))
            steps.append("W:w/late/%s/z.hpp:%s" % (steps[-1].rsplit("/", 1)[1], bytes([r.below(256)] * r.below(300)).hex() or "-"))
        out.append((r, steps))
    return out


def run(res, replay=None):
    rng = SplitMix64(res.seed)
    res.rule = ("T4 fault injection into /repo's sbeppc (LD_PRELOAD harness/iofault.c): for each schema (2 from "
                "/repo/test/schemas + 2 msggen in quick; 5 + 6 in thorough) the fault-free call trace is recorded (N calls) "
                "and for EVERY k in 0..N-1: ENOSPC, EACCES, EIO, a short write, and ENOSPC from call k on; for every "
                "write call: short-then-EIO and short-short-then-persistent-ENOSPC; all writes fail (disk full), all "
                "closes fail, every write short; every k again into an already populated directory; RLIMIT_FSIZE run "
                "without the shim's faults (real kernel EFBIG). Each run: exit status, diagnostic, complete call trace, "
                "directory tree and per-file completeness are compared with IoModel.run and judged against the property "
                "(exit 0 => every file byte-identical to the fault-free run; failed call => exit != 0 + Error line). "
                "Determinism: repeated fresh runs + run into the populated tree, byte-identical trees. Second tie: "
                "cpp/c20_harness.cpp drives fs_provider.hpp with random plans x every k x fault kinds. Non-trivial = a "
                "distinct (schema or plan, initial directory, schedule) in which an injected fault or short write was hit.")
    T = [time.time()]

    def lap(what):
        T.append(time.time())
        log("[c20] %-28s %.1fs" % (what, T[-1] - T[-2]))
    ok_proof = proof_step(res)
    model = Model()
    found = False
    lap("proof step")
    exe = build_sbeppc()
    shim = build_shim()
    scratch = tmpdir("sbepp-verif-c20-")
    stats = {"sbeppc_runs": 0, "schemas": 0, "calls_per_schema": {}, "determinism_runs": 0, "fs_provider_cases": 0,
             "exit0_runs": 0, "error_runs": 0}
    try:
        if replay and replay.get("kind") == "fs":
            schemas = []
        elif replay and replay.get("schema_xml"):
            p = os.path.join(scratch, "replay.xml")
            open(p, "w").write(replay["schema_xml"])
            schemas = [(replay.get("schema", "replay"), (p, replay.get("extra_args", [])), replay["schema_xml"])]
        else:
            schemas = pick_schemas(rng, res.tier, scratch, exe)
        pool = concurrent.futures.ThreadPoolExecutor(max_workers=WORKERS)
        for si, (label, xml_path, xml) in enumerate(schemas):
            srng = rng.fork("sched:" + label)
            CUR_EXTRA[0] = list(xml_path[1])
            ref = make_ref(exe, shim, label, xml_path, scratch, "ref%d" % si)
            stats["sbeppc_runs"] += 1
            if ref.obs.rc != 0 or not ref.order:
                res.violation("harness-schema-rejected", "sbeppc rejects schema %s: %s" % (label, ref.obs.out[-300:]),
                              {"schema_xml": xml, "extra_args": CUR_EXTRA[0], "no_failing_input": True})
                continue
            stats["schemas"] += 1
            stats["calls_per_schema"][label] = ref.n
            pop_files = ({p: d for p, d in ref.files.items()}, list(ref.dirs))
            # ---- determinism: fresh runs and a run into the populated tree
            reps = 2 if res.tier == "quick" else 8
            dets = [pool.submit(run_case, exe, shim, xml_path, scratch, "det%d_%d" % (si, i), "-") for i in range(reps)]
            dets.append(pool.submit(run_case, exe, shim, xml_path, scratch, "detenv%d" % si, "-", None, None, True))
            dets.append(pool.submit(run_case, exe, shim, xml_path, scratch, "detpop%d" % si, "-", pop_files))
            popn = None
            for i, f in enumerate(dets):
                o = f.result()
                stats["sbeppc_runs"] += 1
                stats["determinism_runs"] += 1
                res.count(("det", label, i))
                if i == len(dets) - 1:
                    popn = len(o.trace)
                if o.rc != 0 or o.files != ref.files or o.dirs != ref.dirs:
                    found = True
                    diff = sorted(p for p in set(o.files) | set(ref.files) if o.files.get(p) != ref.files.get(p))
                    res.violation("nondeterministic-output",
                                  "compiling %s again (%s) gives a different tree: rc=%d, differing files %s" % (
                                      label, "populated directory" if i == len(dets) - 1 else "fresh directory", o.rc, diff[:5]),
                                  {"schema": label, "schema_xml": xml, "extra_args": CUR_EXTRA[0], "disk0": "pop" if i == len(dets) - 1 else "fresh",
                                   "sched": "-", "differing": diff[:20]})
            # ---- real kernel: RLIMIT_FSIZE (EFBIG, SIGXFSZ ignored), no injected fault
            if not replay or replay.get("rlimit_fsize"):
                biggest = max(len(d) for d in ref.files.values())
                for lim in ([replay["rlimit_fsize"]] if replay else sorted({1024, max(1, biggest // 2)})):
                    o = run_case(exe, shim, xml_path, scratch, "rl%d_%d" % (si, lim), "-", None, rlimit=lim)
                    stats["sbeppc_runs"] += 1
                    res.count((label, "rlimit", lim))
                    incomplete = [p for p in ref.order if o.files.get(p) != ref.files[p]]
                    if o.rc == 0 and incomplete:
                        found = True
                        p = incomplete[0]
                        record(res, "exit0-incomplete:rlimit",
                                      "under RLIMIT_FSIZE=%d sbeppc exits 0 but %s has %s of %d bytes (%d files incomplete) "
                                      "[schema %s]" % (lim, p, len(o.files.get(p, b"")), len(ref.files[p]), len(incomplete), label),
                                      {"schema": label, "schema_xml": xml, "extra_args": CUR_EXTRA[0], "disk0": "fresh", "sched": "-",
                                       "rlimit_fsize": lim, "observed": canon(o, ref.order, ref.files)})
            # ---- fault schedules
            if replay:
                cases = [] if replay.get("rlimit_fsize") else [(replay["disk0"], replay["sched"])]
            else:
                cases = schedules(srng, ref, res.tier, popn or 0)
            mid = "s%d" % si
            gen_line = model_gen_line(mid, ref)
            run_lines_ = ["c20run cur %s %s %s" % (mid, d0, sc) for d0, sc in cases] + ["c20run cur %s fresh -" % mid]
            lap("%s: reference+determinism" % label)
            mout = par_model(pool, model, gen_line, run_lines_)
            lines = run_lines_
            lap("%s: model, %d runs" % (label, len(lines) - 1))
            # the model's fault-free run must be the observed fault-free run
            ff = canon(ref.obs, ref.order, ref.files)
            res.count(("fault-free", label))
            if mout[-1] != ff:
                found = True
                a, b = ff.split(" "), mout[-1].split(" ")
                d = next((x.split("=")[0] for x, y in zip(a, b) if x != y), "?")
                res.violation("model-mismatch:fault-free:%s" % d,
                              "fault-free run of %s: IoModel.plan_of / call sequence differs from sbeppc in `%s`" % (label, d),
                              {"schema": label, "schema_xml": xml, "extra_args": CUR_EXTRA[0], "disk0": "fresh", "sched": "-", "observed": ff,
                               "model_cur": mout[-1]})
            futs = [pool.submit(run_case, exe, shim, xml_path, scratch, "c%d_%d" % (si, ci), sc,
                                pop_files if d0 == "pop" else None)
                    for ci, (d0, sc) in enumerate(cases)]
            for ci, ((d0, sc), f) in enumerate(zip(cases, futs)):
                o = f.result()
                stats["sbeppc_runs"] += 1
                stats["exit0_runs" if o.rc == 0 else "error_runs"] += 1
                hit = bool(o.failed) or any(t.startswith("W:") and t.split(":")[2] != t.split(":")[3] for t in o.trace)
                res.count((label, d0, sc), hit)
                if judge(res, model, gen_line, mid, label, xml, d0, sc, o, ref, mout[ci]):
                    found = True
                elif ci % 97 == 5:
                    res.sample({"schema": label, "disk0": d0, "sched": sc, "status": o.rc, "diag": o.diag,
                                "calls": len(o.trace)})
            lap("%s: sbeppc, %d runs" % (label, len(cases)))
        # ---- conflicts the model does not describe: judged against the property only
        if not replay and schemas:
            label, xml_path, xml = schemas[0]
            CUR_EXTRA[0] = list(xml_path[1])
            ref = make_ref(exe, shim, label, xml_path, scratch, "refc")
            base = "out/" + ref.sname
            # a regular file where a directory is needed; a directory where the last file is to be written
            confl = [("file-where-directory", {base + "/types": b"x"}),
                     ("directory-where-file", {ref.order[-1] + "/keep": b""})]
            for name, popf in confl:
                o = run_case(exe, shim, xml_path, scratch, "cf_" + name, "-", popf)
                stats["sbeppc_runs"] += 1
                res.count(("conflict", name))
                incomplete = [p for p in ref.order if o.files.get(p) != ref.files[p]]
                if incomplete and (o.rc == 0 or o.diag == "-"):
                    found = True
                    res.violation("exit0-incomplete:conflict:" + name,
                                  "%s: sbeppc exits %d %s a diagnostic although %d files are missing" % (
                                      name, o.rc, "without" if o.diag == "-" else "with", len(incomplete)),
                                  {"schema": label, "schema_xml": xml, "extra_args": CUR_EXTRA[0], "conflict": name, "disk0": "conflict", "sched": "-"})
        # ---- second tie: fs_provider.hpp driven directly
        if not replay or replay.get("kind") == "fs":
            lap("rlimit+conflicts")
            found |= fs_tie(res, rng, model, shim, scratch, stats, replay)
            lap("fs_provider tie")
        pool.shutdown()
    finally:
        shutil.rmtree(scratch, ignore_errors=True)
    res.extra["counts"] = stats
    if not ok_proof:
        proof_failure_violation(res, found)
    return res.finish(trusted=[
        "IoModel.v: the OS is a fault oracle over mkdir/open/write/close; stat() answers come from the model's own "
        "directory set; file-vs-directory conflicts, EINTR/EEXIST special cases and stdout failures are not modelled",
        "libstdc++ (GCC 12) basic_filebuf/xwrite/xwritev and std::filesystem::create_directories behave as transcribed "
        "(checked call by call by the trace comparison)",
        "harness/iofault.c interposes fopen/fopen64/fclose/open*/creat/mkdir*/write/writev/pwrite/close/fsync/rename "
        "(verified with strace/ltrace that these are what libstdc++ calls)",
        "determinism is decided by the correspondence only (no proof content in a functional model)",
        "extraction: ExtrOcamlBasic only; ocaml/drv_c20.ml path/hex conversion"])


def fs_tie(res, rng, model, shim, scratch, stats, replay):
    """cpp/c20_harness.cpp: fs_provider.hpp + the try/catch of main() on random plans"""
    found = False
    cfgs = [("g++", "c++17"), ("g++", "c++20")]
    if res.tier == "thorough":
        cfgs += [("clang++", "c++17"), ("clang++", "c++20"), ("g++", "c++23"), ("clang++", "c++2b")]
    res.extra["configurations"] = ["sbeppc: g++ -std=c++17 -O1 (common.build_sbeppc)"] + \
        ["c20_harness: %s -std=%s -O1" % c for c in cfgs]
    if replay:
        plans = [(None, replay["plan"])]
    else:
        plans = fs_harness_cases(rng, res.tier)
    pool = concurrent.futures.ThreadPoolExecutor(max_workers=WORKERS)
    groups = []          # per plan: (lines, meta)
    for pi, (r, steps) in enumerate(plans):
        pid = "p%d" % pi
        head = "c20plan %s %s" % (pid, " ".join(steps))
        if replay:
            cases = [(replay["disk0"], replay["sched"])]
        else:
            # fault-free count from the model, then every k
            n = int(model.run([head, "c20run cur %s fresh -" % pid])[1].split("calls=")[1].split()[0])
            cases = [("fresh", "-"), ("pop", "-")]
            for k in range(n):
                cases.append(("fresh", "%d:%s" % (k, r.choice(["enospc", "eacces", "eio"]))))
                cases.append(("fresh", "%d:short%d" % (k, r.choice([1, 5, 1000, 8191, 8192]))))
                if r.chance(1, 2):
                    cases.append(("fresh", "%d:short%d,%d:%s" % (k, 1 + r.below(9000), k + 1, r.choice(["eio", "short3", "enospc"]))))
                if r.chance(1, 3):
                    cases.append(("pop", r.choice(["%d:enospc", "%d+:enospc", "%d:eio", "%d+:eio", "%d:short17", "%d+:short2500"]) % k))
                if r.chance(1, 3):
                    # (persistent short writes stay >= 2 kB: a 1-byte trickle over a 30 kB file is 30 000 calls)
                    cases.append(("fresh", "%d+:%s" % (k, r.choice(["enospc", "short2048", "short4096"]))))
        groups.append(([head] + ["c20run cur %s %s %s" % (pid, d0, sc) for d0, sc in cases],
                       [(steps, d0, sc) for d0, sc in cases]))
    mfuts = [pool.submit(model.run, g[0]) for g in groups]
    mouts = [f.result()[1:] for f in mfuts]
    env = dict(os.environ)
    env.update({"LD_PRELOAD": shim})
    for cxx, std in cfgs:
        try:
            hexe = build_fs_harness(cxx, std)
        except BuildError as e:
            res.violation("harness-build:%s:%s" % (cxx, std), "C20 fs_provider harness no longer builds against /repo",
                          {"no_failing_input": True, "correspondence": "c20_harness.cpp", "error": str(e)[-3000:]})
            continue

        def one(gi):
            sub = os.path.join(scratch, "fs_%s_%s_%d" % (cxx.replace("+", "p"), std.replace("+", "p"), gi))
            os.makedirs(sub, exist_ok=True)
            e2 = dict(env)
            e2["C20_SCRATCH"] = sub
            return run_lines(hexe, groups[gi][0], env=e2)
        hfuts = [pool.submit(one, gi) for gi in range(len(groups))]
        for gi, f in enumerate(hfuts):
            rc, got, err = f.result()
            if rc != 0 or len(got) != len(groups[gi][0]):
                found = True
                res.violation("fs-harness-crash", "c20_harness crashed (%s %s): %s" % (cxx, std, err[-300:]),
                              {"kind": "fs", "plan": groups[gi][1][0][0], "disk0": "fresh", "sched": "-",
                               "stderr": err[-2000:], "no_failing_input": True})
                continue
            for (steps, d0, sc), e, g in zip(groups[gi][1], mouts[gi], got[1:]):
                stats["fs_provider_cases"] += 1
                res.count(("fs", " ".join(steps)[:200], d0, sc, cxx, std), sc != "-")
                if e != g:
                    found = True
                    ef = dict(x.split("=", 1) for x in e.split(" "))
                    gf = dict(x.split("=", 1) for x in g.split(" ")) if g.startswith("status=") else {}
                    d = next((k for k in ef if ef[k] != gf.get(k)), "?")
                    bad = gf.get("status") == "0" and any(not x.endswith("=full") for x in gf.get("files", "").split(","))
                    sig = ("fs:exit0-incomplete" if bad else "fs:model-mismatch:" + d)
                    record(res, sig, "fs_provider (%s -std=%s) on a %d-step plan, %s directory, schedule %s: %s" % (
                        cxx, std, len(steps), d0, sc,
                        "no exception although a file is incomplete" if bad else "differs from IoModel in `%s`" % d),
                        {"kind": "fs", "plan": steps, "disk0": d0, "sched": sc, "model_cur": e, "observed": g,
                         "config": [cxx, std]})
    pool.shutdown()
    meta = [m for g in groups for m in g[1]]
    if plans and not replay:
        res.sample({"fs_plan": [s[:60] for s in plans[0][1]], "cases": sum(1 for m in meta if m)})
    return found
