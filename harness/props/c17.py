"""C17 — header fillers write exactly the schema's identifying values."""
from common import *
from msgcheck import *
import c01

TMAXP = {"uint8": 255, "uint16": 65535, "uint32": 2 ** 32 - 1, "uint64": 2 ** 64 - 1}


def group_paths(lv, prefix=()):
    """all groups as (chain of (group index) from the root, group object)"""
    out = []
    for gi, g in enumerate(lv.groups):
        out.append((prefix + (gi,), g))
        out += group_paths(g, prefix + (gi,))
    return out


def nig_prim(s, g):
    c = s.types[g.dim]
    m = [x for x in c.members if x.name == "numInGroup"][0]
    return m.prim if m.kind == "type" else s.types[m.ref].prim


def run(res, replay=None):
    rng = SplitMix64(res.seed + 17)
    res.rule = ("random accepted schemas with header composites of every layout (member order permuted, custom offsets, "
                "extra members, ref-typed members, optional numGroups/numVarDataFields, every unsigned type) x every "
                "message and every group level x numInGroup in {0,1,7,type max,random}: fill_message_header / "
                "fill_group_header on a random background; the whole buffer afterwards must equal the model's (header "
                "members = schema values, every other byte unchanged), the returned view must be the header. "
                "Non-trivial = distinct (schema, level, numInGroup, background).")
    ok_proof = proof_step(res)
    model = Model()
    found = False
    nschemas = 8 if res.tier == "quick" else 50
    cfgs = c01.configs_for(res.tier)
    res.extra["configurations"] = ["%s -std=%s" % (c[0], c[1]) for c in cfgs]
    cases = prepare_many(res.seed + 1700, nschemas, cfgs)
    # identifying values beyond 32 bits in 64-bit header members (version_t and block_length_t are 64 bit, schema and
    # template ids 32 bit): schema version, explicit message and group block lengths, ids at 2^32-1
    ws = Schema("hs_wide", big_endian=False, sid=2 ** 32 - 1, version=20240926001)
    ws.add(TypeDef("messageHeader", "composite", members=[TypeDef("blockLength", "type", prim="uint64"), TypeDef("templateId", "type", prim="uint32"),
                                                          TypeDef("schemaId", "type", prim="uint32"), TypeDef("version", "type", prim="uint64")]))
    ws.add(TypeDef("wideDim", "composite", members=[TypeDef("blockLength", "type", prim="uint64"), TypeDef("numInGroup", "type", prim="uint16")]))
    wm3 = Message("W3", 3, block_length=2 ** 32 + 24)     # fill_message_header only: its groups would lie 4 GiB away
    wm3.fields.append(Field("a", 1, "uint32"))
    ws.messages.append(wm3)
    wm = Message("W", 2 ** 32 - 1)
    wm.fields.append(Field("a", 1, "uint32"))
    wg = Group("wide", 10, "wideDim", block_length=2 ** 32 + 8); wg.fields.append(Field("x", 1, "uint16")); wm.groups.append(wg)
    ws.messages.append(wm)
    wm2 = Message("W2", 70000)
    wm2.fields.append(Field("a", 1, "uint8"))
    ws.messages.append(wm2)
    cases.append(prepare_fixed(ws, cfgs))
    hdr_stats = {"ref_members": 0, "custom_offsets": 0, "counters": 0, "extra": 0}
    for ci, mc in enumerate(cases):
        if mc.error:
            kind, msg = mc.error
            res.violation(kind, "schema preparation failed: " + msg[-400:],
                          {"schema_xml": mc.xml, "error": msg[-3000:], "no_failing_input": True,
                           "correspondence": "T1 generated driver"})
            continue
        s = mc.s
        for t in s.types.values():
            if t.kind == "composite" and any(m.name in ("blockLength",) for m in t.members):
                hdr_stats["ref_members"] += sum(1 for m in t.members if m.kind == "ref")
                hdr_stats["custom_offsets"] += sum(1 for m in t.members if m.offset is not None)
                hdr_stats["counters"] += sum(1 for m in t.members if m.name in ("numGroups", "numVarDataFields"))
                hdr_stats["extra"] += sum(1 for m in t.members if m.name.startswith("extra"))
        trng = rng.fork("c17-%d" % ci)
        mlines, ilines, jobs = [], [], []
        for m in s.messages:
            scripts = [["fillhdr"]]
            for chain, g in group_paths(m):
                tmax = TMAXP[nig_prim(s, g)]
                for n in (0, 1, 7, tmax, trng.next() % (tmax + 1)):
                    sc = ["fillhdr"]
                    path = "."
                    lv = m
                    for depth, gi in enumerate(chain):
                        last = depth == len(chain) - 1
                        for j in range(gi):
                            sc.append("gfill %s %d 0" % (path, j))
                        sc.append("gfill %s %d %d" % (path, gi, n if last else 1))
                        if not last:
                            path = ("%d:0" % gi) if path == "." else (path + "/%d:0" % gi)
                            lv = lv.groups[gi]
                    scripts.append(sc)
            for sc in scripts:
                bg = bytes(trng.below(256) for _ in range(700))
                base = trng.choice([0, 0, 3, 11])
                full = ["base %d" % base] + sc + ["dump"]
                jobs.append((m, bg, full, len(mlines), len(ilines)))
                mlines += [model_msg_line(s, m), "buf " + hx(bg)] + full
                ilines += ["use " + m.name, "buf " + hx(bg)] + full
        mout = model.run(mlines)
        for (cxx, std), exe in mc.exes.items():
            rc, iout, err = run_impl(exe, ilines)
            if rc != 0 or len(iout) != len(ilines):
                found = True
                res.violation("driver-crash", "generated driver crashed (%s %s): %s" % (cxx, std, err[-300:]),
                              {"schema_xml": mc.xml, "stderr": err[-2000:]})
                continue
            for (m, bg, full, mo, io) in jobs:
                a = mout[mo + 2:mo + 2 + len(full)]
                b2 = iout[io + 2:io + 2 + len(full)]
                res.count((s.package, m.name, tuple(full), hx(bg)[:24], cxx, std))
                if a != b2:
                    j = next(i for i in range(len(full)) if a[i] != b2[i])
                    found = True
                    what = "`%s`: implementation %s, model %s" % (full[j], b2[j][:80], a[j][:80])
                    if full[j] == "dump":
                        d = next((i for i in range(0, min(len(a[j]), len(b2[j])), 2) if a[j][i:i + 2] != b2[j][i:i + 2]), 0) // 2
                        what = "buffer after the header fills differs at byte %d: implementation %s, model %s" % (
                            d, b2[j][2 * d:2 * d + 16], a[j][2 * d:2 * d + 16])
                    res.violation("fill:%s" % ("message" if len(full) == 3 else "group"), what + " (%s -std=%s)" % (cxx, std),
                                  {"schema_xml": mc.xml, "message": m.name, "background": hx(bg), "script": full,
                                   "model": a[j], "observed": b2[j], "config": [cxx, std]})
        if jobs:
            res.sample({"schema": s.package, "message": jobs[-1][0].name, "script": jobs[-1][2]})
    res.extra["header_layout_distribution"] = hdr_stats
    if not ok_proof:
        proof_failure_violation(res, found)
    return res.finish(trusted=[
        "Msg.v do_fills / Layout.v compile_fills (model of the generated fillers), tied by differential runs",
        "harness/msggen.py, harness/msgdrv.py, cpp/msg_harness.hpp; extraction: ExtrOcamlBasic only"])
