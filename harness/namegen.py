"""Schema ASTs for C07 / C18: every attribute sbeppc reads is kept (names, ids,
descriptions, versions, semantic types, min/max/null, constants, offsets), an
XML renderer, a random generator of VALID schemas that concentrates on name
clashes over a fixed identifier pool, on special characters in strings and on
every primitive type x presence x explicit/implicit min/max/null, and the
token streams for the extracted models (Names.v, Traits.v).

Python is plumbing: which name is mangled to what, which literal text is
emitted, offsets, sizes and block lengths are all computed by extracted Coq
functions."""
from common import SplitMix64

PRIMS = ["char", "int8", "uint8", "int16", "uint16", "int32", "uint32", "int64", "uint64", "float", "double"]
INT_PRIMS = PRIMS[:9]
PSIZE = {"char": 1, "int8": 1, "uint8": 1, "int16": 2, "uint16": 2, "int32": 4, "uint32": 4,
         "int64": 8, "uint64": 8, "float": 4, "double": 8}
UNSIGNED = ["uint8", "uint16", "uint32", "uint64"]
CPP_T = {"char": "char", "int8": "::std::int8_t", "uint8": "::std::uint8_t", "int16": "::std::int16_t",
         "uint16": "::std::uint16_t", "int32": "::std::int32_t", "uint32": "::std::uint32_t",
         "int64": "::std::int64_t", "uint64": "::std::uint64_t", "float": "float", "double": "double"}
RANGE = {"char": (-128, 127), "int8": (-128, 127), "uint8": (0, 255), "int16": (-32768, 32767),
         "uint16": (0, 65535), "int32": (-2 ** 31, 2 ** 31 - 1), "uint32": (0, 2 ** 32 - 1),
         "int64": (-2 ** 63, 2 ** 63 - 1), "uint64": (0, 2 ** 64 - 1)}

# identifiers the generated code itself uses somewhere
POOL = ["types", "messages", "schema", "detail", "A", "A_0", "A_1", "A_entry", "A_0_entry", "B", "B_0",
        "num_in_group", "total_data_size", "min_value", "max_value", "null_value", "value_type", "value",
        "size", "header", "data", "entry", "Tag", "Visitor", "Args", "args", "visitor", "c", "v", "m", "g",
        "block_length", "blockLength", "numInGroup", "length", "varData", "size_bytes", "name", "offset",
        "id", "description", "presence", "in_range", "has_value", "type", "sbepp", "std", "Byte_", "cursor",
        "messageHeader", "message", "group", "field", "first", "second", "begin", "end", "front", "back",
        "resize", "clear", "push_back", "x", "y", "empty", "iterator", "size_type", "reference", "value_or",
        "entry_base", "composite_base", "message_base", "bitset_base", "required_base", "byte_range", "operator_"]
# identifiers known to break the generated code (kept out of the default pool;
# probed separately, see PROBE_NAMES in props/c07.py)
PROBE_NAMES = ["Byte", "Cursor", "T"]

STRINGS = ["", "plain", "say \"hi\"", "back\\slash", "tab\there", "it's", "what??/", "??=x??(", "a?b??", "%d {} {0}",
           "new\nline", "<tag> & \"q\"", "\\\"", "trailing\\", "café €", "/* c */ // x", "R\"(raw)\"", "\\0\\n", "?",
           "a\rb", "\x7f",
           # a control character directly followed by an octal digit (a variable-width octal escape would swallow it)
           "one of:\n1 = Buy\n2 = Sell", "tab\t7", "\x7f0", "\x017"]


class T:
    """encoding: kind type|enum|set|composite|ref"""

    def __init__(self, name, kind, **kw):
        self.name, self.kind = name, kind
        self.prim = kw.get("prim")
        self.length = kw.get("length", 1)
        self.presence = kw.get("presence", "required")
        self.members = kw.get("members", [])
        self.values = kw.get("values", [])      # [V]
        self.const_value = kw.get("const_value")
        self.value_ref = kw.get("value_ref")
        self.offset = kw.get("offset")
        self.ref = kw.get("ref")
        self.minv, self.maxv, self.nullv = kw.get("minv"), kw.get("maxv"), kw.get("nullv")
        self.desc = kw.get("desc", "")
        self.semtype = kw.get("semtype", "")
        self.since = kw.get("since", 0)
        self.depr = kw.get("depr")
        self.charenc = kw.get("charenc")

    def is_const(self):
        return self.kind == "type" and self.presence == "constant"


class V:
    """enum value / set choice"""

    def __init__(self, name, value, desc="", since=0, depr=None):
        self.name, self.value, self.desc, self.since, self.depr = name, value, desc, since, depr


class F:
    def __init__(self, name, fid, type_name, offset=None, presence=None, value_ref=None, desc="", since=0, depr=None):
        self.name, self.id, self.type_name, self.offset = name, fid, type_name, offset
        self.presence, self.value_ref, self.desc, self.since, self.depr = presence, value_ref, desc, since, depr


class G:
    def __init__(self, name, gid, dim, block_length=None, desc="", semtype="", since=0, depr=None):
        self.name, self.id, self.dim, self.block_length = name, gid, dim, block_length
        self.desc, self.semtype, self.since, self.depr = desc, semtype, since, depr
        self.fields, self.groups, self.data = [], [], []


class D:
    def __init__(self, name, did, type_name, desc="", since=0, depr=None):
        self.name, self.id, self.type_name, self.desc, self.since, self.depr = name, did, type_name, desc, since, depr


class M:
    def __init__(self, name, mid, block_length=None, desc="", semtype="", since=0, depr=None):
        self.name, self.id, self.block_length = name, mid, block_length
        self.desc, self.semtype, self.since, self.depr = desc, semtype, since, depr
        self.fields, self.groups, self.data = [], [], []


class S:
    def __init__(self, package, big_endian=False, sid=1, version=0, semver="", desc=""):
        self.package, self.big_endian, self.id, self.version = package, big_endian, sid, version
        self.semver, self.desc = semver, desc
        self.types = {}
        self.messages = []
        self.header = "messageHeader"

    def add(self, t):
        assert t.name.lower() not in [k.lower() for k in self.types], t.name
        self.types[t.name] = t
        return t

    def lookup(self, name):
        for k, t in self.types.items():
            if k.lower() == name.lower():
                return t
        raise KeyError(name)

    def enc_prim(self, t):
        if t.kind == "type":
            return t.prim
        if t.kind in ("enum", "set"):
            return t.prim if t.prim in PSIZE else self.lookup(t.prim).prim
        return None


# ----------------------------------------------------------------------
# XML
# ----------------------------------------------------------------------

def xml_attr(v):
    out = []
    for ch in str(v):
        o = ord(ch)
        if ch == "&":
            out.append("&amp;")
        elif ch == "<":
            out.append("&lt;")
        elif ch == ">":
            out.append("&gt;")
        elif ch == '"':
            out.append("&quot;")
        elif o < 32 or o == 127:
            out.append("&#%d;" % o)
        else:
            out.append(ch)
    return "".join(out)


def xml_text(v):
    return str(v).replace("&", "&amp;").replace("<", "&lt;").replace(">", "&gt;")


def _attrs(pairs):
    return "".join(' %s="%s"' % (k, xml_attr(v)) for k, v in pairs if v is not None)


def _common(e):
    return [("description", e.desc or None), ("sinceVersion", e.since or None), ("deprecated", e.depr)]


# SBE type lookup is case-insensitive: when CASE_VARIANT is a SplitMix64 state, every reference to a
# NAMED type (field type, dimensionType, data type, ref type, encodingType, headerType) is rendered with
# a different letter case than its definition (the AST keeps the defining spelling)
CASE_VARIANT = None


def refname(name):
    if CASE_VARIANT is None or name is None or name in PRIMS:
        return name
    k = CASE_VARIANT.below(4)
    if k == 0:
        return name
    alt = name.swapcase() if k == 1 else (name.upper() if k == 2 else name.lower())
    return alt if alt not in PRIMS else name


def enc_xml(t, ind="    "):
    if t.kind == "type":
        a = _attrs([("name", t.name), ("primitiveType", t.prim),
                    ("length", t.length if (t.length != 1 or getattr(t, "force_length", False)) else None),
                    ("presence", t.presence if t.presence != "required" else None),
                    ("offset", t.offset), ("minValue", t.minv), ("maxValue", t.maxv), ("nullValue", t.nullv),
                    ("semanticType", t.semtype or None), ("characterEncoding", t.charenc),
                    ("valueRef", t.value_ref)] + _common(t))
        if t.const_value is not None:
            return "%s<type%s>%s</type>\n" % (ind, a, xml_text(t.const_value))
        return "%s<type%s/>\n" % (ind, a)
    if t.kind in ("enum", "set"):
        tag, vtag = ("enum", "validValue") if t.kind == "enum" else ("set", "choice")
        x = "%s<%s%s>\n" % (ind, tag, _attrs([("name", t.name), ("encodingType", refname(t.prim)), ("offset", t.offset)] + _common(t)))
        for v in t.values:
            x += "%s  <%s%s>%s</%s>\n" % (ind, vtag, _attrs([("name", v.name)] + _common(v)), xml_text(v.value), vtag)
        return x + "%s</%s>\n" % (ind, tag)
    if t.kind == "composite":
        x = "%s<composite%s>\n" % (ind, _attrs([("name", t.name), ("offset", t.offset),
                                                 ("semanticType", t.semtype or None)] + _common(t)))
        for m in t.members:
            x += enc_xml(m, ind + "  ")
        return x + "%s</composite>\n" % ind
    if t.kind == "ref":
        return "%s<ref%s/>\n" % (ind, _attrs([("name", t.name), ("type", refname(t.ref)), ("offset", t.offset),
                                              ("sinceVersion", t.since or None), ("deprecated", t.depr)]))
    raise ValueError(t.kind)


def level_xml(lv, ind):
    x = ""
    for f in lv.fields:
        x += "%s<field%s/>\n" % (ind, _attrs([("name", f.name), ("id", f.id), ("type", refname(f.type_name)),
                                              ("offset", f.offset), ("presence", f.presence),
                                              ("valueRef", f.value_ref)] + _common(f)))
    for g in lv.groups:
        x += "%s<group%s>\n" % (ind, _attrs([("name", g.name), ("id", g.id), ("dimensionType", refname(g.dim)),
                                              ("blockLength", g.block_length),
                                              ("semanticType", g.semtype or None)] + _common(g)))
        x += level_xml(g, ind + "  ")
        x += "%s</group>\n" % ind
    for d in lv.data:
        x += "%s<data%s/>\n" % (ind, _attrs([("name", d.name), ("id", d.id), ("type", refname(d.type_name))] + _common(d)))
    return x


def schema_to_xml(s, case_variant_seed=None):
    global CASE_VARIANT
    CASE_VARIANT = SplitMix64(case_variant_seed) if case_variant_seed is not None else None
    try:
        return _schema_to_xml(s)
    finally:
        CASE_VARIANT = None


def _schema_to_xml(s):
    x = ('<?xml version="1.0" encoding="UTF-8"?>\n<sbe:messageSchema xmlns:sbe="http://fixprotocol.io/2016/sbe"%s>\n<types>\n'
         % _attrs([("package", s.package), ("id", s.id), ("version", s.version),
                   ("semanticVersion", s.semver or None), ("description", s.desc or None),
                   ("byteOrder", "bigEndian" if s.big_endian else "littleEndian"),
                   ("headerType", s.header if s.header != "messageHeader" else None)]))
    for t in s.types.values():
        x += enc_xml(t)
    x += "</types>\n"
    for m in s.messages:
        x += "<sbe:message%s>\n" % _attrs([("name", m.name), ("id", m.id), ("blockLength", m.block_length),
                                           ("semanticType", m.semtype or None)] + _common(m))
        x += level_xml(m, "  ")
        x += "</sbe:message>\n"
    return x + "</sbe:messageSchema>\n"


# ----------------------------------------------------------------------
# token streams for the models
# ----------------------------------------------------------------------

def names_enc_tokens(t):
    """Names.v: T name (c|r|o) | E name n v.. | S name n c.. | C name n elem.."""
    if t.kind == "type":
        k = "c" if (t.presence == "constant" or t.length != 1) else ("r" if t.presence == "required" else "o")
        return ["T", t.name, k]
    if t.kind in ("enum", "set"):
        return ["E" if t.kind == "enum" else "S", t.name, str(len(t.values))] + [v.name for v in t.values]
    toks = ["C", t.name, str(len(t.members))]
    for m in t.members:
        toks += ["R", m.name] if m.kind == "ref" else ["N"] + names_enc_tokens(m)
    return toks


def names_level_tokens(lv):
    toks = [str(len(lv.fields))] + [f.name for f in lv.fields] + [str(len(lv.groups))]
    for g in lv.groups:
        toks += ["G", g.name] + names_level_tokens(g)
    return toks + [str(len(lv.data))] + [d.name for d in lv.data]


def names_schema_tokens(s, order=None):
    ts = list(s.types.values())
    if order is not None:
        by = {t.name: t for t in ts}
        ts = [by[n] for n in order]
    toks = [str(len(ts))]
    for t in ts:
        toks += names_enc_tokens(t)
    toks.append(str(len(s.messages)))
    for m in s.messages:
        toks += ["M", m.name] + names_level_tokens(m)
    return toks


def _o(x):
    return "-" if x is None else str(x)


def traits_enc_tokens(s, t):
    """Traits.v: T name prim pres len off | E name prim off | S name prim off | C name off n elem..
    elem := R name off enc(target) | N enc"""
    if t.kind == "type":
        return ["T", t.name, t.prim, t.presence[0], str(t.length), _o(t.offset)]
    if t.kind in ("enum", "set"):
        return ["E" if t.kind == "enum" else "S", t.name, s.enc_prim(t), _o(t.offset),
                str(len(t.values))] + [v.name for v in t.values]
    toks = ["C", t.name, _o(t.offset), str(len(t.members))]
    for m in t.members:
        if m.kind == "ref":
            toks += ["R", m.name, _o(m.offset)] + traits_enc_tokens(s, s.lookup(m.ref))
        else:
            toks += ["N"] + traits_enc_tokens(s, m)
    return toks


def traits_level_tokens(s, lv):
    toks = [str(len(lv.fields))]
    for f in lv.fields:
        toks += ["f", f.name, _o(f.offset), (f.presence or "required")[0]]
        if f.type_name in PSIZE:
            toks += ["P", f.type_name]
        else:
            toks += ["X"] + traits_enc_tokens(s, s.lookup(f.type_name))
    toks.append(str(len(lv.groups)))
    for g in lv.groups:
        toks += ["G", g.name, _o(g.block_length)] + traits_level_tokens(s, g)
    return toks + [str(len(lv.data))] + [d.name for d in lv.data]


# ----------------------------------------------------------------------
# random schemas
# ----------------------------------------------------------------------

def int_value_pool(rng, prim):
    lo, hi = RANGE[prim]
    vals = [lo, hi, 0, 1, hi - 1, lo + 1, 7, 8, 9, 10, 64, 100]
    if lo < 0:
        vals += [-1, -7, -8, -9]
    v = rng.choice(vals)
    if v < lo or v > hi:
        v = 0
    return v


def int_text(rng, v, unsigned):
    """a spelling std::from_chars accepts: optional leading zeros, "-0" for signed types"""
    s = str(abs(v))
    k = rng.below(6)
    if k == 0:
        s = "0" + s
    elif k == 1:
        s = "000" + s
    if v < 0 or (v == 0 and not unsigned and rng.chance(1, 6)):
        s = "-" + s
    return s


def fp_text(rng, prim):
    return rng.choice(["0", "1", "09", "16777217", "9007199254740993", "1.5", "-2.25", ".5", "1.", "1e5", "-1E-3",
                       "+3.0e+2", "007.50", "123456789012345678901234567890", "NaN", "INF", "-INF", "+INF",
                       "3.4028234e38" if prim == "float" else "1.7976931348623157e308", "-0", "+0", "00"])


class Gen:
    def __init__(self, rng, package="ns", feats=None):
        self.r = rng
        self.feats = feats or {}
        self.n = 0
        r = rng
        self.stats = {"types": 0, "messages": 0, "groups": 0, "fields": 0, "clash_names": 0, "special_strings": 0,
                      "explicit_values": 0, "leading_zero_values": 0}
        self.s = S(package, big_endian=r.chance(1, 2), sid=r.choice([0, 1, 7, 65535]), version=r.choice([0, 1, 5, 65535]),
                   semver=self.text(), desc=self.text())
        self.used_types = set()

    # ---- names / strings ----
    def text(self):
        r = self.r
        if not self.feats.get("strings", True) or r.chance(1, 2):
            return ""
        self.stats["special_strings"] += 1
        t = r.choice(STRINGS)
        if self.feats.get("ascii_strings"):
            t = t.encode("ascii", "replace").decode()
        return t

    def fresh(self, p="n"):
        self.n += 1
        return "%s%d" % (p, self.n)

    def pick_name(self, taken, ci=False):
        """a name not in [taken]; from the clash pool most of the time"""
        r = self.r
        taken = list(taken) + list(getattr(self, "reserved_names", []))
        low = [t.lower() for t in taken]
        for _ in range(8):
            if r.chance(3, 4):
                n = r.choice(POOL)
                # neighbours of an existing name: <x>_0, <x>_entry, <x>_0_entry
                if taken and r.chance(1, 3):
                    n = r.choice(list(taken)) + r.choice(["_0", "_1", "_entry", "_0_entry", "_num_in_group"])
                self.stats["clash_names"] += 1
            else:
                n = self.fresh()
            if (n.lower() if ci else n) not in (low if ci else taken):
                return n
        return self.fresh()

    def versions(self):
        r = self.r
        since = r.choice([0, 0, 0, 1, 2, 5])
        depr = r.choice([None, None, None, since, since + 1, 9])
        return since, depr

    # ---- types ----
    def mk_scalar_type(self, name, prim=None, presence=None, allow_const=True):
        r = self.r
        prim = prim or r.choice(PRIMS)
        presence = presence or r.choice(["required", "optional"] + (["constant"] if allow_const else []))
        since, depr = self.versions()
        t = T(name, "type", prim=prim, presence=presence, desc=self.text(), semtype=self.text(), since=since, depr=depr,
              charenc=(self.text() or None) if r.chance(1, 3) else None)
        if presence == "constant":
            if prim == "char":
                k = r.below(3)
                if k == 0:
                    t.const_value = r.choice(["A", "z", "'", "\\", "\"", "?", "0"])
                else:
                    v = r.choice(["ab", "x\"y", "a\\b", "it's", "??/", "abc"])
                    t.length = len(v.encode()) + r.choice([0, 0, 2])
                    t.const_value = v
            elif prim in ("float", "double"):
                t.const_value = fp_text(r, prim)
            else:
                v = int_value_pool(r, prim)
                t.const_value = int_text(r, v, prim in UNSIGNED)
            return t
        if prim in ("float", "double"):
            if r.chance(1, 2):
                t.minv = fp_text(r, prim)
            if r.chance(1, 2):
                t.maxv = fp_text(r, prim)
            if presence == "optional" and r.chance(1, 2):
                t.nullv = fp_text(r, prim)
        else:
            for attr in ("minv", "maxv", "nullv"):
                if attr == "nullv" and presence != "optional":
                    continue
                if r.chance(1, 2):
                    v = int_value_pool(r, prim)
                    txt = int_text(r, v, prim in UNSIGNED)
                    setattr(t, attr, txt)
                    self.stats["explicit_values"] += 1
                    if txt.lstrip("-").startswith("0") and len(txt.lstrip("-")) > 1:
                        self.stats["leading_zero_values"] += 1
        return t

    def mk_array_type(self, name):
        r = self.r
        since, depr = self.versions()
        return T(name, "type", prim=r.choice(["char", "uint8", "int8"]), length=r.choice([0, 2, 3, 16]),
                 presence=r.choice(["required", "optional"]), desc=self.text(), since=since, depr=depr)

    def mk_enum(self, name, prim=None):
        r = self.r
        prim = prim or r.choice(INT_PRIMS)
        since, depr = self.versions()
        names = []
        vals = []
        used = set()
        for i in range(r.choice([0, 1, 2, 3, 4])):
            n = self.pick_name(names + ([name] if r.chance(3, 4) else []))
            if r.chance(1, 4) and name not in names:
                n = name        # enumerator named like its enum
            names.append(n)
            if prim == "char":
                c = r.choice([x for x in "ABCxyz09'\\\"?" if x not in used] or ["Q"])
                used.add(c)
                val = c
            else:
                v = int_value_pool(r, prim)
                while v in used:
                    v = (v + 1) if v < RANGE[prim][1] else RANGE[prim][0]
                used.add(v)
                val = int_text(r, v, prim in UNSIGNED)
            vs, vd = self.versions()
            vals.append(V(n, val, self.text(), vs, vd))
        return T(name, "enum", prim=prim, values=vals, desc=self.text(), since=since, depr=depr)

    def mk_set(self, name, prim=None):
        r = self.r
        prim = prim or r.choice(UNSIGNED)
        since, depr = self.versions()
        bits = PSIZE[prim] * 8
        names, vals = [], []
        idx = list(range(bits))
        r.shuffle(idx)
        for i in range(r.choice([0, 1, 2, 3])):
            n = self.pick_name(names)
            if r.chance(1, 4) and name not in names:
                n = name
            names.append(n)
            vs, vd = self.versions()
            k = idx[i] if not r.chance(1, 3) else [0, bits - 1, 31 if bits > 31 else 1][i % 3]
            if k in [int(v.value) for v in vals]:
                k = idx[i]
            vals.append(V(n, str(k), self.text(), vs, vd))
        return T(name, "set", prim=prim, values=vals, desc=self.text(), since=since, depr=depr)

    def enc_size(self, t):
        s = self.s
        if t.kind == "type":
            return 0 if t.presence == "constant" else PSIZE[t.prim] * t.length
        if t.kind in ("enum", "set"):
            return PSIZE[s.enc_prim(t)]
        if t.kind == "ref":
            return self.enc_size(s.lookup(t.ref))
        cur = 0
        for m in t.members:
            sz = self.enc_size(m)
            tgt = s.lookup(m.ref) if m.kind == "ref" else m
            if tgt.is_const():
                continue
            if m.offset is not None:
                cur = m.offset
            cur += sz
        return cur

    def mk_composite(self, name, depth=0, ref_pool=()):
        r = self.r
        since, depr = self.versions()
        ms, names = [], []
        cur = 0
        for j in range(r.choice([0, 1, 2, 3, 4]) if depth else r.choice([1, 2, 3, 4, 5])):
            n = self.pick_name(names + [name])
            if r.chance(1, 5) and name not in names:
                n = name            # element named like its composite
            names.append(n)
            k = r.below(8)
            if k == 0 and ref_pool:
                tgt = r.choice(list(ref_pool))
                rs, rd = self.versions()
                m = T(n, "ref", ref=tgt, since=rs, depr=rd)
            elif k == 1:
                m = self.mk_enum(n)
            elif k == 2:
                m = self.mk_set(n)
            elif k == 3 and depth < 2:
                m = self.mk_composite(n, depth + 1, ref_pool)
            elif k == 4:
                m = self.mk_array_type(n)
            else:
                m = self.mk_scalar_type(n)
            sz = self.enc_size(m)
            tgt = self.s.lookup(m.ref) if m.kind == "ref" else m
            if not tgt.is_const():
                if r.chance(1, 4):
                    sl = r.choice([0, 1, 3, 8])
                    m.offset = cur + sl
                    cur += sl
                cur += sz
            elif m.kind != "ref" and r.chance(1, 8):
                m.offset = r.choice([0, 5])     # offset attribute on a constant: only echoed by the trait
            ms.append(m)
        return T(name, "composite", members=ms, desc=self.text(), semtype=self.text(), since=since, depr=depr)

    def mk_header(self, name, required, optional=()):
        r = self.r
        names = list(required) + [o for o in optional if r.chance(1, 3)]
        if r.chance(1, 3):
            names.append(self.pick_name(names + [name]))
        if r.chance(1, 2):
            r.shuffle(names)
        ms = []
        for n in names:
            prim = r.choice(["uint16", "uint32", "uint64"]) if n in required or n in optional else r.choice(INT_PRIMS)
            if n in ("numGroups", "numVarDataFields", "numInGroup") and r.chance(1, 3):
                prim = "uint8"
            if r.chance(1, 6) and (n in required):
                tn = self.type_name()
                self.s.add(T(tn, "type", prim=prim, desc=self.text()))
                ms.append(T(n, "ref", ref=tn))
            else:
                ms.append(T(n, "type", prim=prim, presence=("optional" if r.chance(1, 5) else "required"),
                            desc=self.text()))
        return self.s.add(T(name, "composite", members=ms, desc=self.text(), semtype=self.text()))

    def type_name(self):
        n = self.pick_name(list(self.s.types.keys()), ci=True)
        return n

    def mk_types(self):
        r, s = self.r, self.s
        hdr_name = "messageHeader"
        self.reserved_names = ["messageHeader"]
        if r.chance(1, 4):
            hdr_name = self.type_name()
            s.header = hdr_name
        self.mk_header(hdr_name, ["blockLength", "templateId", "schemaId", "version"], ["numGroups", "numVarDataFields"])
        self.dims = [self.mk_header(self.type_name(), ["blockLength", "numInGroup"],
                                    ["numGroups", "numVarDataFields"]).name for _ in range(1 + r.below(2))]
        self.datas = []
        for _ in range(1 + r.below(2)):
            n = self.type_name()
            ms = [T("length", "type", prim=r.choice(UNSIGNED)),
                  T("varData", "type", prim=r.choice(["char", "uint8", "int8"]), length=0)]
            if r.chance(1, 4):
                ms.reverse()
            s.add(T(n, "composite", members=ms, desc=self.text()))
            self.datas.append(n)
        self.pool, self.enums = [], []
        plan = []
        if self.feats.get("all_prims"):
            for p in PRIMS:
                for pres in ("required", "optional"):
                    plan.append(("scalar", p, pres))
            r.shuffle(plan)
            plan = plan[:self.feats.get("max_scalars", 22)]
        else:
            plan = [("scalar", r.choice(PRIMS), r.choice(["required", "optional"])) for _ in range(3 + r.below(4))]
        for _, p, pres in plan:
            n = self.type_name()
            s.add(self.mk_scalar_type(n, p, pres))
            self.pool.append(n)
        for _ in range(1 + r.below(3)):
            n = self.type_name()
            s.add(self.mk_array_type(n))
            self.pool.append(n)
        for _ in range(1 + r.below(3)):
            n = self.type_name()
            s.add(self.mk_enum(n))
            self.pool.append(n)
            self.enums.append(n)
        for _ in range(1 + r.below(2)):
            n = self.type_name()
            s.add(self.mk_set(n))
            self.pool.append(n)
        self.consts = []
        for _ in range(r.below(3)):
            n = self.type_name()
            s.add(self.mk_scalar_type(n, presence="constant"))
            self.consts.append(n)
        # constant by valueRef
        for e in self.enums:
            et = s.types[e]
            if et.values and r.chance(1, 2):
                n = self.type_name()
                ep = s.enc_prim(et)
                ct = s.add(T(n, "type", prim=ep, presence="constant", value_ref="%s.%s" % (e, et.values[0].name),
                             desc=self.text()))
                # without an explicit length sbeppc derives the length of a char constant from
                # its (absent) text and then rejects the schema (C09)
                ct.force_length = True
                self.consts.append(n)
        for _ in range(1 + r.below(3)):
            n = self.type_name()
            s.add(self.mk_composite(n, 0, list(self.pool) + self.consts))
            self.pool.append(n)
        self.stats["types"] = len(s.types)

    # ---- messages ----
    def field_size(self, tn):
        return PSIZE[tn] if tn in PSIZE else self.enc_size(self.s.lookup(tn))

    def mk_level(self, lv, depth, max_depth, own_name):
        r, s = self.r, self.s
        names = []
        cur = 0
        for i in range(r.choice([0, 1, 2, 3, 5])):
            n = self.pick_name(names + [own_name])
            if r.chance(1, 6) and own_name not in names:
                n = own_name
            names.append(n)
            since, depr = self.versions()
            k = r.below(10)
            if k == 0 and self.consts:
                lv.fields.append(F(n, r.below(65536), r.choice(self.consts), desc=self.text(), since=since, depr=depr))
                continue
            if k == 1 and self.enums:
                e = r.choice(self.enums)
                et = s.types[e]
                if et.values:
                    # constant enum field / constant primitive field by valueRef
                    if r.chance(1, 2):
                        lv.fields.append(F(n, r.below(65536), e, presence="constant",
                                           value_ref="%s.%s" % (e, r.choice(et.values).name), desc=self.text()))
                    else:
                        lv.fields.append(F(n, r.below(65536), s.enc_prim(et), presence="constant",
                                           value_ref="%s.%s" % (e, et.values[0].name), desc=self.text()))
                    continue
            if k <= 4 or not self.pool:
                tn = r.choice(PRIMS)
                pres = r.choice([None, "optional", "required"])
            else:
                tn = r.choice(self.pool)
                pres = r.choice([None, None, "optional"])
            f = F(n, r.below(65536), tn, presence=pres, desc=self.text(), since=since, depr=depr)
            if r.chance(1, 4):
                sl = r.choice([0, 1, 2, 9])
                f.offset = cur + sl
                cur += sl
            cur += self.field_size(tn)
            lv.fields.append(f)
            self.stats["fields"] += 1
        if r.chance(1, 3):
            lv.block_length = cur + r.choice([0, 1, 7])
        if depth < max_depth:
            for i in range(r.choice([0, 0, 1, 1, 2, 3])):
                n = self.pick_name(names + [own_name])
                if r.chance(1, 8) and own_name not in names:
                    n = own_name
                names.append(n)
                since, depr = self.versions()
                g = G(n, r.below(65536), r.choice(self.dims), desc=self.text(), semtype=self.text(), since=since, depr=depr)
                self.mk_level(g, depth + 1, max_depth, n)
                lv.groups.append(g)
                self.stats["groups"] += 1
        for i in range(r.choice([0, 0, 1, 2])):
            n = self.pick_name(names + [own_name])
            names.append(n)
            since, depr = self.versions()
            lv.data.append(D(n, r.below(65536), r.choice(self.datas), desc=self.text(), since=since, depr=depr))

    def path_clash_groups(self, m):
        """three top-level groups whose joined paths coincide at the same depth"""
        r = self.r
        a = self.fresh("p")
        for top, sub in ((a, "b_c_d"), (a + "_b", "c_d"), (a + "_b_c", "d")):
            g = G(top, r.below(65536), r.choice(self.dims))
            sg = G(sub, r.below(65536), r.choice(self.dims))
            sg.fields.append(F("x", 1, "uint8"))
            if r.chance(1, 2):
                sg.data.append(D("dd", 2, r.choice(self.datas)))
            g.groups.append(sg)
            m.groups.append(g)

    def schema(self, nmsg=3, max_depth=3):
        r = self.r
        self.mk_types()
        names = []
        ids = set()
        for i in range(nmsg):
            n = self.pick_name(names)
            names.append(n)
            mid = r.choice([0, 1, 2, 100, 65535, 70000][: (6 if self.feats.get("big_ids") else 5)])
            while mid in ids:
                mid = (mid + 1) % 65536
            ids.add(mid)
            since, depr = self.versions()
            m = M(n, mid, desc=self.text(), semtype=self.text(), since=since, depr=depr)
            self.mk_level(m, 0, max_depth, n)
            if self.feats.get("path_clash") and i == 0:
                have = {f.name for f in m.fields} | {g.name for g in m.groups} | {d.name for d in m.data}
                self.path_clash_groups(m)
            self.s.messages.append(m)
        self.stats["messages"] = len(self.s.messages)
        return self.s
