"""Translator: regenerates coq/SrcTables.v from the CURRENT sources under /repo.

The table-like parts of sbeppc and of the runtime header are data, not
behaviour: the generator's default min/max/null literals, the primitive ->
C++ type / wrapper type maps, the size tables, the C++ keyword list and the
built-in type definitions (SBEPP_BUILT_IN_IMPL invocations).  They are copied
verbatim into Coq definitions on every run; coq/SrcTablesProofs.v (hand
written) proves the properties' statements about exactly these definitions, so
a changed table entry breaks a proof obligation instead of waiting for a
sampled input to hit it.  A source rewrite the regular expressions no longer
understand makes the translation fail loudly (reported like a broken proof).
"""
import os
import re

PRIMS = ["char", "int8", "int16", "int32", "int64", "uint8", "uint16", "uint32", "uint64", "float", "double"]


class TranslationError(Exception):
    pass


def _read(repo, rel):
    return open(os.path.join(repo, rel), errors="replace").read()


def _map_after(text, anchor, what):
    """entries {"k", v} of the first brace initialiser that follows [anchor]"""
    i = text.find(anchor)
    if i < 0:
        raise TranslationError("anchor not found: %s (%s)" % (anchor, what))
    j = text.find("{", i + len(anchor))
    depth, k = 0, j
    while k < len(text):
        if text[k] == "{":
            depth += 1
        elif text[k] == "}":
            depth -= 1
            if depth == 0:
                break
        k += 1
    body = text[j + 1:k]
    ents = re.findall(r'\{\s*"([^"]*)"\s*,\s*([^{}]*?)\s*\}', body)
    if not ents:
        raise TranslationError("no entries after %s (%s)" % (anchor, what))
    out = []
    for key, val in ents:
        val = val.strip()
        if val.startswith('"') and val.endswith('"'):
            val = val[1:-1]
        out.append((key, val))
    return out


SIZEOF = {"char": 1, "std::int8_t": 1, "std::uint8_t": 1, "std::int16_t": 2, "std::uint16_t": 2, "std::int32_t": 4,
          "std::uint32_t": 4, "std::int64_t": 8, "std::uint64_t": 8, "float": 4, "double": 8}


def _sizeof(expr, what):
    m = re.fullmatch(r"sizeof\(\s*(?:::)?([\w:]+)\s*\)", expr)
    if not m or m.group(1) not in SIZEOF:
        raise TranslationError("size expression not understood: %r (%s)" % (expr, what))
    return SIZEOF[m.group(1)]           # LP64 / x86-64 object sizes (trusted base)


def _bexpr(e, what):
    """MIN/MAX/NULL argument of SBEPP_BUILT_IN_IMPL -> Coq term of type bexpr"""
    e = re.sub(r"\s+", "", e)
    m = re.fullmatch(r"std::numeric_limits<([\w:]+)>::(min|max|quiet_NaN|lowest)\(\)(?:([+-])(\d+))?", e)
    if m:
        ty = {"std::int8_t": "BI8", "std::uint8_t": "BU8", "std::int16_t": "BI16", "std::uint16_t": "BU16",
              "std::int32_t": "BI32", "std::uint32_t": "BU32", "std::int64_t": "BI64", "std::uint64_t": "BU64",
              "float": "BF32", "double": "BF64"}.get(m.group(1))
        if ty is None:
            raise TranslationError("numeric_limits type not understood: %r (%s)" % (e, what))
        lim = {"min": "BMin", "max": "BMax", "quiet_NaN": "BQnan", "lowest": "BLowest"}[m.group(2)]
        t = "(BLim %s %s)" % (ty, lim)
        if m.group(3):
            t = "(%s %s %s)" % ("BPlus" if m.group(3) == "+" else "BMinus", t, m.group(4))
        return t
    if re.fullmatch(r"0[xX][0-9a-fA-F]+", e):
        return "(BLit %d)" % int(e, 16)
    if re.fullmatch(r"\d+", e):
        return "(BLit %d)" % int(e)
    raise TranslationError("built-in expression not understood: %r (%s)" % (e, what))


def _q(s):
    return '"%s"' % s.replace('"', '""')


def _list(pairs, fmt):
    return "[" + ";\n   ".join(fmt(p) for p in pairs) + "]"


def translate(repo):
    tc = _read(repo, "sbeppc/src/sbepp/sbeppc/types_compiler.hpp")
    ut = _read(repo, "sbeppc/src/sbepp/sbeppc/utils.hpp")
    va = _read(repo, "sbeppc/src/sbepp/sbeppc/sbe_schema_validator.hpp")
    cv = _read(repo, "sbeppc/src/sbepp/sbeppc/sbe_schema_cpp_validator.hpp")
    hp = _read(repo, "sbepp/src/sbepp/sbepp.hpp")
    t = {}
    t["src_min_values"] = _map_after(tc, "built_in_min_values", "types_compiler::get_min_value")
    t["src_max_values"] = _map_after(tc, "built_in_max_values", "types_compiler::get_max_value")
    t["src_null_values"] = _map_after(tc, "built_in_null_values", "types_compiler::get_null_value")
    i = ut.find("primitive_type_to_cpp_type")
    t["src_cpp_types"] = _map_after(ut[i:], "map", "utils::primitive_type_to_cpp_type")
    t["src_required_wrappers"] = _map_after(ut, "required_types", "utils::primitive_type_to_wrapper_type")
    t["src_optional_wrappers"] = _map_after(ut, "optional_types", "utils::primitive_type_to_wrapper_type")
    i = ut.find("get_underlying_size")
    und = [(k, _sizeof(v, "utils::get_underlying_size")) for k, v in _map_after(ut[i:], "map", "utils::get_underlying_size")]
    i = va.find("get_primitive_type_size")
    psz = [(k, _sizeof(v, "validator::get_primitive_type_size")) for k, v in
           _map_after(va[i:], "map", "sbe_schema_validator::get_primitive_type_size")]
    m = re.search(r"cpp_keywords\{(.*?)\};", cv, re.S)
    if not m:
        raise TranslationError("cpp_keywords not found")
    kws = re.findall(r'"([^"]+)"', m.group(1))
    bi = []
    for m in re.finditer(r"^SBEPP_BUILT_IN_IMPL\((.*?)\);", hp, re.S | re.M):
        args = [a.strip() for a in m.group(1).split(",")]
        if len(args) != 5:
            raise TranslationError("SBEPP_BUILT_IN_IMPL arity: %r" % (m.group(1),))
        bi.append((args[0], re.sub(r"\s+", "", args[1]), _bexpr(args[2], "MIN of " + args[0]),
                   _bexpr(args[3], "MAX of " + args[0]), _bexpr(args[4], "NULL of " + args[0])))
    if len(bi) != 11:
        raise TranslationError("expected 11 SBEPP_BUILT_IN_IMPL invocations, found %d" % len(bi))
    out = ["(* SrcTables.v -- GENERATED on every run by harness/srctables.py from the current sources under /repo",
           "   (types_compiler.hpp, utils.hpp, sbe_schema_validator.hpp, sbe_schema_cpp_validator.hpp, sbepp.hpp).",
           "   Do not edit: statements about these tables are proved in SrcTablesProofs.v. *)",
           "From Coq Require Import ZArith List String.",
           "Import ListNotations.",
           "Local Open Scope string_scope.",
           "",
           "Inductive bty := BI8 | BU8 | BI16 | BU16 | BI32 | BU32 | BI64 | BU64 | BF32 | BF64.",
           "Inductive blim := BMin | BMax | BQnan | BLowest.",
           "Inductive bexpr := BLim (t : bty) (l : blim) | BPlus (e : bexpr) (n : Z) | BMinus (e : bexpr) (n : Z) | BLit (z : Z).",
           ""]
    for name in ("src_min_values", "src_max_values", "src_null_values", "src_cpp_types", "src_required_wrappers",
                 "src_optional_wrappers"):
        out.append("Definition %s : list (string * string) :=\n  %s.\n" % (
            name, _list(t[name], lambda p: "(%s, %s)" % (_q(p[0]), _q(p[1])))))
    out.append("(* sizeof evaluated for x86-64 *)")
    out.append("Definition src_underlying_sizes : list (string * Z) :=\n  %s.\n" % _list(und, lambda p: "(%s, %d%%Z)" % (_q(p[0]), p[1])))
    out.append("Definition src_prim_sizes : list (string * Z) :=\n  %s.\n" % _list(psz, lambda p: "(%s, %d%%Z)" % (_q(p[0]), p[1])))
    out.append("Definition src_keywords : list string :=\n  %s.\n" % _list(kws, _q))
    out.append("(* SBEPP_BUILT_IN_IMPL(NAME, TYPE, MIN, MAX, NULL) *)")
    out.append("Definition src_builtins : list (string * string * bexpr * bexpr * bexpr) :=\n  %s.\n" % _list(
        bi, lambda p: "(%s, %s, %s%%Z, %s%%Z, %s%%Z)" % (_q(p[0]), _q(p[1]), p[2], p[3], p[4])))
    return "\n".join(out)


def regenerate(repo, coq_dir):
    """writes coq/SrcTables.v when its content changes; returns (changed, error)"""
    p = os.path.join(coq_dir, "SrcTables.v")
    try:
        text = translate(repo)
    except (TranslationError, OSError) as e:
        # an untranslatable source: leave a file that does not compile, so that the proof step reports it
        text = "(* SrcTables.v -- translation FAILED: %s *)\nTranslation_of_repo_tables_failed.\n" % str(e).replace("*)", "* )")
        if not os.path.exists(p) or open(p).read() != text:
            open(p, "w").write(text)
        return True, str(e)
    if not os.path.exists(p) or open(p).read() != text:
        open(p, "w").write(text)
        return True, None
    return False, None


if __name__ == "__main__":
    import sys
    print(translate(sys.argv[1] if len(sys.argv) > 1 else "/repo"))
