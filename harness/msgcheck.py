"""Message-level correspondence (routes T1/T3): random schemas -> sbeppc ->
generated driver; scripts run on the extracted model and on the real code."""
import concurrent.futures
import os
from common import *
from msggen import *
import msgdrv

PRIM_RANGE = {"char": (0, 255), "int8": (-128, 127), "uint8": (0, 255), "int16": (-2 ** 15, 2 ** 15 - 1),
              "uint16": (0, 2 ** 16 - 1), "int32": (-2 ** 31, 2 ** 31 - 1), "uint32": (0, 2 ** 32 - 1),
              "int64": (-2 ** 63, 2 ** 63 - 1), "uint64": (0, 2 ** 64 - 1), "float": (0, 2 ** 32 - 1),
              "double": (0, 2 ** 64 - 1)}


def rand_scalar(rng, prim):
    lo, hi = PRIM_RANGE[prim]
    k = rng.below(8)
    if prim in ("float", "double"):
        w = 32 if prim == "float" else 64
        specials = [0, 1 << (w - 1), (0xFF << 23) if w == 32 else (0x7FF << 52),        # +0, -0, +inf
                    ((0xFF << 23) | 1) if w == 32 else ((0x7FF << 52) | 1),              # signalling NaN payload
                    ((0x1FF << 22) | 0x1234) if w == 32 else ((0xFFF << 51) | 0x123456),  # quiet NaN payload
                    hi]
        return rng.choice(specials) if k < 3 else rng.next() & hi
    if k == 0:
        return lo
    if k == 1:
        return hi
    if k == 2:
        return rng.choice([0, 1, -1 if lo < 0 else 2])
    if k == 3:
        return 1 << rng.below(hi.bit_length())  # walking bit (hi.bit_length() excludes sign)
    return lo + rng.next() % (hi - lo + 1)


def to_wire(prim, v, big):
    n = PSIZE[prim]
    raw = v % (1 << (8 * n))
    return raw.to_bytes(n, "big" if big else "little")


def hx(b):
    return b.hex() if b else "-"


class MsgCase:
    """one schema prepared for running: headers generated, drivers compiled"""

    def __init__(self, schema, stats):
        self.s = schema
        self.stats = stats
        self.inc = None
        self.exes = {}
        self.error = None


def prepare_schema(seed, idx, configs, feats=None, nmsg=3, max_depth=3):
    rng = SplitMix64(seed).fork("schema%d" % idx)
    g = Gen(rng, "rs%d" % idx, feats)
    s = g.schema(nmsg=nmsg, max_depth=max_depth)
    mc = MsgCase(s, g.stats)
    xml = schema_to_xml(s)
    mc.xml = xml
    inc, rc, out = gen_headers(s.package, xml)
    if rc != 0:
        mc.error = ("sbeppc-rejected", out)
        return mc
    mc.inc = inc
    drv = msgdrv.gen_driver_cpp(s)
    ddir = os.path.join(os.path.dirname(inc), "drv")
    os.makedirs(ddir, exist_ok=True)
    src = os.path.join(ddir, "driver.cpp")
    if not os.path.exists(src) or open(src).read() != drv:
        open(src, "w").write(drv)
    for (cxx, std, flags, defs) in configs:
        try:
            mc.exes[(cxx, std)] = cached_cpp("msgdrv", src, std=std, cxx=cxx, flags=flags, includes=(inc,),
                                             defines=defs, extra_hash=hash_files(tree_files(inc)))
        except BuildError as e:
            mc.error = ("driver-build:%s:%s" % (cxx, std), str(e))
            return mc
    return mc


def prepare_many(seed, n, configs, feats=None, nmsg=3, max_depth=3, workers=8):
    build_sbeppc()
    with concurrent.futures.ThreadPoolExecutor(max_workers=workers) as ex:
        futs = [ex.submit(prepare_schema, seed, i, configs, feats, nmsg, max_depth) for i in range(n)]
        return [f.result() for f in futs]


# ----------------------------------------------------------------------
# value trees
# ----------------------------------------------------------------------

def gen_tree(rng, s, lv, depth=0, sizes=(0, 1, 1, 2, 3), write_prob=(5, 6)):
    """python value tree: {'fields': [pieces...], 'groups': [[entry trees]], 'data': [bytes]}"""
    t = {"fields": [], "groups": [], "data": []}
    for f in msgdrv.nonconst_fields(s, lv):
        r = s.resolve(f.type_name)
        pieces = []
        if rng.chance(*write_prob):
            if r[0] == "S":
                v = rand_scalar(rng, r[1])
                pieces = [("0", to_wire(r[1], v, s.big_endian), ("setf", r[1], v))]
            elif r[0] == "A":
                n = PSIZE[r[1]] * r[2]
                bs = bytes(rng.below(256) for _ in range(n))
                if n:
                    pieces = [("0", bs, ("setb",))]
            else:
                for j, (mn, mr) in enumerate(msgdrv.comp_members_nonconst(s, f.type_name)):
                    if mr[0] == "S" and rng.chance(4, 5):
                        v = rand_scalar(rng, mr[1])
                        pieces.append(("m%d" % j, to_wire(mr[1], v, s.big_endian), ("setcm", j, mr[1], v)))
        t["fields"].append(pieces)
    for g in lv.groups:
        n = rng.choice(sizes) if depth < 2 else rng.choice((0, 1, 2))
        t["groups"].append([gen_tree(rng, s, g, depth + 1, sizes, write_prob) for _ in range(n)])
    for d in lv.data:
        ln = rng.choice([0, 0, 1, 2, 5, 17])
        t["data"].append(bytes(rng.below(256) for _ in range(ln)))
    return t


def tree_tokens(t):
    toks = ["W", str(len(t["fields"]))]
    for pieces in t["fields"]:
        toks.append(str(len(pieces)))
        for off, bs, _ in pieces:
            toks += [off, hx(bs)]
    toks.append(str(len(t["groups"])))
    for es in t["groups"]:
        toks += ["g", str(len(es))]
        for e in es:
            toks += tree_tokens(e)
    toks.append(str(len(t["data"])))
    for d in t["data"]:
        toks.append(hx(d))
    return toks


def encode_script(rng, t, path="."):
    """in-order script: fields of the block (any order), then groups in order
    (header fill, then entries in order), then data"""
    ops = []
    fidx = list(range(len(t["fields"])))
    rng.shuffle(fidx)
    for k in fidx:
        for off, bs, how in t["fields"][k]:
            if how[0] == "setf":
                ops.append("setf %s %d %s %d" % (path, k, how[1], how[2]))
            elif how[0] == "setb":
                ops.append("setb %s %d %s" % (path, k, hx(bs)))
            else:
                ops.append("setcm %s %d %d %s %d" % (path, k, how[1], how[2], how[3]))
    for gi, es in enumerate(t["groups"]):
        ops.append("gfill %s %d %d" % (path, gi, len(es)))
        for ei, e in enumerate(es):
            sub = ("%d:%d" % (gi, ei)) if path == "." else (path + "/%d:%d" % (gi, ei))
            ops += encode_script(rng, e, sub)
    for di, d in enumerate(t["data"]):
        ops.append("setd %s %d %s" % (path, di, hx(d)))
    return ops


def decode_script(s, lv, t, path="."):
    """every getter reachable in the tree"""
    ops = []
    for k, f in enumerate(msgdrv.nonconst_fields(s, lv)):
        r = s.resolve(f.type_name)
        if r[0] == "S":
            ops.append("getf %s %d %s" % (path, k, r[1]))
        else:
            ops.append("getb %s %d" % (path, k))
            if r[0] == "C":
                for j, (mn, mr) in enumerate(msgdrv.comp_members_nonconst(s, f.type_name)):
                    ops.append("getcm %s %d %d %s" % (path, k, j, mr[1] if mr[0] == "S" else "bytes"))
    for gi, g in enumerate(lv.groups):
        ops.append("ginfo %s %d" % (path, gi))
        ops.append("gsize %s %d" % (path, gi))
        for ei, e in enumerate(t["groups"][gi]):
            sub = ("%d:%d" % (gi, ei)) if path == "." else (path + "/%d:%d" % (gi, ei))
            ops.append("epos %s" % sub)
            ops.append("esize %s" % sub)
            ops += decode_script(s, g, e, sub)
    for di, d in enumerate(lv.data):
        ops.append("dinfo %s %d" % (path, di))
        ops.append("getd %s %d" % (path, di))
    return ops


def run_impl(exe, lines):
    rc, out, err = run_lines(exe, lines)
    return rc, out, err


def model_lines_for(s, m, lines):
    return [model_msg_line(s, m)] + lines


def impl_lines_for(m, lines):
    return ["use " + m.name] + lines


# ----------------------------------------------------------------------
# compiled layout as reported by the model (Layout.compile_message)
# ----------------------------------------------------------------------

def parse_layout(line):
    """'ok hdr=8 bl@0:u16 cbl=4 L[...]' -> dict"""
    assert line.startswith("ok "), line
    head, rest = line[3:].split(" L[", 1)
    kv = dict(x.split("=") for x in head.split() if "=" in x)
    blo = [x for x in head.split() if x.startswith("bl@")][0][3:].split(":")
    pos = [0]
    txt = "L[" + rest

    def lvl():
        assert txt.startswith("L[f=", pos[0]), txt[pos[0]:pos[0] + 20]
        pos[0] += 4
        e = txt.index(" g=", pos[0])
        fs = [tuple(int(y) for y in x.split(":")) for x in txt[pos[0]:e].split(",") if x]
        pos[0] = e + 3
        gs = []
        while txt.startswith("G(", pos[0]):
            pos[0] += 2
            e = txt.index(" L[", pos[0])
            h = txt[pos[0]:e].split()
            g = {"dim": int(h[0].split("=")[1]), "bl": (int(h[1][3:].split(":")[0]), h[1].split(":")[1]),
                 "n": (int(h[2][2:].split(":")[0]), h[2].split(":")[1]), "cbl": int(h[3].split("=")[1])}
            pos[0] = e + 1
            g["level"] = lvl()
            assert txt[pos[0]] == ")"
            pos[0] += 1
            gs.append(g)
        assert txt.startswith(" d=", pos[0]), txt[pos[0]:pos[0] + 20]
        pos[0] += 3
        e = txt.index("]", pos[0])
        ds = [x for x in txt[pos[0]:e].split(",") if x]
        pos[0] = e + 1
        return {"fields": fs, "groups": gs, "data": ds}

    root = lvl()
    return {"hdr": int(kv["hdr"]), "bl": (int(blo[0]), blo[1]), "cbl": int(kv["cbl"]), "level": root}


TBITS = {"u8": 8, "u16": 16, "u32": 32, "u64": 64}


def gen_vtree(rng, lay_level, cbl, bl_t, depth=0, inflate=True, sizes=(0, 1, 1, 2, 3)):
    """value tree with explicit (wire) blocks: block length = compiled + extension"""
    ext = rng.choice([0, 0, 1, 7, 16]) if inflate else 0
    wbl = cbl + ext
    if wbl >= (1 << TBITS[bl_t]):
        wbl = cbl
    t = {"block": bytes(rng.below(256) for _ in range(wbl)), "groups": [], "data": []}
    return t, wbl, lay_level


def gen_vlevel(rng, lay, wbl, inflate, depth, sizes):
    v = {"block": bytes(rng.below(256) for _ in range(wbl)), "groups": [], "data": []}
    for g in lay["groups"]:
        n = rng.choice(sizes) if depth < 2 else rng.choice((0, 1, 2))
        ext = rng.choice([0, 0, 1, 5, 12]) if inflate else 0
        narrow = TBITS[g["n"][1]] < TBITS[g["bl"][1]]
        if inflate and depth == 0 and (rng.chance(1, 8) or (narrow and rng.chance(3, 4))):
            # a block length that no longer fits one byte (a numInGroup type narrower than blockLength must not
            # be used for the stride)
            ext = rng.choice([250, 300])
        gw = g["cbl"] + ext
        if gw >= (1 << TBITS[g["bl"][1]]):
            gw = g["cbl"]
        if n >= (1 << TBITS[g["n"][1]]):
            n = 1
        dimbg = bytearray(rng.below(256) for _ in range(g["dim"]))
        # for empty groups the wire blockLength is whatever the dimension holds: put a fitting value
        es = [gen_vlevel(rng, g["level"], gw, inflate, depth + 1, sizes) for _ in range(n)]
        v["groups"].append({"dimbg": bytes(dimbg), "entries": es, "wbl": gw})
    for d in lay["data"]:
        ln = rng.choice([0, 0, 1, 2, 5, 17, 255, 256]) if TBITS[d] > 8 else rng.choice([0, 1, 2, 17, 255])
        if depth > 0 and ln > 17:
            ln = 3
        v["data"].append(bytes(rng.below(256) for _ in range(ln)))
    return v


def vtree_tokens(v):
    toks = ["V", hx(v["block"]), str(len(v["groups"]))]
    for g in v["groups"]:
        toks += ["g", hx(g["dimbg"]), str(len(g["entries"]))]
        for e in g["entries"]:
            toks += vtree_tokens(e)
    toks.append(str(len(v["data"])))
    for d in v["data"]:
        toks.append(hx(d))
    return toks


def vtree_as_tree(v):
    """shape for decode_script (which only needs groups/data nesting)"""
    return {"fields": [], "groups": [[vtree_as_tree(e) for e in g["entries"]] for g in v["groups"]],
            "data": v["data"]}


def expected_field_values(s, lv, lay, v, path, big, out):
    """independent expectation: value of every scalar getter computed in Python
    straight from the block bytes the reference encoder placed (offsets from the
    Coq layout)"""
    for k, f in enumerate(msgdrv.nonconst_fields(s, lv)):
        r = s.resolve(f.type_name)
        off, size = lay["fields"][k]
        bs = v["block"][off:off + size]
        if r[0] == "S":
            raw = int.from_bytes(bs, "big" if big else "little")
            n = PSIZE[r[1]]
            if r[1] in ("int8", "int16", "int32", "int64") and raw >= 1 << (8 * n - 1):
                raw -= 1 << (8 * n)
            out["getf %s %d %s" % (path, k, r[1])] = str(raw)
        else:
            out["getb %s %d" % (path, k)] = hx(bs)
    for gi, g in enumerate(lv.groups):
        for ei, e in enumerate(v["groups"][gi]["entries"]):
            sub = ("%d:%d" % (gi, ei)) if path == "." else (path + "/%d:%d" % (gi, ei))
            expected_field_values(s, g, lay["groups"][gi]["level"], e, sub, big, out)
    for di, d in enumerate(lv.data):
        out["getd %s %d" % (path, di)] = hx(v["data"][di])


def composite_visit_kinds(s, type_name):
    """callback kinds (T/E/S/C) sbepp::visit_children must report for a named composite:
    its non-constant direct members in schema order"""
    out = ""
    for mem in s.types[type_name].members:
        off, const, r = s.member_triple(mem)
        if const:
            continue
        tgt = mem
        while tgt.kind == "ref":
            if tgt.ref in PSIZE:
                break
            tgt = s.types[tgt.ref]
        kind = tgt.kind if tgt.kind != "ref" else "type"
        out += {"type": "T", "enum": "E", "set": "S", "composite": "C"}[kind]
    return out or "-"


def prepare_fixed(s, configs):
    """like prepare_schema for a hand-built Schema"""
    mc = MsgCase(s, {})
    xml = schema_to_xml(s)
    mc.xml = xml
    inc, rc, out = gen_headers(s.package, xml)
    if rc != 0:
        mc.error = ("sbeppc-rejected", out)
        return mc
    mc.inc = inc
    drv = msgdrv.gen_driver_cpp(s)
    ddir = os.path.join(os.path.dirname(inc), "drv")
    os.makedirs(ddir, exist_ok=True)
    src = os.path.join(ddir, "driver.cpp")
    if not os.path.exists(src) or open(src).read() != drv:
        open(src, "w").write(drv)
    for (cxx, std, flags, defs) in configs:
        try:
            mc.exes[(cxx, std)] = cached_cpp("msgdrv", src, std=std, cxx=cxx, flags=flags, includes=(inc,),
                                             defines=defs, extra_hash=hash_files(tree_files(inc)))
        except BuildError as e:
            mc.error = ("driver-build:%s:%s" % (cxx, std), str(e))
            return mc
    return mc


def composites_schema():
    """composites with every member flavour: inline type / enum / set / nested composite, refs to
    each, inline constants, refs to constant types, an all-constant composite"""
    s = Schema("hs_comp", big_endian=False, sid=11)
    s.add(TypeDef("messageHeader", "composite", members=[TypeDef(n, "type", prim="uint16") for n in ("blockLength", "templateId", "schemaId", "version")]))
    s.add(TypeDef("dim", "composite", members=[TypeDef("blockLength", "type", prim="uint16"), TypeDef("numInGroup", "type", prim="uint16")]))
    s.add(TypeDef("K16", "type", prim="uint16", presence="constant", const_value="7"))
    s.add(TypeDef("T32", "type", prim="uint32"))
    s.add(TypeDef("A3", "type", prim="char", length=3))
    s.add(TypeDef("E8", "enum", prim="uint8", values=[("One", "1"), ("Two", "2")]))
    s.add(TypeDef("S16", "set", prim="uint16", values=[("c9", "9"), ("c0", "0"), ("Mid", "4")]))
    s.add(TypeDef("Inner", "composite", members=[TypeDef("a", "type", prim="int8"), TypeDef("b", "type", prim="int64")]))
    s.add(TypeDef("Mixed", "composite", members=[
        TypeDef("mantissa", "type", prim="int64"),
        TypeDef("exponent", "ref", ref="K16"),
        TypeDef("ik", "type", prim="uint8", presence="constant", const_value="3"),
        TypeDef("qty", "ref", ref="T32"),
        TypeDef("arr", "ref", ref="A3"),
        TypeDef("side", "ref", ref="E8"),
        TypeDef("flags", "ref", ref="S16"),
        TypeDef("venue", "ref", ref="K16"),
        TypeDef("inner", "ref", ref="Inner"),
        TypeDef("ie", "enum", prim="char", values=[("A", "A"), ("B", "B")]),
        TypeDef("iset", "set", prim="uint8", values=[("x", "0")]),
        TypeDef("ic", "composite", members=[TypeDef("p", "type", prim="uint16")]),
    ]))
    s.add(TypeDef("AllConst", "composite", members=[
        TypeDef("k1", "ref", ref="K16"),
        TypeDef("k2", "type", prim="uint8", presence="constant", const_value="1")]))
    s.add(TypeDef("LeadConst", "composite", members=[
        TypeDef("k1", "ref", ref="K16"), TypeDef("x", "type", prim="uint8"), TypeDef("k3", "ref", ref="K16")]))
    m = Message("MC", 1)
    m.fields += [Field("mixed", 1, "Mixed"), Field("lead", 2, "LeadConst"), Field("tail", 3, "uint8")]
    g = Group("g", 10, "dim")
    g.fields += [Field("gm", 1, "Mixed"), Field("gl", 2, "LeadConst")]
    m.groups.append(g)
    s.messages.append(m)
    return s


def plant_specials(rng, s, lv, lay, v):
    """overwrite scalar fields of a reference-encoder value tree with boundary patterns (NaN payloads,
    infinities, -0, min/max/null-like values): random block bytes almost never contain them"""
    for k, f in enumerate(msgdrv.nonconst_fields(s, lv)):
        r = s.resolve(f.type_name)
        if r[0] != "S" or not rng.chance(1, 2):
            continue
        off, size = lay["fields"][k]
        if off + size > len(v["block"]):
            continue
        val = rand_scalar(rng, r[1])
        if r[1] in ("float", "double") and rng.chance(2, 3):
            w = 32 if r[1] == "float" else 64
            val = rng.choice([(0xFF << 23) | 0x12345 if w == 32 else (0x7FF << 52) | 0x123456789,      # signalling NaN
                              (0x1FF << 22) | 1 if w == 32 else (0xFFF << 51) | 1,                        # quiet NaN, payload 1
                              (1 << (w - 1)) | ((0x1FF << 22) | 0x55 if w == 32 else (0xFFF << 51) | 0x55),  # negative NaN
                              (0x1FF << 22) if w == 32 else (0xFFF << 51),                                # canonical quiet NaN
                              1 << (w - 1), (0xFF << 23) if w == 32 else (0x7FF << 52)])
        b = bytearray(v["block"])
        b[off:off + size] = to_wire(r[1], val, s.big_endian)
        v["block"] = bytes(b)
    for gi, g in enumerate(lv.groups):
        for e in v["groups"][gi]["entries"]:
            plant_specials(rng, s, g, lay["groups"][gi]["level"], e)


def edge_schema():
    """levels without non-constant fields: constant-only entries / messages with and without an explicit
    blockLength, member-less entries and messages, entries holding only a nested group or only data"""
    s = Schema("hs_edge", big_endian=False, sid=12)
    s.add(TypeDef("messageHeader", "composite", members=[TypeDef(n, "type", prim="uint16") for n in ("blockLength", "templateId", "schemaId", "version")]))
    s.add(TypeDef("dim", "composite", members=[TypeDef("blockLength", "type", prim="uint16"), TypeDef("numInGroup", "type", prim="uint16")]))
    s.add(TypeDef("vd", "composite", members=[TypeDef("length", "type", prim="uint8"), TypeDef("varData", "type", prim="uint8", length=0)]))
    s.add(TypeDef("K16", "type", prim="uint16", presence="constant", const_value="7"))
    m = Message("E1", 1)
    m.fields.append(Field("seq", 1, "uint32"))
    g = Group("marks", 10, "dim", block_length=4); g.fields.append(Field("k", 1, "K16")); m.groups.append(g)
    g = Group("tags", 11, "dim"); g.fields.append(Field("k", 1, "K16")); m.groups.append(g)
    g = Group("empt", 12, "dim", block_length=3); m.groups.append(g)
    g = Group("legs", 13, "dim"); g.fields.append(Field("px", 1, "uint16")); m.groups.append(g)
    m.data.append(Data("note", 20, "vd"))
    s.messages.append(m)
    s.messages.append(Message("E2", 2, block_length=5))
    m = Message("E3", 3, block_length=2); m.fields.append(Field("k", 1, "K16")); s.messages.append(m)
    m = Message("E4", 4)
    g = Group("outer", 10, "dim", block_length=2)
    g2 = Group("inner", 11, "dim"); g2.fields.append(Field("k", 1, "K16")); g.groups.append(g2)
    g.data.append(Data("d", 12, "vd"))
    m.groups.append(g)
    g = Group("onlydata", 13, "dim"); g.data.append(Data("d", 14, "vd")); m.groups.append(g)
    s.messages.append(m)
    s.messages.append(Message("E5", 5))                      # heartbeat: header only, blockLength 0
    m = Message("E6", 6); m.fields.append(Field("k", 1, "K16")); s.messages.append(m)   # constants only, blockLength 0
    m = Message("E7", 7); m.groups.append(Group("hollow", 10, "dim")); s.messages.append(m)  # header + one member-less group
    # the SBE-recommended groupSizeEncoding: numInGroup (uint8) narrower than blockLength (uint16); wire blocks of 256+
    # bytes must not be squeezed through the numInGroup type
    s.add(TypeDef("dimNarrow", "composite", members=[TypeDef("blockLength", "type", prim="uint16"), TypeDef("numInGroup", "type", prim="uint8")]))
    m = Message("E8", 8)
    m.fields.append(Field("seq", 1, "uint16"))
    g = Group("quotes", 10, "dimNarrow"); g.fields.append(Field("px", 1, "uint32")); g.fields.append(Field("qty", 2, "uint16")); m.groups.append(g)
    g = Group("fills", 11, "dimNarrow"); g.fields.append(Field("id", 1, "uint16")); g.data.append(Data("txt", 12, "vd")); m.groups.append(g)
    s.messages.append(m)
    # an inline nested composite that carries its own offset: the offset places the nested composite inside its
    # parent once; its members start at 0 inside it; the following sibling follows its (unshifted) end
    s.add(TypeDef("quote", "composite", members=[
        TypeDef("flags", "type", prim="uint8"),
        TypeDef("px", "composite", offset=4, members=[TypeDef("mantissa", "type", prim="int32"), TypeDef("exponent", "type", prim="int8")]),
        TypeDef("qty", "type", prim="uint16")]))
    m = Message("E9", 9)
    m.fields.append(Field("q", 1, "quote"))
    m.fields.append(Field("after", 2, "uint16"))
    g = Group("book", 10, "dim"); g.fields.append(Field("lvl", 1, "quote")); g.fields.append(Field("n", 2, "uint8")); m.groups.append(g)
    m.data.append(Data("memo", 20, "vd"))
    s.messages.append(m)
    # sets whose choices are declared in neither name nor bit order, as direct fields of a message and of an entry
    s.add(TypeDef("OS8", "set", prim="uint8", values=[("zed", "7"), ("alpha", "0"), ("Mid", "3")]))
    s.add(TypeDef("OS64", "set", prim="uint64", values=[("hi", "63"), ("lo", "0"), ("b32", "32"), ("a31", "31")]))
    m = Message("E10", 10)
    m.fields.append(Field("fl", 1, "OS8"))
    m.fields.append(Field("wide", 2, "OS64"))
    g = Group("opts", 10, "dim"); g.fields.append(Field("fl", 1, "OS64")); g.fields.append(Field("n", 2, "OS8")); m.groups.append(g)
    s.messages.append(m)
    return s
