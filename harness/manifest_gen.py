#!/usr/bin/env python3
"""Regenerates MANIFEST.json from the table below (kept in one place so the
manifest is always valid)."""
import json, os
V = os.path.dirname(os.path.dirname(os.path.abspath(__file__)))

CLAIMED = {}


def claim(pid, category, text, note, technique, design_ref=None):
    CLAIMED[pid] = {"category": category, "text": text, "note": note, "technique": technique,
                    "design_ref": design_ref or ("DESIGN.md section 5 " + pid)}


TB = ("Trusted: Coq 8.16.1 kernel; the hand-written Gallina model (tied to /repo by differential runs on shared inputs, "
      "not proved against the C++ text); extraction (ExtrOcamlBasic only) and the OCaml/Python/C++ harness glue; "
      "g++ 12 / clang++ 14 as the executors of the C++ side; LP64 little-endian host.")

claim("C01", "proof",
      "Theorems (Properties_C01.v): both set_primitive implementations write enc(byte order, width, value) for every width; "
      "validator offsets are the SBE offsets (explicit honoured, else end of predecessor, constants take no space) and never "
      "overlap or leave the block, for every field list; blockLength >= content; composite members in order; a setter at any "
      "path changes exactly the located member's bytes (frame) and reads back; and the property itself: for every table, "
      "value tree and background, the in-order setter script run with the library's navigation yields exactly the reference "
      "image Wire.over_message followed by the untouched rest of the background (C01_encode_script_produces_wire_image). "
      "Correspondence: random accepted schemas are compiled by /repo's sbeppc, the generated code runs random in-order encode "
      "scripts on random backgrounds and the final bytes must equal the extracted reference encoder and the runtime model. Translator: the primitive->wrapper and size tables regenerated from /repo on every run satisfy C01_source_wrapper_of_each_primitive / C01_source_size_tables_agree.",
      TB + " C++ standards/compilers sampled (quick: g++ C++11/20; thorough adds 14/17/23 and clang++).",
      "Coq proof (layout algebra, codec, frame) + differential correspondence against extracted reference encoder")
claim("C02", "proof",
      "Theorems (Properties_C02.v): codec round trips for all widths/both byte orders; both get_primitive implementations "
      "(bit_cast and memcpy+byteswap) compute dec; typed view keeps raw bits (NaN payloads); on ANY buffer containing the "
      "image Msg.enc_message of a well-formed value tree, root field getters, group location (position, wire blockLength, "
      "count), data payloads and size_bytes return exactly what the encoder placed (proved for the root level; any-depth "
      "versions are stated in CursorSpec.v and proved when CursorProofs.v lands). Correspondence: images from the extracted "
      "reference encoder (independent of the library's setters) decoded by /repo's generated code vs. model vs. values "
      "computed directly from the encoder's block bytes. Translator theorems as for C01 (wrapper and size tables regenerated from /repo). The quick tier builds with g++ (C++11, C++20) and clang++ (C++14); set fields are also read through their choice getters (visit_set). SOURCE TRANSLATOR (harness/srcexprs.py -> coq/SrcExprs.v, regenerated on every run from clang's typed AST of /repo's sbepp.hpp): the byteswap(uint16/32/64) overloads as the compiler sees them reverse exactly the bytes of their own width, hence the memcpy path decodes the schema byte order (C02_source_byteswap_decodes).",
      TB + " Constant evaluation and all standards x compilers only in the thorough tier / partially.",
      "Coq proof (decode/encode round trip, navigation by induction over the value tree) + differential correspondence + expression-level source translator (clang AST -> Coq terms, theorems about the regenerated terms)")
claim("C03", "proof",
      "Same navigation theorems as C02 (Properties_C03.v): in Msg.enc_message every level instance carries a block of arbitrary "
      "length (the wire blockLength), so level_end/groups_end/size_bytes/field/group/data location theorems hold for every "
      "schema extension amount at every level independently. Correspondence: reference-encoder images with block lengths "
      "inflated independently per level; random access dump (C03), cursor traversal and visit (C04/C19 checks run on inflated "
      "images too).",
      TB, "Coq proof (navigation over value trees with per-level wire block lengths) + differential correspondence")
claim("C04", "proof",
      "Theorems (Properties_C04.v, 23): the generator's recomputed cursor (relative, absolute) offsets agree with the "
      "validator's for every accepted field list and it never throws after validation; every wrapper call at the required "
      "position returns the random-access address and leaves the cursor at the documented position; a misplaced plain / "
      "dont_move / skip call on a field, non-first group or non-first data is reported; a complete traversal of the image of "
      "ANY well-formed value tree (arbitrary wire block lengths) visits every member at its random-access address and ends at "
      "the message end; every accepted schema level has a well-formed cursor table (compile_clevel total + wf). SEQUENCES: "
      "CursorScript.run_cur -- the interpreter the correspondence driver runs -- on images at any path: a call that is "
      "init-type, first-member or at the required position = random-access address + documented cursor, otherwise CAssert; "
      "chain lemmas (documented after-position of member k = required position of member k+1, end of level); every legal "
      "mixed-wrapper sequence equals the random-access spec call by call, the first misplaced call after a legal prefix is "
      "reported and nothing after it runs. Correspondence: Cursor.v / CursorScript.v vs /repo's generated code: complete "
      "traversals, stop-at-k visits, random (member, wrapper) call sequences from init or arbitrary cursor offsets on every "
      "level view incl. fixed edge schemas (constant-only / member-less levels), cursor_range / cursor_subrange. A checks-disabled configuration (SBEPP_DISABLE_ASSERTS) runs every call sequence the model runs without a report; cursor ranges are judged against CursorRange.run_crange_at.",
      TB + " cursor_range bookkeeping is judged by a Python oracle built from model addresses unless CursorRange.v is present.",
      "Coq proof (single calls, sequences, traversal by mutual induction) + differential correspondence of the extracted interpreter")
claim("C05", "proof",
      "Theorems (Properties_C05.v): size_bytes(message) = |image| for every value tree whose size fits size_t; level/group "
      "walks end at the image end; flat group size (dimension + numInGroup x blockLength) and flat level size (header + "
      "blockLength) through CInt in size_t are exact for every header type whenever the true size fits; the pre-fix "
      "arithmetic of both is refuted by vm_compute (uint16 x uint16 UB, uint32 x uint32 wrap, int + uint32 wrap); the "
      "trait-level formula message_traits::size_bytes(counts..., total_data_size) = |image|; the cursor ends at the image end "
      "after a complete traversal. Correspondence: all 16 (numInGroup, blockLength) type pairs x boundary values incl. "
      "products around 2^15/2^16/2^31/2^32 and type maxima; flat messages with every blockLength header type up to the type "
      "maximum; random images: size_bytes(message/group/entry), cursor size after traversal and the trait formula all equal "
      "the image length.",
      TB, "Coq proof (size = image length by induction; C++ integer semantics via CInt) + differential correspondence")
claim("C14", "proof",
      "18 theorems (Properties_C14.v) over a list model of static_array_ref: exact result of every assign/assign_string/"
      "assign_range/fill overload for every N, content, input <= N and eos mode (result = pre ++ spec ++ post, returned "
      "iterator), strlen/strlen_r with independent characterisations, over-long input behaviour with the real order of copy "
      "and assertion. Correspondence: exhaustive for N <= 4 over {NUL,a,b}, random for N = 5, 16, four overload families, "
      "three eos modes, constant-evaluation static_asserts.",
      TB, "Coq proof (list functions) + exhaustive small-scope differential correspondence")
claim("C15", "proof",
      "Coq theorems (Properties_C15.v) prove for every width 8/16/32/64, every index inside the width and every underlying value that the model of bitset_base get_bit/set_bit (written through CInt.v, i.e. with C++ integral promotion and shift UB) reads exactly bit n and changes exactly bit n; raw value/equality/visit corollaries. Tied to /repo by running the extracted model and the real bitset_base<T> plus sbeppc-generated set classes (named, by-tag, visit, ==) on the same cases (8/16 bit exhaustive values, patterns for 32/64), under g++ C++11/17(UBSan)/20 and as static_asserts (constant evaluation). The harness schema also has sparse sets with gaps and out-of-order bit indices, and both the tag-based visit and the name-based visit_set are compared. The setter's return value is checked to be the very object it was called on (chaining). SOURCE TRANSLATOR (harness/srcexprs.py -> coq/SrcExprs.v, regenerated on every run from clang's typed AST of /repo's bitset_base<T>::operator()(get_bit_tag / set_bit_tag) for T = uint8..uint64): the regenerated expressions ARE the hand-written model for all arguments (C15_source_is_the_model), the stored value has exactly bit n changed and the getter reads exactly its own bit (C15_source_bit_independent, C15_source_get_bit_is_testbit); the friend operator== / != compare the underlying values, so equality holds exactly when every choice getter agrees (C15_source_equality_consistent, C15_source_equality_is_value_equality).",
      TB, "Coq proof (Z.testbit algebra over a CInt model) + differential correspondence vs extracted model + expression-level source translator (clang AST -> Coq terms, theorems about the regenerated terms)")
claim("C19", "proof",
      "Theorems (Properties_C19.v): a complete visit of the image of any well-formed value tree reports exactly ev_level "
      "(every non-constant member and every entry once, in schema order, at the random-access address, cursor at the end); "
      "STOP: for ALL buffers and tables, a visitor whose callback k+1 returns true sees exactly the first k events of the "
      "complete visit (CursorStop.trav_message_stop, accessor evaluated before the callback as in the generated chain), a "
      "budget never exhausted changes nothing, runs with larger budgets extend smaller ones, on images the prefix is the "
      "schema-order prefix; set visit yields every declared choice with its own bit; enum visit yields the value tag or the "
      "unknown tag. Check: recording visitor over sbepp::visit / visit_children on random images and fixed edge schemas vs "
      "the extracted models: event order/values/addresses, member names, final cursor; stop at every k (implementation vs "
      "CursorStop model vs prefix); composite visit_children incl. refs to constant types; get_by_tag/set_by_tag vs named "
      "accessors for every member; enum/set visit (c19enum). By-tag cursor call sequences (get_by_tag<Tag>(view, cursor)) run in lock-step with the named cursor accessors; the recording visitors log any callback that arrives after a stop request; a checks-disabled configuration is included.",
      TB + " by-tag access is compared with the named accessors of the implementation (no separate model).",
      "Coq proof (traversal + stop-budget simulation by mutual induction) + differential correspondence")
claim("C06", "proof",
      "Checked.v transcribes size_bytes_checked_visitor + the generated visit chains (assertions disabled, every read "
      "bounds-tracked). Properties_C06.v: the safety half of the property is REFUTED for the faithful model by two "
      "machine-checked witnesses (reads at offsets >= n: data length prefix read before on_data validates; fields read at "
      "compiled offsets although only the wire blockLength was validated) -- both are recorded open findings; EXACTNESS for "
      "every table and every buffer (C06_checked_exact: valid with size s iff Checked.described_fit = Some s, invalid iff "
      "None, whenever the run does not hit one of the two over-reads); WORK BOUND for every table and every buffer "
      "(C06_work_bounded_by_n: no visitor loop needs more than n rounds and the callbacks are at most (W+1)(n+1), W = number "
      "of schema members; C06_iteration_bound_irrelevant). Check: every truncation point, exact-fit cuts and every "
      "blockLength/numInGroup/length overwrite (0, +-1, just fits/exceeds, type max) of reference-encoder images incl. "
      "header-only messages, buffer ending on a PROT_NONE page, asserts off: no fault, verdict == described_fit, callbacks "
      "within the proven bound, implementation == model. Two defects were repaired (unbounded work for zero-length flat "
      "entries; uint64 data length wrap). A large-n probe claims lengths beyond 2^31 / 2^32 for messages whose last member is a flat group (nothing beyond the dimension is read) and compares the verdict with exact arithmetic.",
      TB + " Safety holds only outside the two recorded findings.",
      "Coq proof (exactness, potential-function work bound) + refutation witnesses (vm_compute) + truncation/overwrite sweep against a declarative spec")
claim("C12", "proof",
      "12 theorems (Properties_C12.v) over GroupIter.v, written through CInt for all 16 (numInGroup, blockLength) type pairs "
      "and for an ARBITRARY size H of the dimension composite (sbepp::size_bytes(dimension); field g_hdr of a group, only "
      "sizeof(blockLength)+sizeof(numInGroup) <= H < 2^63 is assumed, the positions of the two members inside the header "
      "are irrelevant to the iterator algebra; at the byte level a layout (H, offset of blockLength, offset of numInGroup) "
      "with both members inside and not overlapping, in any order, any other header bytes arbitrary): "
      "begin+size=end, it[n]=*(it+n), (it+n)-n=it for both signs, distance/order = index, entry i at data start (group "
      "address + H) + i x wire blockLength (blockLength 0 included), out-of-range subscript asserts, nested forward chain "
      "starting right after the H header bytes, resize frame (only the numInGroup bytes change, wherever they lie); the "
      "two-member composite is proved to be an instance; legacy arithmetic refuted by vm_compute. Correspondence: "
      "sbeppc-generated schema with the 16 two-member dimension composites plus 8 of other shapes (trailing numGroups/"
      "numVarDataFields for 4 pairs, blockLength at offset 0 / numInGroup at offset 8 for 2, numInGroup declared before "
      "blockLength for 2; flat and nested groups), the case lines carry the composite (types, shape, size, member offsets) "
      "and the header bytes built from the schema's member offsets; iterator expressions to depth 3 "
      "over boundary sizes/block lengths, checks on and off, UBSan build, for every composite. SOURCE TRANSLATOR (harness/srcexprs.py -> coq/SrcExprs.v, regenerated on every run from clang's typed AST of /repo's random_access_iterator instantiated at all 16 header type pairs): operator+=, operator-(rhs), operator++ (with its expanded SBEPP_SIZE_CHECK) and operator-- are proved equal to GroupIter.it_add_assign / it_diff / it_inc / it_dec for all arguments; += moves the pointer by exactly n x blockLength and the index by n; ++ reports exactly when the entry block leaves [ptr, end); the six comparison operators (friend functions) compare the indices mathematically (C12_source_* theorems, 8).",
      TB + " difference_type is pinned by the existing tests: distances above max/2 are outside the theorems' guards.",
      "Coq proof (iterator algebra through a C++ integer model) + differential correspondence + expression-level source translator (clang AST -> Coq terms, theorems about the regenerated terms)")
claim("C13", "proof",
      "6 theorems (Properties_C13.v): every dynamic_array_ref operation refines the std::vector operation (contents, size, "
      "returned position) for all four length types and both byte orders under vector validity; frame (no byte outside "
      "prefix+max(old,new) payload changes); no spurious assertion; erase up to end(); lifted to arbitrary op sequences by "
      "induction. Correspondence: exhaustive sequences to depth 3 from every small state, random sequences of length 200, "
      "4 length types x 2 byte orders x char/uint8/int8, asserts on/off. Also: value arguments that alias an element of the view itself (push_back/insert/resize), and short views whose end lies inside the length prefix (every call must end in the handler). Genuinely single-pass ranges and iterators (all iterators share one read position) feed assign_range / insert. Constant evaluation: generated C++20 units run call sequences over the constexpr-capable overloads inside constexpr functions (g++ and clang++) and static_assert the model's final buffer and returned iterators.",
      TB, "Coq refinement proof (concrete buffer -> abstract vector) + exhaustive small-scope differential correspondence")
claim("C16", "proof",
      "16 theorems (Properties_C16.v): default/nullopt is null, has_value/value_or/in_range, all six comparison operators "
      "in BOTH implementations (pre-C++20 operators and operator<=>) equal the documented order for all 11 primitive types "
      "and all values incl. NaN/inf (axiom-free IEEE comparison on bit patterns, cross-checked against Flocq); the 33 "
      "generator default literals denote the SBE defaults; explicit integer attribute texts are reproduced exactly. "
      "Correspondence: 22 built-in + 79 generated types, full boundary cross product, C++11/17/20, 37k static_asserts. Translator: the default min/max/null literal maps of types_compiler.hpp and the SBEPP_BUILT_IN_IMPL invocations of sbepp.hpp are regenerated into Coq on every run and proved to denote the SBE defaults (C16_source_*). SOURCE TRANSLATOR (harness/srcexprs.py -> coq/SrcExprs.v, regenerated on every run from clang's typed AST of /repo's optional_base<T, Derived> for the eight integer types, every call inlined, Derived::min/max/null_value() arbitrary): has_value, in_range and the six pre-C++20 comparison operators follow the documented rules for all values (C16_source_optional_follows_documented_rules, C16_documented_rules_spelled_out); required_base: the six comparison operators compare the underlying values and in_range is min <= value <= max (C16_source_required_compares_values, C16_source_required_in_range).",
      TB + " Decimal floating-point attribute literals are checked by the differential run only.",
      "Coq proof (order/null algebra incl. IEEE-754 compare on bit patterns; finite literal tables by vm_compute) + differential correspondence + expression-level source translator (clang AST -> Coq terms, theorems about the regenerated terms)")
claim("C17", "proof",
      "Theorems (Properties_C17.v, 5): header/dimension composite members are laid out by the SBE rule inside the composite "
      "for any order, custom offsets and extra members; the filler writes exactly Wire.put_fills on the header slice "
      "(C17_filler_is_put_fills_on_header), changes no byte outside the header and keeps the length (C17_filler_frame), every "
      "listed member reads back the schema's value (C17_filled_members_hold_schema_values), and the assignments compiled from "
      "an accepted header composite lie inside the header (C17_compiled_fills_inside_header). Correspondence: every message "
      "and group level of random schemas with permuted/offset/ref-typed/extra header members and optional counters, "
      "numInGroup in {0,1,7,type max,random}, random background: whole buffer afterwards equals the model's, returned view is "
      "the header. A fixed schema with 64-bit header members carries identifying values beyond 2^32 (schema version, explicit message and group block lengths) and ids at 2^32-1.",
      TB,
      "Coq proof (composite layout, filler spec/frame/read-back) + differential correspondence of the filler model")
claim("C20", "proof",
      "7 theorems (Properties_C20.v) over IoModel.v (plan = mkdir/write steps in compile()'s emission order, executed as "
      "primitive calls against an arbitrary fault oracle): exit 0 => every planned file exists with exactly its content; a "
      "failed call => non-zero status and a diagnostic; no fault => status 0 and disk = plan; re-run into a populated "
      "directory leaves files identical; the unchecked legacy write_file is refuted by vm_compute. Correspondence: LD_PRELOAD "
      "shim failing the k-th mkdir/fopen/write/close for every k x {ENOSPC, EACCES, EIO, short write} for several schemas; "
      "exit status, diagnostic, call trace and directory tree must equal IoModel.run and satisfy the property; determinism "
      "by repeated runs (fresh, populated, different cwd/locale). The determinism runs also shift the wall clock (time, gettimeofday, clock_gettime through the LD_PRELOAD shim) by more than a year.",
      TB + " Partial: determinism has no proof content in a functional model; EINTR/stdout failures not modelled.",
      "Coq proof over an I/O plan model with a fault oracle + fault enumeration through an LD_PRELOAD shim")

claim("C10", "proof",
      "Theorems (Properties_C10.v). (1) The guard (SBEPP_SIZE_CHECK as modelled in Cursor.size_check): a passed check "
      "implies begin <= end and the accessed bytes lie inside [begin,end), wherever the view starts; accessed bytes inside "
      "the buffer never fail the check; cursor accessors at the required position report nothing; the macro before the fix "
      "is refuted. (2) The random-access API WITH its explicit checks (CheckedAccess.v: for scalar / array element / "
      "composite member getters, group header info, group size_bytes flat and nested, entry address and size, data length "
      "and payload, message size_bytes and the navigation to any path, the SBEPP_SIZE_CHECK(begin,end,offset,size) calls in "
      "the order sbepp.hpp makes them, interleaved with reads that do not look at the bounds), for ALL tables, buffers and "
      "paths (CheckedAccessProofs.v): every touched byte range - also those touched before an assertion - lies inside the "
      "buffer; without any hypothesis nothing at or beyond the end is touched; a returned value is the value of the "
      "bounds-tested Msg.v function; every size-check report names an extent that leaves the buffer; when the message lies "
      "inside the buffer and the documented preconditions hold no check fires and the same value is returned; the naive "
      "criterion 'all READ bytes inside => no report' is refuted (whole-header / whole-entry checks). Correspondence: the "
      "outcome (value or handler) of every op on images truncated around every header/dimension/length/field boundary and "
      "at sampled lengths, the view ending on a PROT_NONE page, must be the outcome of the checked model; the read-based "
      "Msg.v expectation is kept as a cross-check; never a fault; complete image => no handler; plus hostile <data> "
      "lengths steering the next view past the end. Hostile (smaller) wire blockLength values under plain-cursor traversal of truncated buffers are part of the sweep. SOURCE TRANSLATOR (harness/srcexprs.py -> coq/SrcExprs.v, regenerated on every run from clang's typed AST of /repo's sbepp.hpp): detail::is_within_size and the SBEPP_SIZE_CHECK macro as clang expands it are proved equal to the model's size_check for all pointers/offsets/sizes, and the handler stays silent exactly when [begin+offset, begin+offset+size) lies inside [begin, end), wherever the view starts (C10_source_size_check_macro, C10_source_size_check_is_the_model, C10_source_is_within_size). Container operations on <data> views shorter than their length prefix says (view ending inside the prefix, or inside the payload while the prefix already holds the length being assigned) are judged against the Dyn.v model of the code with its size checks (cases shared with the C13 check).",
      TB + " Partial: that CheckedAccess.v transcribes sbepp.hpp's checks is tied by the sweep (exact agreement of "
      "value/handler at every truncation point), not proved against the C++ text; cursor traversal keeps the read-based "
      "expectation; container mutators are covered by C13/C14.",
      "Coq proof about the size-check guard and the checked random-access API + fault enumeration (truncation sweep under guard pages) + expression-level source translator (clang AST -> Coq terms, theorems about the regenerated terms)")

claim("C07", "proof",
      "PARTIAL by nature (no model can express 'g++ accepts this text'). 11 theorems (Properties_C07.v): rendered integer "
      "literals denote the parsed value and are non-narrowing for every primitive type and in-range value (incl. INT64_MIN), "
      "the 33 built-in min/max/null table entries denote the SBE defaults, float literal kind, string/char embedding "
      "(which characters survive, escaping), mangled type and message names pairwise distinct for every iteration order, "
      "group names never equal base-class members, size_bytes parameter names distinct. Correspondence: the real sbeppc "
      "functions (string_to_number, to_integer_literal, numeric_literal_to_value, make_string_constant, names_generator) "
      "are called directly and compared with the model; random schemas incl. name-clash patterns over a fixed identifier "
      "pool are compiled header-by-header (-fsyntax-only) plus a generated touch-everything TU under g++ C++11/20 and "
      "clang++ C++17 (all 5 standards x 2 compilers in thorough). Identifier sweep: every identifier harvested from the string literals / code templates of /repo's current sbeppc sources is used as the name of a field, a last group, a nested group, a last data member, a public type, an enum value, a set choice and a composite member (fixed core chunk + rotating chunks in quick, all in thorough); it found two genuine defects (member named `last`, type named `tag_invoke`), both repaired.",
      TB + " Include-list closure and detail::schema tag namespaces are sampled only. One open finding (header values that "
      "do not fit the header member type).",
      "Coq proof (literal semantics, name mangling) + compile sampling of generated headers")
claim("C08", "proof",
      "Theorems (Properties_C08.v) over Rules.v (declarative per-entity rules) and Validate.v (transcription of the "
      "validator's checks in visiting order): validate accepts iff rules_ok, for every schema and every modelled rule class "
      "(offset, blockLength, value representability, choice index, unknown/wrong-kind/cyclic references, multi-byte arrays, "
      "level headers, names, duplicates, ...); a rejected schema has a rule class; accepted schemas have members in order, "
      "pairwise disjoint, inside their composite/block. Correspondence: one rule-breaking edit at every applicable position "
      "of generated valid schemas plus boundary-valid neighbours: exit status, diagnostic class, location prefix, no output "
      "files, compared with the model's verdict and the mutation's own oracle. Also: the keyword list regenerated from /repo equals the rules model's (C08_source_keyword_list_is_the_modelled_one); include-split invariance (the same definitions spread over an included file, duplicates on both sides of the boundary) and name mutations with the offending character first / last / alone.",
      TB + " Not modelled: pugixml, attribute text parsing, float range acceptance (oracle bit), unordered_map iteration order.",
      "Coq proof (validator = declarative rules) + structured mutation stream against sbeppc")
claim("C09", "proof",
      "PARTIAL (bytes -> DOM and the file system are outside the model). Theorems (Properties_C09.v) over Pipeline.v: "
      "validation never crashes and terminates; validation success implies every generation-time lookup (std::get, map::at, "
      "optional dereference, context asserts) succeeds; include loading terminates and reports cycles; constant length "
      "computation is total; a rejected schema reaches no generation step. Correspondence: structure-garbling mutations, raw "
      "garbage, truncated XML, include graphs and argv combinations against an ASan+UBSan+assert build of /repo's sbeppc: "
      "no signal, no sanitizer report, no hang, diagnostic iff non-zero status, empty output directory on rejection.",
      TB + " One open finding (stack overflow on ~10 000 nested elements).",
      "Coq proof (pipeline totality model) + mutation fuzzing of a sanitized sbeppc")
claim("C18", "proof",
      "PARTIAL: 7 theorems (Properties_C18.v) for the DERIVED traits (offset trait = SBE offset, block_length trait, actual "
      "presence rule, children tag lists in schema order, schema tags distinct, tag-kind predicates exclusive and total); "
      "copy-through attributes (name, id, description, versions, min/max/null) are decided by correspondence only: a "
      "generated trait-dump TU prints every trait of every entity of random schemas and is compared line by line with the "
      "model / AST expectation (15k trait lines in quick). A fixed boundary schema puts every numeric copy-through trait at the limit of its C++ type (message ids beyond 16 bits, member ids at 65535, 64-bit versions, offsets / lengths / block lengths beyond 32 bits). The fixed schemas also contain enum / set types whose encodingType names a <type>, a nested composite with its own offset, and control characters followed by octal digits in descriptions.",
      TB, "Coq proof (derived traits) + differential trait dump")

claim("C11", "proof",
      "PARTIAL (overload resolution by the compiler is outside any model). 7 theorems (Properties_C11.v) over a capability "
      "model of 228 operation kinds derived from the guards (enable_if_writable_t, enable_if_cursor_writeable_t, "
      "enable_if_convertible_t): every mutator is rejected for const bytes and for const cursors (also through "
      "get_by_tag/set_by_tag and the header fillers), conversions of views/cursors exist exactly towards more-const and "
      "compose, a client holding only const views can compile no mutator, readers stay available on const, mutators on "
      "mutable. Tie: a generated probe TU evaluates C++11 detection idioms for every (view class, operation, byte "
      "constness, cursor constness) and conversion of a hand schema covering all 228 ops plus random schemas and is "
      "compared cell by cell with the model (34k cells quick); negative compilations; run time: every reader on PROT_READ "
      "and checksummed buffers (no fault, no change), every mutator through a PROT_READ mapping must fault.",
      TB + " The run-time half (readers never write) has no theorem: it is decided by the PROT_READ/checksum runs.",
      "Coq proof (capability/convertibility lattice) + exhaustive compile-time probe table + read-only mapping runs")

NOT_YET = {}
ALL = ["C%02d" % i for i in range(1, 21)]

def main():
    checks = []
    for pid in ALL:
        if pid not in CLAIMED:
            continue
        c = CLAIMED[pid]
        checks.append({
            "property_id": pid,
            "quick_cmd": "./check %s --tier quick" % pid,
            "thorough_cmd": "./check %s --tier thorough" % pid,
            "evidence_file": "evidence/%s.json" % pid,
            "replay_cmd_template": "./check --replay {path}",
            "engine": "coq-model",
            "level_claimed": {"category": c["category"], "text": c["text"], "design_ref": c["design_ref"]},
            "level_note": c["note"],
            "technique": c["technique"],
        })
    na = [{"property_id": p, "reason": NOT_YET.get(p, "check not built yet in this round; planned per DESIGN.md section 5 (technique applies)")}
          for p in ALL if p not in CLAIMED]
    m = {
        "version": 1,
        "setup_cmd": "make -C /verif setup",
        "hooks": {
            "guard": "SBEPP_VERIF",
            "enable": "harnesses and sbeppc are compiled with -DSBEPP_VERIF (no hook is needed so far; no source commit)",
            "baseline_off_cmd": "cmake --build /repo/_build -j16 && ctest --test-dir /repo/_build -j8 --timeout 900",
            "source_commits": [],
            "add_only": True,
        },
        "engines": [{
            "name": "coq-model", "path": "coq/",
            "serves_properties": [c["property_id"] for c in checks],
            "kind_free_text": "hand-written executable Gallina model + theorems (Coq 8.16.1), extracted to OCaml and run against /repo's sbepp.hpp / sbeppc on shared inputs",
        }],
        "checks": checks,
        "not_applicable": na,
        "notes": "See DESIGN.md. known_findings.json lists recorded/fixed defects.",
    }
    json.dump(m, open(os.path.join(V, "MANIFEST.json"), "w"), indent=1)

if __name__ == "__main__":
    main()
