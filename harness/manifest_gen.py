#!/usr/bin/env python3
"""Regenerates MANIFEST.json from the table below (kept in one place so the
manifest is always valid)."""
import json, os
V = os.path.dirname(os.path.dirname(os.path.abspath(__file__)))

CLAIMED = {
 "C15": {
  "category": "proof",
  "text": "Coq theorems (Properties_C15.v) prove for every width 8/16/32/64, every index inside the width and every underlying value that the model of bitset_base get_bit/set_bit (written through CInt.v, i.e. with C++ integral promotion and shift UB) reads exactly bit n and changes exactly bit n; raw value/equality/visit corollaries. The model is tied to /repo by running the extracted model and the real bitset_base<T> plus sbeppc-generated set classes (named, by-tag, visit, ==) on the same cases (8/16 bit exhaustive values, patterns for 32/64), under g++ C++11/17(UBSan)/20 and as static_asserts (constant evaluation).",
  "design_ref": "DESIGN.md section 5 C15",
  "note": "Trusted: Coq kernel; CInt.v as a model of LP64 C++ integer semantics; the hand-written model Bitset.v (tied by differential runs, not proved against the C++ text); extraction (ExtrOcamlBasic) and OCaml/C++ harness glue.",
  "technique": "Coq proof (Z.testbit algebra over a CInt model) + differential correspondence vs extracted model"},
}

NOT_YET = {}
ALL = ["C%02d" % i for i in range(1, 21)]

def main():
    checks = []
    for pid in ALL:
        if pid not in CLAIMED:
            continue
        c = CLAIMED[pid]
        checks.append({
            "property_id": pid,
            "quick_cmd": "./check %s --tier quick" % pid,
            "thorough_cmd": "./check %s --tier thorough" % pid,
            "evidence_file": "evidence/%s.json" % pid,
            "replay_cmd_template": "./check --replay {path}",
            "engine": "coq-model",
            "level_claimed": {"category": c["category"], "text": c["text"], "design_ref": c["design_ref"]},
            "level_note": c["note"],
            "technique": c["technique"],
        })
    na = [{"property_id": p, "reason": NOT_YET.get(p, "check not built yet in this round; planned per DESIGN.md section 5 (technique applies)")}
          for p in ALL if p not in CLAIMED]
    m = {
        "version": 1,
        "setup_cmd": "make -C /verif setup",
        "hooks": {
            "guard": "SBEPP_VERIF",
            "enable": "harnesses and sbeppc are compiled with -DSBEPP_VERIF (no hook is needed so far; no source commit)",
            "baseline_off_cmd": "cmake --build /repo/_build -j16 && ctest --test-dir /repo/_build -j8 --timeout 900",
            "source_commits": [],
            "add_only": True,
        },
        "engines": [{
            "name": "coq-model", "path": "coq/",
            "serves_properties": [c["property_id"] for c in checks],
            "kind_free_text": "hand-written executable Gallina model + theorems (Coq 8.16.1), extracted to OCaml and run against /repo's sbepp.hpp / sbeppc on shared inputs",
        }],
        "checks": checks,
        "not_applicable": na,
        "notes": "See DESIGN.md. known_findings.json lists recorded/fixed defects.",
    }
    json.dump(m, open(os.path.join(V, "MANIFEST.json"), "w"), indent=1)

if __name__ == "__main__":
    main()
