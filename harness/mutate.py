"""Mutation streams for C08/C09 (route T3).

From valid schemas produced by msggen.Gen this module derives
  * rule-breaking edits, ONE per derived schema, at EVERY applicable position
    (nested groups, inline composites, refs included), each labelled with the
    rule class(es) the edit breaks (the specification-level oracle), and
  * boundary-valid neighbours (offset = minimum, blockLength = content size,
    value = type min/max, choice = width-1, ...) that must be accepted.
It also renders a schema to XML (with raw attribute overrides for the C09
garbling stream) and to the token stream read by ocaml/drv_c08.ml.

Python here is plumbing plus the *mutation oracle* (which rule an edit breaks);
acceptance itself is decided by the extracted Coq functions and by sbeppc."""
import copy
import re

from msggen import Gen, TypeDef, Field, Group, Data, Message, PSIZE, PRIMS, UNSIGNED

U64 = (1 << 64) - 1
PMIN = {"char": -128, "int8": -128, "uint8": 0, "int16": -32768, "uint16": 0, "int32": -2 ** 31, "uint32": 0,
        "int64": -2 ** 63, "uint64": 0}
PMAX = {"char": 127, "int8": 127, "uint8": 255, "int16": 32767, "uint16": 65535, "int32": 2 ** 31 - 1,
        "uint32": 2 ** 32 - 1, "int64": 2 ** 63 - 1, "uint64": 2 ** 64 - 1}
KEYWORDS = ["class", "int", "template", "namespace", "switch", "co_await", "char8_t", "xor_eq", "double"]
BAD_NAMES = ["1abc", "a-b", "a.b", "a b", "", "été"]
# not SBE symbolic names: the offending character first, in the middle, last, alone
BAD_SYMBOLIC = ["1abc", "a-b", "a.b", "a b", "-ab", ".ab", "#ab", "$ab", " ab", "-", "ab-", "ab$", "a+b", "9", "+", "ab "]


class XSchema:
    """XML-near schema: like msggen.Schema but the public types are a list (so
    duplicates are expressible) and every object may carry `raw` attribute
    overrides (name -> text or None to drop) used by the C09 stream."""

    def __init__(self, s):
        self.package, self.big_endian, self.id, self.version = s.package, s.big_endian, s.id, s.version
        self.header = s.header
        self.types = [copy.deepcopy(t) for t in s.types.values()]
        self.messages = copy.deepcopy(s.messages)
        self.schema_name = None

    def find(self, name):
        ln = name.lower()
        for t in self.types:
            if t.name.lower() == ln:
                return t
        return None


# ----------------------------------------------------------------------
# rendering
# ----------------------------------------------------------------------

def esc(v):
    return str(v).replace("&", "&amp;").replace("<", "&lt;").replace('"', "&quot;")


def attrs(obj, pairs):
    raw = getattr(obj, "raw", None) or {}
    out = []
    seen = set()
    for k, v in pairs:
        seen.add(k)
        if k in raw:
            v = raw[k]
        if v is not None:
            out.append(' %s="%s"' % (k, esc(v)))
    for k, v in raw.items():
        if k not in seen and v is not None and not k.startswith("#"):
            out.append(' %s="%s"' % (k, esc(v)))
    return "".join(out)


def el_xml(t, ind="  "):
    raw = getattr(t, "raw", None) or {}
    tag = raw.get("#tag")
    if t.kind == "type":
        has_len = getattr(t, "has_length", t.length != 1)
        a = attrs(t, [("name", t.name), ("primitiveType", t.prim),
                      ("length", t.length if has_len else None),
                      ("presence", t.presence if t.presence != "required" else None),
                      ("offset", t.offset), ("minValue", t.minv), ("maxValue", t.maxv), ("nullValue", t.nullv),
                      ("valueRef", getattr(t, "vref", None))])
        tag = tag or "type"
        if t.const_value is not None:
            return "%s<%s%s>%s</%s>\n" % (ind, tag, a, esc(t.const_value), tag)
        return "%s<%s%s/>\n" % (ind, tag, a)
    if t.kind in ("enum", "set"):
        tag = tag or t.kind
        child = "validValue" if t.kind == "enum" else "choice"
        x = "%s<%s%s>\n" % (ind, tag, attrs(t, [("name", t.name), ("encodingType", t.prim), ("offset", t.offset)]))
        for n, v in t.values:
            x += '%s  <%s name="%s">%s</%s>\n' % (ind, child, esc(n), esc(v), child)
        return x + "%s</%s>\n" % (ind, tag)
    if t.kind == "composite":
        tag = tag or "composite"
        x = "%s<%s%s>\n" % (ind, tag, attrs(t, [("name", t.name), ("offset", t.offset)]))
        for m in t.members:
            x += el_xml(m, ind + "  ")
        return x + "%s</%s>\n" % (ind, tag)
    if t.kind == "ref":
        return "%s<%s%s/>\n" % (ind, tag or "ref", attrs(t, [("name", t.name), ("type", t.ref), ("offset", t.offset)]))
    raise ValueError(t.kind)


def level_xml(lv, ind):
    order = getattr(lv, "member_order", None)
    parts = {"f": [], "g": [], "d": []}
    for f in lv.fields:
        parts["f"].append("%s<field%s/>\n" % (ind, attrs(f, [
            ("name", f.name), ("id", f.id), ("type", f.type_name), ("offset", f.offset),
            ("presence", f.presence), ("valueRef", f.value_ref)])))
    for g in lv.groups:
        x = "%s<group%s>\n" % (ind, attrs(g, [("name", g.name), ("id", g.id), ("dimensionType", g.dim),
                                              ("blockLength", g.block_length)]))
        x += level_xml(g, ind + "  ")
        parts["g"].append(x + "%s</group>\n" % ind)
    for d in lv.data:
        parts["d"].append("%s<data%s/>\n" % (ind, attrs(d, [("name", d.name), ("id", d.id), ("type", d.type_name)])))
    return "".join("".join(parts[k]) for k in (order or "fgd"))


def schema_xml(xs, extra_top="", extra_inside=""):
    raw = getattr(xs, "raw", None) or {}
    a = attrs(xs, [("package", xs.package), ("id", xs.id), ("version", xs.version),
                   ("byteOrder", "bigEndian" if xs.big_endian else "littleEndian"),
                   ("headerType", xs.header if xs.header != "messageHeader" else None)])
    x = '<?xml version="1.0" encoding="UTF-8"?>\n%s<sbe:messageSchema xmlns:sbe="http://fixprotocol.io/2016/sbe"%s>\n' % (extra_top, a)
    x += extra_inside
    x += "<types>\n" + "".join(el_xml(t) for t in xs.types) + "</types>\n"
    for m in xs.messages:
        x += "<sbe:message%s>\n" % attrs(m, [("name", m.name), ("id", m.id), ("blockLength", m.block_length)])
        x += level_xml(m, "  ")
        x += "</sbe:message>\n"
    return x + "</sbe:messageSchema>\n"


def split_files(xs, k, include_first):
    """the same schema with the public types from index k on moved into an included file (the set of definitions
    sbeppc sees is unchanged; include_first puts the <xi:include> before the local <types> block)"""
    raw = getattr(xs, "raw", None) or {}
    a = attrs(xs, [("package", xs.package), ("id", xs.id), ("version", xs.version),
                   ("byteOrder", "bigEndian" if xs.big_endian else "littleEndian"),
                   ("headerType", xs.header if xs.header != "messageHeader" else None)])
    inc = '<xi:include xmlns:xi="http://www.w3.org/2001/XInclude" href="inc.xml"/>\n'
    local = "<types>\n" + "".join(el_xml(t) for t in xs.types[:k]) + "</types>\n"
    x = '<?xml version="1.0" encoding="UTF-8"?>\n<sbe:messageSchema xmlns:sbe="http://fixprotocol.io/2016/sbe"%s>\n' % a
    x += (inc + local) if include_first else (local + inc)
    for m in xs.messages:
        x += "<sbe:message%s>\n" % attrs(m, [("name", m.name), ("id", m.id), ("blockLength", m.block_length)])
        x += level_xml(m, "  ")
        x += "</sbe:message>\n"
    x += "</sbe:messageSchema>\n"
    frag = '<?xml version="1.0" encoding="UTF-8"?>\n<types>\n' + "".join(el_xml(t) for t in xs.types[k:]) + "</types>\n"
    return {"schema.xml": x, "inc.xml": frag}


# ----------------------------------------------------------------------
# token stream for the extracted model (see ocaml/drv_c08.ml)
# ----------------------------------------------------------------------

def tstr(s):
    return "s:" + s.encode("utf-8").hex()


def oint(v):
    return "-" if v is None else str(int(v))


def ostr(v):
    return "-" if v is None else tstr(v)


INT_RE = re.compile(r"-?[0-9]+\Z")
FP_RE = re.compile(r"[+-]?(?:[0-9]+(?:\.[0-9]*)?|\.[0-9]+)(?:[eE][+-]?[0-9]{1,2})?\Z")


def val_tokens(text):
    """what the validator can see of a value text: integer value when the text
    is a from_chars integer literal, FP acceptance (decimal literals of modest
    exponent, NaN, [+-]INF only), byte length, first byte as signed char"""
    text = str(text)
    b = text.encode("utf-8")
    iv = int(text) if INT_RE.match(text) else None
    fp = bool(FP_RE.match(text)) or text in ("NaN", "INF", "+INF", "-INF")
    first = 0 if not b else (b[0] if b[0] < 128 else b[0] - 256)
    return ["v", oint(iv), "1" if fp else "0", str(len(b)), str(first)]


def oval(text):
    return ["-"] if text is None else val_tokens(text)


PRES = {"required": "req", "optional": "opt", "constant": "const", None: "req"}


def type_length(t):
    """length as schema_parser computes it (constant char without a length
    attribute takes the length of its value; with the repair a missing value
    leaves 1)"""
    has_len = getattr(t, "has_length", t.length != 1)
    if t.presence == "constant" and t.prim == "char" and not has_len:
        return len(str(t.const_value).encode()) if t.const_value is not None else 1
    return t.length if has_len else 1


def el_tokens(t):
    if t.kind == "type":
        return (["T", tstr(t.name), tstr(t.prim), PRES[t.presence], str(type_length(t)), oint(t.offset)] +
                oval(t.minv) + oval(t.maxv) + oval(t.nullv) +
                (oval(t.const_value) if t.presence == "constant" else ["-"]) +
                [ostr(getattr(t, "vref", None)) if t.presence == "constant" else "-"])
    if t.kind == "enum":
        toks = ["E", tstr(t.name), tstr(t.prim), oint(t.offset), str(len(t.values))]
        for n, v in t.values:
            toks += [tstr(n)] + val_tokens(v)
        return toks
    if t.kind == "set":
        toks = ["S", tstr(t.name), tstr(t.prim), oint(t.offset), str(len(t.values))]
        for n, v in t.values:
            toks += [tstr(n), str(int(v))]
        return toks
    if t.kind == "ref":
        return ["R", tstr(t.name), tstr(t.ref), oint(t.offset)]
    toks = ["C", tstr(t.name), oint(t.offset), str(len(t.members))]
    for m in t.members:
        toks += el_tokens(m)
    return toks


def level_tokens(lv):
    toks = [str(len(lv.fields))]
    for f in lv.fields:
        toks += ["f", tstr(f.name), tstr(f.type_name), oint(f.offset), PRES[f.presence], ostr(f.value_ref)]
    toks.append(str(len(lv.groups)))
    for g in lv.groups:
        toks += ["G", tstr(g.name), tstr(g.dim), oint(g.block_length)] + level_tokens(g)
    toks.append(str(len(lv.data)))
    for d in lv.data:
        toks += ["d", tstr(d.name), tstr(d.type_name)]
    return toks


def schema_tokens(xs):
    toks = [tstr(xs.schema_name if xs.schema_name is not None else xs.package), tstr(xs.header), str(len(xs.types))]
    for t in xs.types:
        toks += el_tokens(t)
    toks.append(str(len(xs.messages)))
    for m in xs.messages:
        toks += ["M", tstr(m.name), str(m.id), oint(m.block_length)] + level_tokens(m)
    return toks


def model_line(xs, impl="cur"):
    return "c08 %s %s" % (impl, " ".join(schema_tokens(xs)))


# ----------------------------------------------------------------------
# positions
# ----------------------------------------------------------------------

def walk_elements(xs):
    """every element (public and nested) with its container list"""
    out = []

    def rec(t, container, public):
        out.append((t, container, public))
        if t.kind == "composite":
            for m in t.members:
                rec(m, t.members, False)
    for t in xs.types:
        rec(t, xs.types, True)
    return out


def walk_levels(xs):
    """every message / group level"""
    out = []

    def rec(lv, container):
        out.append((lv, container))
        for g in lv.groups:
            rec(g, lv.groups)
    for m in xs.messages:
        rec(m, xs.messages)
    return out


def used_dims(xs):
    return {g.dim.lower() for lv, _ in walk_levels(xs) if isinstance(lv, Group) for g in [lv]}


def used_datas(xs):
    return {d.type_name.lower() for lv, _ in walk_levels(xs) for d in lv.data}


# ----------------------------------------------------------------------
# size oracle used to pick minimum offsets (mutation oracle only)
# ----------------------------------------------------------------------

def prim_of(xs, name):
    if name in PSIZE:
        return name
    t = xs.find(name)
    return t.prim if t is not None and t.kind == "type" else None


def el_size(xs, t, depth=0):
    if depth > 50:
        raise RecursionError
    if t.kind == "type":
        return type_length(t) * PSIZE[t.prim]
    if t.kind in ("enum", "set"):
        return PSIZE[prim_of(xs, t.prim)]
    if t.kind == "ref":
        return el_size(xs, xs.find(t.ref), depth + 1)
    cur = 0
    for m in t.members:
        if no_space(xs, m):
            continue
        if m.offset is not None:
            cur = m.offset
        cur += el_size(xs, m, depth + 1)
    return cur


def no_space(xs, m):
    if m.kind == "ref":
        tgt = xs.find(m.ref)
        return tgt is not None and tgt.kind == "type" and tgt.presence == "constant"
    return m.kind == "type" and m.presence == "constant"


def member_mins(xs, members):
    """[(member, minimum offset, size)] for the space-taking members"""
    out = []
    cur = 0
    for m in members:
        if no_space(xs, m):
            continue
        sz = el_size(xs, m)
        out.append((m, cur, sz))
        if m.offset is not None:
            cur = m.offset
        cur += sz
    return out, cur


def field_const(xs, f):
    if f.type_name in PSIZE:
        return f.presence == "constant"
    t = xs.find(f.type_name)
    if t.kind == "type":
        return t.presence == "constant"
    if t.kind == "set":
        return False
    return f.presence == "constant"


def field_mins(xs, lv):
    out = []
    cur = 0
    for f in lv.fields:
        if field_const(xs, f):
            continue
        sz = PSIZE[f.type_name] if f.type_name in PSIZE else el_size(xs, xs.find(f.type_name))
        out.append((f, cur, sz))
        if f.offset is not None:
            cur = f.offset
        cur += sz
    return out, cur


# ----------------------------------------------------------------------
# the C08 mutation stream
# ----------------------------------------------------------------------

class Case:
    def __init__(self, kind, classes, xs, note):
        self.kind = kind            # mutation name
        self.classes = classes      # set of acceptable rule classes, or None = must be accepted
        self.xs = xs
        self.note = note


def _nth_element(xs, k):
    return walk_elements(xs)[k]


def _nth_level(xs, k):
    return walk_levels(xs)[k]


def c08_cases(base, rng, budget=None):
    """all single edits of `base` (an XSchema).  Yields Case objects."""
    cases = []

    def edit(kind, classes, note, fn):
        c = copy.deepcopy(base)
        r = fn(c)
        if r is False:
            return
        cases.append(Case(kind, set(classes) if classes else None, c, note))

    els = walk_elements(base)
    lvs = walk_levels(base)
    udims, udatas = used_dims(base), used_datas(base)
    public_names = [t.name for t in base.types]
    referenced = set()
    for t, _, _ in els:
        if t.kind == "ref":
            referenced.add(t.ref.lower())
        if t.kind in ("enum", "set") and t.prim not in PSIZE:
            referenced.add(t.prim.lower())
    for lv, _ in lvs:
        for f in lv.fields:
            referenced.add(f.type_name.lower())
        for d in lv.data:
            referenced.add(d.type_name.lower())
        if isinstance(lv, Group):
            referenced.add(lv.dim.lower())
    referenced.add(base.header.lower())
    composites = [t for t in base.types if t.kind == "composite"]
    a_composite = composites[-1].name if composites else None
    a_type = next((t.name for t in base.types if t.kind == "type" and t.presence != "constant" and t.length == 1), None)
    an_enum = next((t for t in base.types if t.kind == "enum"), None)

    # ---- composites: offsets -------------------------------------------------
    for k, (t, cont, public) in enumerate(els):
        if t.kind != "composite":
            continue
        mins, total = member_mins(base, t.members)
        for j, (m, mn, sz) in enumerate(mins):
            idx = t.members.index(m)

            def set_off(v, k=k, idx=idx):
                def fn(c):
                    _nth_element(c, k)[0].members[idx].offset = v
                return fn
            if mn > 0:
                edit("member-offset-below-min", ["OffsetTooSmall"], "%s.%s offset=%d < %d" % (t.name, m.name, mn - 1, mn),
                     set_off(mn - 1))
            # boundary valid only when it does not push later explicit offsets below their minimum
            later_explicit = any(x.offset is not None for x, _, _ in mins[j + 1:])
            if m.offset is None or m.offset == mn or not later_explicit:
                edit("member-offset-at-min", None, "%s.%s offset=%d" % (t.name, m.name, mn), set_off(mn))
            if j == len(mins) - 1 and sz > 0:
                edit("member-offset-overflow", ["OffsetOverflow"], "%s.%s offset=2^64-size+1, size %d" % (t.name, m.name, sz),
                     set_off(U64 - sz + 1))
                if public and t.name.lower() not in referenced:
                    edit("member-offset-max-valid", None, "%s.%s offset=2^64-1-size" % (t.name, m.name), set_off(U64 - sz))
            edit("member-offset-not-a-number", ["BadNumber"], "%s.%s offset=2^64" % (t.name, m.name), set_off(U64 + 1))
            edit("member-offset-negative", ["BadNumber"], "%s.%s offset=-1" % (t.name, m.name), set_off(-1))

    # ---- levels: field offsets and blockLength -------------------------------
    for k, (lv, cont) in enumerate(lvs):
        mins, total = field_mins(base, lv)
        for j, (f, mn, sz) in enumerate(mins):
            idx = lv.fields.index(f)

            def set_off(v, k=k, idx=idx):
                def fn(c):
                    _nth_level(c, k)[0].fields[idx].offset = v
                return fn
            if mn > 0:
                edit("field-offset-below-min", ["OffsetTooSmall"], "%s.%s offset=%d < %d" % (lv.name, f.name, mn - 1, mn),
                     set_off(mn - 1))
            later_explicit = any(x.offset is not None for x, _, _ in mins[j + 1:])
            fits_bl = lv.block_length is None
            if (f.offset is None or f.offset == mn or not later_explicit) and (fits_bl or f.offset == mn or f.offset is None):
                edit("field-offset-at-min", None, "%s.%s offset=%d" % (lv.name, f.name, mn), set_off(mn))
            if j == len(mins) - 1 and sz > 0:
                def ovf(c, k=k, idx=idx):
                    l = _nth_level(c, k)[0]
                    l.fields[idx].offset = U64 - sz + 1
                    l.block_length = None
                edit("field-offset-overflow", ["OffsetOverflow"], "%s.%s offset=2^64-size+1" % (lv.name, f.name), ovf)

                def mx(c, k=k, idx=idx):
                    l = _nth_level(c, k)[0]
                    l.fields[idx].offset = U64 - sz
                    l.block_length = None
                edit("field-offset-max-valid", None, "%s.%s offset=2^64-1-size" % (lv.name, f.name), mx)
            edit("field-offset-not-a-number", ["BadNumber"], "%s.%s offset=2^64" % (lv.name, f.name), set_off(U64 + 1))

        def set_bl(v, k=k):
            def fn(c):
                _nth_level(c, k)[0].block_length = v
            return fn
        if total > 0:
            edit("blocklength-below-content", ["BlockLengthTooSmall"], "%s blockLength=%d < %d" % (lv.name, total - 1, total),
                 set_bl(total - 1))
        edit("blocklength-exact", None, "%s blockLength=%d" % (lv.name, total), set_bl(total))
        edit("blocklength-not-a-number", ["BadNumber"], "%s blockLength=2^64" % lv.name, set_bl(U64 + 1))
        if len(mins) >= 2:
            # wrap-around witness: first field at 2^64-size, the rest restart at 0
            f0, _, sz0 = mins[0]
            if sz0 > 0:
                def wrap(c, k=k):
                    l = _nth_level(c, k)[0]
                    ms, _ = field_mins(c, l)
                    ms[0][0].offset = U64 - sz0 + 1
                    cur = 0
                    for (ff, _, s) in ms[1:]:
                        ff.offset = cur
                        cur += s
                    l.block_length = None
                edit("field-offsets-wrap", ["OffsetOverflow"], "%s: first field ends at 2^64, others restart at 0" % lv.name, wrap)

    # ---- values ---------------------------------------------------------------
    for k, (t, cont, public) in enumerate(els):
        def on(fn, k=k):
            def g(c):
                return fn(_nth_element(c, k)[0])
            return g
        if t.kind == "type" and t.prim in PMIN and t.presence != "constant" and t.length == 1:
            lo, hi = PMIN[t.prim], PMAX[t.prim]
            edit("min-above-range", ["ValueNotRepresentable"], "%s minValue=%d" % (t.name, hi + 1), on(lambda x: setattr(x, "minv", hi + 1)))
            edit("max-below-range", ["ValueNotRepresentable"], "%s maxValue=%d" % (t.name, lo - 1), on(lambda x: setattr(x, "maxv", lo - 1)))
            edit("min-at-type-min", None, "%s minValue=%d" % (t.name, lo), on(lambda x: setattr(x, "minv", lo)))
            edit("max-at-type-max", None, "%s maxValue=%d" % (t.name, hi), on(lambda x: setattr(x, "maxv", hi)))
            edit("min-not-a-number", ["ValueNotRepresentable"], "%s minValue=1x" % t.name, on(lambda x: setattr(x, "minv", "1x")))
            if t.presence == "optional":
                edit("null-above-range", ["ValueNotRepresentable"], "%s nullValue=%d" % (t.name, hi + 1), on(lambda x: setattr(x, "nullv", hi + 1)))
                edit("null-at-type-max", None, "%s nullValue=%d" % (t.name, hi), on(lambda x: setattr(x, "nullv", hi)))
            else:
                edit("null-ignored-on-required", None, "%s nullValue out of range is only warned about" % t.name,
                     on(lambda x: setattr(x, "nullv", hi + 1)))
        if t.kind == "type" and t.prim in ("float", "double") and t.presence != "constant" and t.length == 1:
            edit("fp-min-garbage", ["ValueNotRepresentable"], "%s minValue=abc" % t.name, on(lambda x: setattr(x, "minv", "abc")))
            edit("fp-min-valid", None, "%s minValue=-1.5e3" % t.name, on(lambda x: setattr(x, "minv", "-1.5e3")))
        if t.kind == "type" and t.presence == "constant" and t.prim in PMIN and t.prim != "char":
            hi = PMAX[t.prim]
            edit("const-above-range", ["ValueNotRepresentable"], "%s constant=%d" % (t.name, hi + 1), on(lambda x: setattr(x, "const_value", str(hi + 1))))
            edit("const-at-type-max", None, "%s constant=%d" % (t.name, hi), on(lambda x: setattr(x, "const_value", str(hi))))
            edit("const-without-value", ["BadConstant"], "%s has neither value nor valueRef" % t.name, on(lambda x: setattr(x, "const_value", None)))

            def two(x):
                x.length = 2
                x.has_length = True
            edit("const-length-2", ["BadConstant"], "%s non-char constant with length 2" % t.name, on(two))
            if an_enum is not None and an_enum.prim in PSIZE and an_enum.prim != "char":
                vn, vv = an_enum.values[0]

                def both(x):
                    x.vref = "%s.%s" % (an_enum.name, vn)
                edit("const-value-and-valueref", ["BadConstant"], "%s has both value and valueRef" % t.name, on(both))

                def only_ref(x):
                    x.vref = "%s.%s" % (an_enum.name, vn)
                    x.const_value = None
                edit("const-by-valueref", None, "%s valueRef=%s.%s" % (t.name, an_enum.name, vn), on(only_ref))

                def bad_ref(x):
                    x.vref = an_enum.name + vn
                    x.const_value = None
                edit("const-valueref-no-dot", ["BadValueRef"], "%s valueRef without dot" % t.name, on(bad_ref))

                def bad_ref2(x):
                    x.vref = an_enum.name + ".Nope"
                    x.const_value = None
                edit("const-valueref-unknown-value", ["BadValueRef"], "%s valueRef names no validValue" % t.name, on(bad_ref2))

                def bad_ref3(x):
                    x.vref = "NoSuchEnum." + vn
                    x.const_value = None
                edit("const-valueref-unknown-enum", ["UnknownType"], "%s valueRef names no encoding" % t.name, on(bad_ref3))
                if a_composite:
                    def bad_ref4(x):
                        x.vref = a_composite + "." + vn
                        x.const_value = None
                    edit("const-valueref-not-an-enum", ["WrongKindReference"], "%s valueRef names a composite" % t.name, on(bad_ref4))
        if t.kind == "enum":
            p = prim_of(base, t.prim)
            if p in PMIN and p != "char":
                hi = PMAX[p]
                edit("enum-value-above-range", ["ValueNotRepresentable"], "%s validValue=%d" % (t.name, hi + 1),
                     on(lambda x: x.values.append(("Big", str(hi + 1)))))
                edit("enum-value-at-max", None, "%s validValue=%d" % (t.name, hi), on(lambda x: x.values.append(("Big", str(hi)))))
            if p == "char":
                edit("enum-char-two-chars", ["ValueNotRepresentable"], "%s validValue=AB" % t.name, on(lambda x: x.values.append(("Two", "AB"))))
            edit("enum-duplicate-value-name", ["DuplicateName"], "%s duplicate validValue name" % t.name,
                 on(lambda x: x.values.append((x.values[0][0], x.values[0][1]))))
            edit("enum-type-float", ["BadEncodingType"], "%s encodingType=float" % t.name, on(lambda x: setattr(x, "prim", "float")))
            edit("enum-type-unknown", ["UnknownType"], "%s encodingType=NoSuchType" % t.name, on(lambda x: setattr(x, "prim", "NoSuchType")))
            if a_composite:
                edit("enum-type-composite", ["WrongKindReference"], "%s encodingType=%s" % (t.name, a_composite),
                     on(lambda x: setattr(x, "prim", a_composite)))
            if a_type and prim_of(base, a_type) not in ("float", "double") and p != "char":
                pp = prim_of(base, a_type)
                if pp != "char" and PSIZE[pp] == PSIZE[p] and all(PMIN[pp] <= int(v) <= PMAX[pp] for _, v in t.values):
                    edit("enum-type-by-typename", None, "%s encodingType=%s (a public type)" % (t.name, a_type.upper()),
                         on(lambda x: setattr(x, "prim", a_type.upper())))
        if t.kind == "set":
            p = prim_of(base, t.prim)
            w = PSIZE[p] * 8
            edit("choice-beyond-width", ["ChoiceIndexOutOfRange"], "%s choice=%d" % (t.name, w), on(lambda x: x.values.append(("cBig", str(w)))))
            edit("choice-at-width-1", None, "%s choice=%d" % (t.name, w - 1), on(lambda x: x.values.append(("cBig", str(w - 1)))))
            edit("choice-not-uint8", ["BadNumber"], "%s choice=256" % t.name, on(lambda x: x.values.append(("cBig", "256"))))
            edit("choice-duplicate-name", ["DuplicateName"], "%s duplicate choice name" % t.name,
                 on(lambda x: x.values.append((x.values[0][0], "1"))))
            edit("set-type-signed", ["BadEncodingType"], "%s encodingType=int8" % t.name, on(lambda x: setattr(x, "prim", "int8")))
            edit("set-type-unknown", ["UnknownType"], "%s encodingType=NoSuchType" % t.name, on(lambda x: setattr(x, "prim", "NoSuchType")))
            if an_enum is not None:
                edit("set-type-enum", ["WrongKindReference"], "%s encodingType=%s" % (t.name, an_enum.name),
                     on(lambda x: setattr(x, "prim", an_enum.name)))
        # arrays
        if t.kind == "type" and t.presence != "constant" and not _is_header_like_member(base, t, cont):
            if t.length == 1 and t.prim not in ("char", "int8", "uint8") and not public:
                def arr(x):
                    x.length = 2
                    x.has_length = True
                edit("multi-byte-array", ["MultiByteArray"], "%s %s[2]" % (t.name, t.prim), on(arr))
            if public and t.length == 1 and t.prim not in ("char", "int8", "uint8") and t.name.lower() not in referenced:
                def arr(x):
                    x.length = 2
                    x.has_length = True
                edit("multi-byte-array", ["MultiByteArray"], "%s %s[2]" % (t.name, t.prim), on(arr))
            if t.length == 1 and t.prim not in ("char", "int8", "uint8") and not public:
                def arr0(x):
                    x.length = 0
                    x.has_length = True
                # length 0 is an array too
                edit("multi-byte-array-length-0", ["MultiByteArray"], "%s %s[0]" % (t.name, t.prim), on(arr0))
            if t.length != 1 and t.prim in ("char", "int8", "uint8"):
                edit("array-length-not-a-number", ["BadNumber"], "%s length=2^64" % t.name, on(lambda x: setattr(x, "length", U64 + 1)))
        if t.kind == "type" and t.name.lower() not in referenced and public:
            edit("primitive-type-unknown", ["BadPrimitiveType"], "%s primitiveType=int128" % t.name, on(lambda x: setattr(x, "prim", "int128")))
        # names
        name_classes = ["InvalidName"]
        if (public and t.name.lower() in referenced) or _is_header_like_member(base, t, cont):
            name_classes = ["InvalidName", "UnknownType", "BadLevelHeader", "BadEncodingType", "WrongKindReference"]
        bad = rng.choice(BAD_SYMBOLIC)
        edit("name-not-symbolic", name_classes, "%s renamed to %r" % (t.name, bad), on(lambda x: setattr(x, "name", bad)))
        kw = rng.choice(KEYWORDS)
        edit("name-keyword", name_classes, "%s renamed to %r" % (t.name, kw), on(lambda x: setattr(x, "name", kw)))
        if t.kind == "ref":
            edit("ref-unknown-type", ["UnknownType"], "ref %s type=NoSuchType" % t.name, on(lambda x: setattr(x, "ref", "NoSuchType")))
        if t.kind == "composite":
            if len(t.members) >= 1:
                def dup(x):
                    m = copy.deepcopy(x.members[0])
                    m.offset = None
                    x.members.append(m)
                edit("composite-duplicate-member", ["DuplicateName"], "%s has two members %s" % (t.name, t.members[0].name), on(dup))
            if public:
                edit("composite-self-reference", ["CyclicReference"], "%s refers to itself" % t.name,
                     on(lambda x: x.members.append(TypeDef("selfRef", "ref", ref=x.name))))
        if public:
            def dup_pub(c, t=t):
                d = copy.deepcopy(t)
                d.name = t.name.upper() if t.name.upper() != t.name else t.name.lower()
                c.types.append(d)
            edit("public-type-duplicate", ["DuplicateName"], "second public encoding named %s (other case)" % t.name, dup_pub)

    # mutual cycle between two public composites
    if len(composites) >= 2:
        a, b = composites[-1].name, composites[-2].name

        def cyc(c):
            c.find(a).members.append(TypeDef("toB", "ref", ref=b))
            c.find(b).members.append(TypeDef("toA", "ref", ref=a))
        edit("composite-mutual-reference", ["CyclicReference"], "%s <-> %s" % (a, b), cyc)

        if a.lower() != b.lower() and b.lower() not in _reach(base, a) and b.lower() not in referenced \
                and not any(m.kind == "ref" and m.ref.lower() == a.lower() for m in base.find(b).members):
            edit("composite-ref-chain", None, "%s -> %s (acyclic)" % (b, a),
                 lambda c: c.find(b).members.append(TypeDef("toA", "ref", ref=a)))

    # ---- level headers -----------------------------------------------------------
    def header_edits(hname, required, level):
        h = base.find(hname)
        if h is None or h.kind != "composite":
            return
        for req in required:
            def drop(c, req=req):
                hh = c.find(hname)
                hh.members = [m for m in hh.members if m.name != req]
            edit("%s-header-missing-%s" % (level, req), ["BadLevelHeader"], "%s without %s" % (hname, req), drop)

            def const(c, req=req):
                hh = c.find(hname)
                m = [m for m in hh.members if m.name == req][0]
                tgt = m if m.kind == "type" else c.find(m.ref)
                tgt.presence = "constant"
                tgt.const_value = "1"
                m.offset = None
                for x in hh.members:
                    x.offset = None
            edit("%s-header-constant-%s" % (level, req), ["BadLevelHeader"], "%s.%s constant" % (hname, req), const)

            def arr(c, req=req):
                hh = c.find(hname)
                m = [m for m in hh.members if m.name == req][0]
                tgt = m if m.kind == "type" else c.find(m.ref)
                tgt.prim = "uint8"
                tgt.length = 2
                tgt.has_length = True
                for x in hh.members:
                    x.offset = None
            edit("%s-header-array-%s" % (level, req), ["BadLevelHeader"], "%s.%s is an array" % (hname, req), arr)

            def enum(c, req=req):
                hh = c.find(hname)
                i = [i for i, m in enumerate(hh.members) if m.name == req][0]
                hh.members[i] = TypeDef(req, "enum", prim="uint8", values=[("A", "1")])
                for x in hh.members:
                    x.offset = None
            edit("%s-header-enum-%s" % (level, req), ["BadLevelHeader"], "%s.%s is an enum" % (hname, req), enum)

    header_edits(base.header, ["blockLength", "templateId", "schemaId", "version"], "message")
    for d in sorted(udims):
        header_edits(base.find(d).name, ["blockLength", "numInGroup"], "group")
    for d in sorted(udatas):
        header_edits(base.find(d).name, ["length"], "data")

        def vd1(c, d=d):
            hh = c.find(d)
            m = [m for m in hh.members if m.name == "varData"][0]
            m.length = 1
            m.has_length = False
        edit("data-header-varData-length-1", ["BadLevelHeader"], "%s.varData length=1" % d, vd1)

        def vdwide(c, d=d):
            hh = c.find(d)
            m = [m for m in hh.members if m.name == "varData"][0]
            m.prim = "uint16"
        # a <data> payload is an array (length 0) and must have a single-byte element type
        edit("data-header-varData-multi-byte", ["MultiByteArray", "BadLevelHeader"], "%s.varData primitiveType=uint16" % d, vdwide)

        def vdrop(c, d=d):
            hh = c.find(d)
            hh.members = [m for m in hh.members if m.name != "varData"]
        edit("data-header-missing-varData", ["BadLevelHeader"], "%s without varData" % d, vdrop)

    edit("header-type-unknown", ["UnknownType"], "headerType=NoSuchHeader", lambda c: setattr(c, "header", "NoSuchHeader"))
    if a_type:
        edit("header-type-not-composite", ["WrongKindReference"], "headerType=%s" % a_type, lambda c: setattr(c, "header", a_type))
    edit("header-type-other-case", None, "headerType in upper case", lambda c: setattr(c, "header", c.header.upper()))

    # ---- levels: references, names, duplicates ---------------------------------
    for k, (lv, cont) in enumerate(lvs):
        def onl(fn, k=k):
            def g(c):
                return fn(_nth_level(c, k)[0])
            return g
        for i, f in enumerate(lv.fields):
            edit("field-type-unknown", ["UnknownType"], "%s.%s type=NoSuchType" % (lv.name, f.name),
                 onl(lambda l, i=i: setattr(l.fields[i], "type_name", "NoSuchType")))
            bad = rng.choice(BAD_SYMBOLIC)
            edit("name-not-symbolic", ["InvalidName"], "field %s renamed to %r" % (f.name, bad),
                 onl(lambda l, i=i: setattr(l.fields[i], "name", bad)))
            kw = rng.choice(KEYWORDS)
            edit("name-keyword", ["InvalidName"], "field %s renamed to %r" % (f.name, kw),
                 onl(lambda l, i=i: setattr(l.fields[i], "name", kw)))
            if f.type_name in PSIZE and not field_const(base, f):
                edit("constant-field-without-valueref", ["BadConstant"], "%s.%s presence=constant, no valueRef" % (lv.name, f.name),
                     onl(lambda l, i=i: setattr(l.fields[i], "presence", "constant")))
                if an_enum is not None and an_enum.prim in PSIZE:
                    vn, vv = an_enum.values[0]
                    fits = (an_enum.prim == "char" and (f.type_name in ("float", "double") or PMIN[f.type_name] <= ord(vv[0]) <= PMAX[f.type_name])) or \
                           (an_enum.prim != "char" and (f.type_name in ("float", "double") or PMIN[f.type_name] <= int(vv) <= PMAX[f.type_name]))

                    def cf(l, i=i):
                        l.fields[i].presence = "constant"
                        l.fields[i].value_ref = "%s.%s" % (an_enum.name, vn)
                        l.fields[i].offset = None
                        l.block_length = None
                        for ff in l.fields:
                            ff.offset = None
                    if an_enum.prim == "char" or True:
                        edit("constant-field-by-valueref", None if fits else ["ValueNotRepresentable"],
                             "%s.%s constant %s.%s" % (lv.name, f.name, an_enum.name, vn), onl(cf))
            if f.type_name not in PSIZE and base.find(f.type_name).kind == "composite":
                edit("constant-composite-field", ["BadConstant"], "%s.%s composite presence=constant" % (lv.name, f.name),
                     onl(lambda l, i=i: setattr(l.fields[i], "presence", "constant")))
            if f.type_name not in PSIZE and base.find(f.type_name).kind == "enum":
                en = base.find(f.type_name)

                def ce(l, i=i, en=en):
                    l.fields[i].presence = "constant"
                    l.fields[i].value_ref = "%s.%s" % (en.name, en.values[0][0])
                    l.block_length = None
                    for ff in l.fields:
                        ff.offset = None
                edit("constant-enum-field", None, "%s.%s enum constant" % (lv.name, f.name), onl(ce))
                other = next((t for t in base.types if t.kind == "enum" and t.name != en.name), None)
                if other is not None:
                    def ce2(l, i=i, other=other):
                        l.fields[i].presence = "constant"
                        l.fields[i].value_ref = "%s.%s" % (other.name, other.values[0][0])
                    edit("constant-enum-field-other-enum", ["BadConstant"], "%s.%s valueRef of another enum" % (lv.name, f.name), onl(ce2))
            if f.type_name not in PSIZE:
                edit("field-type-other-case", None, "%s.%s type name in other case" % (lv.name, f.name),
                     onl(lambda l, i=i: setattr(l.fields[i], "type_name", l.fields[i].type_name.swapcase())))
        names = [x.name for x in lv.fields] + [x.name for x in lv.groups] + [x.name for x in lv.data]
        if len(names) >= 1:
            def dupf(l):
                l.fields.append(Field(names[-1], 99, "uint8"))
                l.block_length = None
            edit("level-duplicate-member", ["DuplicateName"], "%s has two members %s" % (lv.name, names[-1]), onl(dupf))
        for i, g in enumerate(lv.groups):
            edit("group-dimension-unknown", ["UnknownType"], "%s dimensionType=NoSuchDim" % g.name,
                 onl(lambda l, i=i: setattr(l.groups[i], "dim", "NoSuchDim")))
            if a_type:
                edit("group-dimension-not-composite", ["WrongKindReference"], "%s dimensionType=%s" % (g.name, a_type),
                     onl(lambda l, i=i: setattr(l.groups[i], "dim", a_type)))
            edit("group-dimension-is-message-header", ["BadLevelHeader"], "%s dimensionType=messageHeader (no numInGroup)" % g.name,
                 onl(lambda l, i=i: setattr(l.groups[i], "dim", base.header)) if "numingroup" not in [m.name.lower() for m in base.find(base.header).members] else (lambda c: False))
            bad = rng.choice(BAD_SYMBOLIC)
            edit("name-not-symbolic", ["InvalidName"], "group %s renamed to %r" % (g.name, bad),
                 onl(lambda l, i=i: setattr(l.groups[i], "name", bad)))
            kw = rng.choice(KEYWORDS)
            edit("name-keyword", ["InvalidName"], "group %s renamed to %r" % (g.name, kw),
                 onl(lambda l, i=i: setattr(l.groups[i], "name", kw)))
        for i, d in enumerate(lv.data):
            edit("data-type-unknown", ["UnknownType"], "%s type=NoSuchData" % d.name,
                 onl(lambda l, i=i: setattr(l.data[i], "type_name", "NoSuchData")))
            if an_enum is not None:
                edit("data-type-not-composite", ["WrongKindReference"], "%s type=%s" % (d.name, an_enum.name),
                     onl(lambda l, i=i: setattr(l.data[i], "type_name", an_enum.name)))
            edit("data-type-is-message-header", ["BadLevelHeader"], "%s type=messageHeader (no length)" % d.name,
                 onl(lambda l, i=i: setattr(l.data[i], "type_name", base.header)))
            # a composite that is (validly) used as a group dimensionType elsewhere is still not a data header
            for dn in sorted(used_dims(base))[:2]:
                dimc = base.find(dn)
                if dimc is not None and "length" not in [m.name.lower() for m in dimc.members]:
                    edit("data-type-is-group-dimension", ["BadLevelHeader"],
                         "%s type=%s (a group dimensionType without length/varData)" % (d.name, dn),
                         onl(lambda l, i=i, dn=dn: setattr(l.data[i], "type_name", dn)))
                    edit("data-type-is-group-dimension-other-case", ["BadLevelHeader"],
                         "%s type=%s" % (d.name, dn.swapcase()),
                         onl(lambda l, i=i, dn=dn: setattr(l.data[i], "type_name", dn.swapcase())))
            kw = rng.choice(KEYWORDS)
            edit("name-keyword", ["InvalidName"], "data %s renamed to %r" % (d.name, kw),
                 onl(lambda l, i=i: setattr(l.data[i], "name", kw)))
            bad = rng.choice(BAD_SYMBOLIC)
            edit("name-not-symbolic", ["InvalidName"], "data %s renamed to %r" % (d.name, bad),
                 onl(lambda l, i=i: setattr(l.data[i], "name", bad)))

    # ---- messages / schema ---------------------------------------------------------
    for i, m in enumerate(base.messages):
        kw = rng.choice(KEYWORDS)
        edit("name-keyword", ["InvalidName"], "message %s renamed to %r" % (m.name, kw), lambda c, i=i: setattr(c.messages[i], "name", kw))
        bad = rng.choice(BAD_SYMBOLIC)
        edit("name-not-symbolic", ["InvalidName"], "message %s renamed to %r" % (m.name, bad), lambda c, i=i: setattr(c.messages[i], "name", bad))
        edit("message-id-not-uint32", ["BadNumber"], "message %s id=2^32" % m.name, lambda c, i=i: setattr(c.messages[i], "id", 1 << 32))
    if len(base.messages) >= 2:
        edit("message-duplicate-name", ["DuplicateName"], "two messages with one name",
             lambda c: setattr(c.messages[1], "name", c.messages[0].name))
        edit("message-duplicate-id", ["DuplicateName"], "two messages with one id",
             lambda c: setattr(c.messages[1], "id", c.messages[0].id))
    for nm in ("std", "posix", "class", "1pkg", "a.b", ""):
        edit("schema-name-invalid", ["InvalidName"], "package=%r" % nm, lambda c, nm=nm: setattr(c, "package", nm))
    edit("schema-name-underscore", None, "package=_ok_1", lambda c: setattr(c, "package", "_ok_1"))
    return cases


def _reach(xs, name, seen=None):
    """public names reachable from composite `name` through refs (lower case)"""
    seen = seen if seen is not None else set()

    def rec(t):
        if t.kind == "ref":
            ln = t.ref.lower()
            if ln not in seen:
                seen.add(ln)
                tgt = xs.find(t.ref)
                if tgt is not None:
                    rec(tgt)
        elif t.kind == "composite":
            for m in t.members:
                rec(m)
    t = xs.find(name)
    if t is not None:
        rec(t)
    return seen


def _is_header_like(xs, t):
    """composite used as message header / dimension / data header"""
    if t is None:
        return False
    ln = t.name.lower()
    return ln == xs.header.lower() or ln in used_dims(xs) or ln in used_datas(xs)


def _is_header_like_member(xs, t, cont):
    for h in xs.types:
        if h.kind == "composite" and _is_header_like(xs, h):
            if cont is h.members:
                return True
            for m in h.members:
                if m.kind == "ref" and m.ref.lower() == t.name.lower():
                    return True
    return False


# ----------------------------------------------------------------------
# running sbeppc and reading its verdict
# ----------------------------------------------------------------------

CLASS_RE = [
    ("Malformed", r"required attribute `.*` doesn't exist|required node content is empty|can't find `messageSchema`|"
                  r"XML parsing error|wrong presence token|unknown byteOrder|is unexpected here|"
                  r"`(?!name)\w+` attribute is empty"),
    ("InvalidName", r"is not a valid SBE name|is not a valid C\+\+ name|is not a valid C\+\+ namespace|`name` attribute is empty"),
    ("OffsetOverflow", r"does not fit into|doesn't fit into 64|overflow"),
    ("OffsetTooSmall", r"custom offset \(\d+\) is less than minim"),
    ("BlockLengthTooSmall", r"custom `blockLength` \(\d+\) is less than minimum"),
    ("ValueNotRepresentable", r"cannot be represented by type"),
    ("ChoiceIndexOutOfRange", r"choice index `\d+` is out of valid range"),
    ("BadNumber", r"cannot convert `\w+` value|doesn't represent choice_index_t"),
    ("BadLevelHeader", r"header `.*` doesn't have required|header element `.*` must|header element `.*` cannot be a constant"),
    ("BadEncodingType", r"must have length equal to 1, got|enum type should be|underlying type must be unsigned"),
    ("BadValueRef", r"is not a valid `valueRef`|doesn't have valid value"),
    ("BadConstant", r"either `valueRef` or value|non-char constant length|constant length \(\d+\) is greater|"
                    r"can't be a constant|field constant must have|should match field type|doesn't fit into `length`"),
    ("UnknownType", r"doesn't exist"),
    ("WrongKindReference", r"is not a composite|is not a type|is not an enum"),
    ("CyclicReference", r"cyclic reference"),
    ("MultiByteArray", r"arrays must have a single-byte type"),
    ("DuplicateName", r"already exists|duplicate "),
    ("BadPrimitiveType", r"is not a valid primitive type"),
    ("Io", r"can't open file|can't read file|can't create directory|cyclic include|is included recursively"),
    ("Argv", r"unknown argument|no value for option|missing filename|too many arguments"),
]
CLASS_RE = [(c, re.compile(r)) for c, r in CLASS_RE]
ANSI = re.compile(r"\x1b\[[0-9;]*m")
LOC_RE = re.compile(r"^(?P<path>.+?):(?P<line>\d+):(?P<col>\d+): ")


def classify(msg):
    for c, r in CLASS_RE:
        if r.search(msg):
            return c
    return "Other"


class Verdict:
    """what one sbeppc run showed"""

    def __init__(self, rc, out, err, files, timed_out=False):
        self.rc, self.out, self.err, self.files, self.timed_out = rc, out, err, files, timed_out
        text = ANSI.sub("", out)
        self.error_lines = [l[len("Error: "):] for l in text.split("\n") if l.startswith("Error: ")]
        self.first = self.error_lines[0] if self.error_lines else None
        self.cls = classify(self.first) if self.first else None
        self.located = bool(self.first and LOC_RE.match(self.first))
        self.signal = -rc if rc < 0 else None
        self.sanitizer = ("ERROR: AddressSanitizer" in err or "runtime error:" in err or "LeakSanitizer" in err)
        self.abort = ("terminate called" in err or "Assertion" in err) or self.signal is not None or rc in (134, 139)

    def status(self):
        if self.timed_out:
            return "hang"
        if self.signal is not None or self.rc >= 128:
            return "signal"
        if self.sanitizer or self.abort:
            return "crash"
        return "ok" if self.rc == 0 else "error"

    def brief(self):
        return {"rc": self.rc, "status": self.status(), "first_error": self.first, "class": self.cls,
                "located": self.located, "files": self.files[:5], "stderr": self.err[-600:]}


def list_files(d):
    import os
    out = []
    for root, _, fs in os.walk(d):
        for f in fs:
            out.append(os.path.relpath(os.path.join(root, f), d))
    return sorted(out)


def run_case(exe, workdir, xml_files, main="schema.xml", argv=None, timeout=20, env=None):
    """write `xml_files` (name -> bytes/str) into a fresh directory, run sbeppc
    there with a fresh output directory; returns Verdict"""
    import os
    import subprocess
    os.makedirs(workdir, exist_ok=True)
    for name, data in xml_files.items():
        p = os.path.join(workdir, name)
        os.makedirs(os.path.dirname(p), exist_ok=True)
        with open(p, "wb") as f:
            f.write(data if isinstance(data, bytes) else data.encode("utf-8"))
    outdir = os.path.join(workdir, "out")
    if argv is None:
        argv = ["--output-dir", "out", main]
    timed_out = False
    try:
        p = subprocess.run([exe] + list(argv), cwd=workdir, stdout=subprocess.PIPE, stderr=subprocess.PIPE,
                           timeout=timeout, env=env)
        rc, out, err = p.returncode, p.stdout.decode("utf-8", "replace"), p.stderr.decode("utf-8", "replace")
    except subprocess.TimeoutExpired as e:
        rc, out, err, timed_out = 124, (e.stdout or b"").decode("utf-8", "replace"), (e.stderr or b"").decode("utf-8", "replace"), True
    files = list_files(outdir) if os.path.isdir(outdir) else []
    return Verdict(rc, out, err, files, timed_out)


def run_many(exe, root, jobs, workers=16, timeout=20, env=None):
    """jobs: list of (xml_files, main, argv).  Returns list of Verdict in order"""
    import os
    from concurrent.futures import ThreadPoolExecutor

    def one(ij):
        i, (files, main, argv) = ij
        return run_case(exe, os.path.join(root, "c%05d" % i), files, main, argv, timeout, env)
    with ThreadPoolExecutor(max_workers=workers) as ex:
        return list(ex.map(one, enumerate(jobs)))


def base_schemas(rng, n, nmsg=2, max_depth=2):
    out = []
    for i in range(n):
        g = Gen(rng.fork("base%d" % i), package="ms%d" % i)
        s = g.schema(nmsg=nmsg, max_depth=max_depth)
        out.append((XSchema(s), g.stats))
    return out


# ----------------------------------------------------------------------
# the C09 streams: structure garbling, includes, raw bytes, argv
# ----------------------------------------------------------------------

GARBAGE = ["", " ", "abc", "-1", str(U64 + 1), str(U64), "99999999999999999999999999999999999999", "1e3", "0x10",
           "+5", " 7", "7 ", "ÿþ", "a" * 5000, "&#1;", "%s%n{}", "1.5", "NaN", "constant", "uint8",
           "messageHeader", "groupSizeEncoding", ".", "E.", ".A", "a.b.c"]

NODE_ATTRS = {
    "schema": ["package", "id", "version", "byteOrder", "headerType"],
    "type": ["name", "primitiveType", "length", "presence", "offset", "minValue", "maxValue", "nullValue", "valueRef"],
    "enum": ["name", "encodingType", "offset"],
    "set": ["name", "encodingType", "offset"],
    "ref": ["name", "type", "offset"],
    "composite": ["name", "offset"],
    "field": ["name", "id", "type", "offset", "presence", "valueRef"],
    "group": ["name", "id", "dimensionType", "blockLength"],
    "data": ["name", "id", "type"],
    "message": ["name", "id", "blockLength"],
}


def walk_nodes(xs):
    """every attribute-carrying node: (object, kind)"""
    out = [(xs, "schema")]
    for t, _, _ in walk_elements(xs):
        out.append((t, t.kind))
    for lv, _ in walk_levels(xs):
        out.append((lv, "group" if isinstance(lv, Group) else "message"))
        for f in lv.fields:
            out.append((f, "field"))
        for d in lv.data:
            out.append((d, "data"))
    return out


class Input:
    def __init__(self, stream, kind, files, main="schema.xml", argv=None, expect="any", model=None, note=""):
        self.stream, self.kind, self.files, self.main, self.argv = stream, kind, files, main, argv
        self.expect = expect      # "any" (exit 0 or diagnostic) | "accept" | "reject"
        self.model = model        # model line whose verdict must agree, or None
        self.note = note


def _set_raw(obj, k, v):
    raw = dict(getattr(obj, "raw", None) or {})
    raw[k] = v
    obj.raw = raw


def c09_garble(base, rng, per_attr=1):
    out = []
    nodes = walk_nodes(base)
    for k, (obj, kind) in enumerate(nodes):
        for a in NODE_ATTRS[kind]:
            c = copy.deepcopy(base)
            _set_raw(walk_nodes(c)[k][0], a, None)
            out.append(Input("garble", "delete-attribute:%s.%s" % (kind, a), {"schema.xml": schema_xml(c)},
                             note="%s of %s %s deleted" % (a, kind, getattr(obj, "name", ""))))
            for _ in range(per_attr):
                g = rng.choice(GARBAGE)
                c = copy.deepcopy(base)
                _set_raw(walk_nodes(c)[k][0], a, g)
                out.append(Input("garble", "garble-attribute:%s.%s" % (kind, a), {"schema.xml": schema_xml(c)},
                                 note="%s of %s %s = %r" % (a, kind, getattr(obj, "name", ""), g[:40])))
        # unknown / extreme extra attributes
        c = copy.deepcopy(base)
        o = walk_nodes(c)[k][0]
        ex = rng.choice([("sinceVersion", str(U64 + 1)), ("sinceVersion", "-1"), ("deprecated", "abc"),
                         ("sinceVersion", "7"), ("deprecated", "1"), ("semanticType", "x" * 300),
                         ("description", "&quot;\\"), ("characterEncoding", ""), ("bogus", "1")])
        _set_raw(o, ex[0], ex[1])
        if ex == ("sinceVersion", "7"):
            _set_raw(o, "deprecated", "2")
        out.append(Input("garble", "extra-attribute:%s" % ex[0], {"schema.xml": schema_xml(c)},
                         note="%s=%r on %s" % (ex[0], ex[1][:20], kind)))
        if kind in ("type", "enum", "set", "ref", "composite"):
            c = copy.deepcopy(base)
            tag = rng.choice(["bogus", "field", "message", "types", "include", "composite" if kind != "composite" else "type",
                              "enum" if kind != "enum" else "set", "ref" if kind != "ref" else "type"])
            _set_raw(walk_nodes(c)[k][0], "#tag", tag)
            out.append(Input("garble", "retag-element:%s->%s" % (kind, tag), {"schema.xml": schema_xml(c)},
                             note="<%s %s> written as <%s>" % (kind, getattr(obj, "name", ""), tag)))
    # enum / set children
    for k, (t, _, _) in enumerate(walk_elements(base)):
        if t.kind in ("enum", "set") and t.values:
            for nv in [("", "1"), ("X", ""), ("X", " "), ("X", "-1"), ("X", str(U64 + 1)), ("X", "é"), ("class", "1")]:
                c = copy.deepcopy(base)
                walk_elements(c)[k][0].values.append(nv)
                out.append(Input("garble", "%s-child:%s" % (t.kind, "name" if nv[0] in ("", "class") else "value"),
                                 {"schema.xml": schema_xml(c)}, note="%s gets child %r" % (t.name, nv)))
            c = copy.deepcopy(base)
            walk_elements(c)[k][0].values = []
            out.append(Input("garble", "%s-no-children" % t.kind, {"schema.xml": schema_xml(c)}, note=t.name))
    # member order
    for k, (lv, _) in enumerate(walk_levels(base)):
        for order in ("dgf", "gfd", "fdg", "dfg", "gdf"):
            c = copy.deepcopy(base)
            walk_levels(c)[k][0].member_order = order
            out.append(Input("garble", "member-order:%s" % order, {"schema.xml": schema_xml(c)}, note=lv.name))
    return out


def c09_retarget(base, rng):
    """every reference retargeted to every public name (incl. itself => cycles);
    the AST stays representable, so the model's verdict must agree"""
    out = []
    names = [t.name for t in base.types] + ["uint8", "double", "NoSuch"]

    def emit(kind, c, note):
        out.append(Input("retarget", kind, {"schema.xml": schema_xml(c)}, model=model_line(c), note=note))
    for k, (t, cont, public) in enumerate(walk_elements(base)):
        if t.kind == "ref":
            for n in names:
                c = copy.deepcopy(base)
                walk_elements(c)[k][0].ref = n
                emit("ref-type", c, "ref %s -> %s" % (t.name, n))
        if t.kind in ("enum", "set"):
            for n in names:
                c = copy.deepcopy(base)
                walk_elements(c)[k][0].prim = n
                emit("%s-encodingType" % t.kind, c, "%s -> %s" % (t.name, n))
        if t.kind == "composite" and public:
            # add a ref member to every public name: self reference, cycles, deep chains
            for n in names:
                c = copy.deepcopy(base)
                walk_elements(c)[k][0].members.append(TypeDef("extraRef", "ref", ref=n))
                emit("composite-extra-ref", c, "%s gets ref to %s" % (t.name, n))
    for k, (lv, _) in enumerate(walk_levels(base)):
        for i, f in enumerate(lv.fields):
            for n in rng.choice([names, names[:len(names) // 2], names[len(names) // 2:]]):
                c = copy.deepcopy(base)
                walk_levels(c)[k][0].fields[i].type_name = n
                emit("field-type", c, "%s.%s -> %s" % (lv.name, f.name, n))
        if isinstance(lv, Group):
            for n in names:
                c = copy.deepcopy(base)
                walk_levels(c)[k][0].dim = n
                emit("group-dimensionType", c, "%s -> %s" % (lv.name, n))
        for i, d in enumerate(lv.data):
            for n in names:
                c = copy.deepcopy(base)
                walk_levels(c)[k][0].data[i].type_name = n
                emit("data-type", c, "%s -> %s" % (d.name, n))
    for n in names:
        c = copy.deepcopy(base)
        c.header = n
        emit("headerType", c, "headerType -> %s" % n)
    return out


FRAG_TYPES = '<?xml version="1.0"?>\n<types><type name="IncT" primitiveType="uint8"/></types>\n'


def c09_includes(base):
    xml = schema_xml(base)
    inc = lambda href: '<xi:include xmlns:xi="http://www.w3.org/2001/XInclude" href="%s"/>\n' % href
    plain = lambda href: '<include href="%s"/>\n' % href
    out = []

    def add(kind, files, expect, note, mline=None):
        out.append(Input("include", kind, files, expect=expect, model=mline, note=note))

    def incline(main, main_incs, fs, impl="cur"):
        toks = [tstr(main), str(len(main_incs))] + [tstr(h) for h in main_incs] + [str(len(fs))]
        for p, hs in fs:
            toks += [tstr(p), str(len(hs))] + [tstr(h) for h in hs]
        return "c09inc %s %s" % (impl, " ".join(toks))
    # valid include of a types fragment
    add("valid-fragment", {"schema.xml": schema_xml(base, extra_inside=inc("frag.xml")), "frag.xml": FRAG_TYPES},
        "accept", "include of a <types> fragment", incline("schema.xml", ["frag.xml"], [("schema.xml", []), ("frag.xml", [])]))
    add("valid-fragment-plain-tag", {"schema.xml": schema_xml(base, extra_inside=plain("frag.xml")), "frag.xml": FRAG_TYPES},
        "accept", "<include> without namespace", incline("schema.xml", ["frag.xml"], [("schema.xml", []), ("frag.xml", [])]))
    add("same-fragment-twice", {"schema.xml": schema_xml(base, extra_inside=inc("frag.xml") + inc("frag.xml")), "frag.xml": FRAG_TYPES},
        "reject", "fragment included twice: duplicate encoding")
    add("missing-file", {"schema.xml": schema_xml(base, extra_inside=inc("nope.xml"))}, "reject", "href names no file",
        incline("schema.xml", ["nope.xml"], [("schema.xml", [])]))
    add("no-href", {"schema.xml": schema_xml(base, extra_inside="<include/>\n")}, "reject", "include without href")
    add("empty-href", {"schema.xml": schema_xml(base, extra_inside=plain(""))}, "reject", "href empty")
    add("href-directory", {"schema.xml": schema_xml(base, extra_inside=plain("."))}, "reject", "href is a directory")
    add("garbage-fragment", {"schema.xml": schema_xml(base, extra_inside=plain("g.xml")), "g.xml": b"\x00\xff<<<"}, "reject",
        "included file is not XML")
    add("main-includes-itself-inside-schema", {"schema.xml": schema_xml(base, extra_inside=plain("schema.xml"))}, "any",
        "main file includes itself inside <messageSchema> (harmless before the repair: the inner parse only looks at "
        "document-level children; reported as recursive inclusion after it)")
    # cycles: document-level <include> children are followed by the parser of an included file
    add("self-include", {"schema.xml": schema_xml(base, extra_inside=plain("inc.xml")),
                         "inc.xml": '<?xml version="1.0"?>\n' + plain("inc.xml")},
        "reject", "included file includes itself", incline("schema.xml", ["inc.xml"], [("schema.xml", []), ("inc.xml", ["inc.xml"])]))
    add("main-self-include", {"schema.xml": schema_xml(base, extra_inside=plain("schema.xml")).replace(
        "</sbe:messageSchema>\n", "</sbe:messageSchema>\n" + plain("schema.xml"))},
        "reject", "the main file includes itself and has a document-level include of itself",
        incline("schema.xml", ["schema.xml"], [("schema.xml", ["schema.xml"])]))
    add("mutual-include", {"schema.xml": schema_xml(base, extra_inside=plain("a.xml")), "a.xml": plain("b.xml"), "b.xml": plain("a.xml")},
        "reject", "a.xml <-> b.xml", incline("schema.xml", ["a.xml"], [("schema.xml", []), ("a.xml", ["b.xml"]), ("b.xml", ["a.xml"])]))
    add("three-cycle", {"schema.xml": schema_xml(base, extra_inside=plain("a.xml")), "a.xml": plain("b.xml"), "b.xml": plain("c.xml"),
                        "c.xml": FRAG_TYPES.replace("<types>", plain("a.xml") + "<types>")},
        "reject", "a -> b -> c -> a", incline("schema.xml", ["a.xml"], [("schema.xml", []), ("a.xml", ["b.xml"]), ("b.xml", ["c.xml"]), ("c.xml", ["a.xml"])]))
    add("aliased-self-include", {"schema.xml": schema_xml(base, extra_inside=plain("inc.xml")), "inc.xml": plain("./inc.xml")},
        "reject", "inc.xml includes ./inc.xml",
        incline("schema.xml", ["inc.xml"], [("schema.xml", []), ("inc.xml", ["./inc.xml"]), ("./inc.xml", ["./inc.xml"])]))
    files = {"schema.xml": schema_xml(base, extra_inside=plain("d0.xml"))}
    fs = [("schema.xml", [])]
    for i in range(40):
        files["d%d.xml" % i] = plain("d%d.xml" % (i + 1))
        fs.append(("d%d.xml" % i, ["d%d.xml" % (i + 1)]))
    files["d40.xml"] = FRAG_TYPES
    fs.append(("d40.xml", []))
    add("deep-chain", files, "accept", "40 nested includes, no cycle", incline("schema.xml", ["d0.xml"], fs))
    files = {"schema.xml": schema_xml(base, extra_inside=plain("x.xml") + plain("y.xml")), "x.xml": plain("z.xml"), "y.xml": plain("z.xml"),
             "z.xml": "<types/>\n"}
    add("diamond", files, "accept", "x and y both include z (no cycle)",
        incline("schema.xml", ["x.xml", "y.xml"], [("schema.xml", []), ("x.xml", ["z.xml"]), ("y.xml", ["z.xml"]), ("z.xml", [])]))
    return out


def c09_const_char(base):
    """constant char types: value / valueRef / length combinations (parse_type_encoding)"""
    out = []
    for vref, content, length in [(True, None, None), (True, None, 1), (True, None, 3), (True, "A", None), (False, None, None),
                                  (False, "AB", None), (False, "AB", 1), (False, "AB", 2), (False, "AB", 5), (False, "A", None),
                                  (False, None, 0), (False, None, 4)]:
        c = copy.deepcopy(base)
        c.types.append(TypeDef("CcE", "enum", prim="char", values=[("A", "A"), ("B", "B")]))
        t = TypeDef("CcK", "type", prim="char", presence="constant", const_value=content,
                    length=length if length is not None else 1)
        t.has_length = length is not None
        if vref:
            t.vref = "CcE.A"
        c.types.append(t)
        note = "char constant valueRef=%s content=%r length=%r" % (vref, content, length)
        out.append(Input("const-char", "valueref=%d,content=%s,length=%s" % (vref, content is not None, length),
                         {"schema.xml": schema_xml(c)}, model=model_line(c), note=note))
    return out


UNUSUAL_VALID_SCHEMA = """<?xml version="1.0" encoding="UTF-8"?>
<sbe:messageSchema xmlns:sbe="http://fixprotocol.io/2016/sbe" package="unusual" id="4294967295" version="20240926001" byteOrder="bigEndian">
<types>
    <type name="uInt8" primitiveType="uint8"/>
    <type name="Counter" primitiveType="uint16"/>
    <type name="Len32" primitiveType="uint32"/>
    <type name="K" primitiveType="uint16" presence="constant">7</type>
    <composite name="messageHeader">
      <type name="blockLength" primitiveType="uint64"/>
      <type name="templateId" primitiveType="uint32"/>
      <type name="schemaId" primitiveType="uint32"/>
      <type name="version" primitiveType="uint64"/>
    </composite>
    <composite name="refDim">
      <ref name="blockLength" type="Counter"/>
      <ref name="numInGroup" type="uInt8"/>
      <type name="numGroups" primitiveType="uint16"/>
      <type name="numVarDataFields" primitiveType="uint8"/>
    </composite>
    <composite name="refData">
      <ref name="length" type="Len32"/>
      <type name="varData" primitiveType="uint8" length="0"/>
    </composite>
    <set name="flags" encodingType="uInt8"><choice name="lo">0</choice><choice name="hi">7</choice></set>
    <enum name="side" encodingType="uInt8"><validValue name="buy">1</validValue><validValue name="sell">254</validValue></enum>
    <composite name="quote">
      <type name="f" primitiveType="uint8"/>
      <composite name="px" offset="4"><type name="mantissa" primitiveType="int32"/><type name="exponent" primitiveType="int8"/></composite>
      <ref name="cnt" type="Counter"/>
    </composite>
</types>
<sbe:message name="empty" id="1"/>
<sbe:message name="full" id="4294967295">
  <field name="q" id="1" type="quote"/>
  <field name="fl" id="2" type="flags"/>
  <field name="sd" id="3" type="side"/>
  <field name="k" id="4" type="K"/>
  <group name="marks" id="10" dimensionType="refDim" blockLength="4">
    <field name="k" id="1" type="K"/>
  </group>
  <group name="legs" id="11" dimensionType="refDim">
    <field name="sd" id="1" type="side"/>
    <group name="full" id="12" dimensionType="refDim"><field name="x" id="1" type="uInt8"/></group>
    <data name="note" id="13" type="refData"/>
  </group>
  <data name="memo" id="20" type="refData"/>
</sbe:message>
</sbe:messageSchema>
"""


def c09_raw(base, rng, ntrunc=60, nflip=60):
    xml = schema_xml(base).encode()
    out = []

    def add(kind, data, note=""):
        out.append(Input("raw", kind, {"schema.xml": data}, note=note))
    add("empty-file", b"")
    add("one-byte", b"<")
    add("only-bom", b"\xef\xbb\xbf")
    add("only-declaration", b'<?xml version="1.0"?>')
    add("nul-bytes", b"\x00" * 100)
    add("utf16", schema_xml(base).encode("utf-16"))
    add("no-schema-element", b"<a><b/></a>")
    add("two-roots", xml + xml)
    add("schema-element-only", b'<messageSchema package="p" id="1" version="0"/>')
    add("schema-no-attributes", b"<messageSchema/>")
    add("deep-nesting", b"<a>" * 20000 + b"</a>" * 20000)
    add("deep-composites", b'<messageSchema package="p" id="1" version="0"><types>' + b'<composite name="c">' * 3000 +
        b"</composite>" * 3000 + b"</types></messageSchema>", "3000 nested composites")
    add("deep-groups", b'<messageSchema package="p" id="1" version="0"><message name="m" id="1">' + b'<group name="g" id="1">' * 3000 +
        b"</group>" * 3000 + b"</message></messageSchema>", "3000 nested groups")
    add("huge-attribute", b'<messageSchema package="' + b"p" * 1000000 + b'" id="1" version="0"/>')
    add("doctype-entities", b'<?xml version="1.0"?><!DOCTYPE a [<!ENTITY x "xxxxxxxxxx"><!ENTITY y "&x;&x;&x;&x;&x;&x;&x;&x;">]>' + xml)
    add("cdata-pi", xml.replace(b"<types>", b"<types><![CDATA[ <type/> ]]><?include href='x'?><!-- c -->"))
    # a VALID schema made of unusual shapes (every code-generation path must survive it): enum / set whose
    # encodingType names a <type>, ref-typed level header members named differently from their types, a nested
    # composite with its own offset, fields constant through their type, an empty message, a constant-only group with
    # an explicit blockLength, 64-bit header members with values beyond 2^32, <data> with a uint32 length
    out.append(Input("raw", "valid-unusual-shapes", {"schema.xml": UNUSUAL_VALID_SCHEMA.encode()}, expect="accept",
                     note="valid schema built from rarely used shapes"))
    for i in range(40):
        n = 1 + rng.below(300)
        add("random-bytes", bytes(rng.below(256) for _ in range(n)))
    for i in range(ntrunc):
        k = rng.below(len(xml))
        add("truncated", xml[:k], "cut at %d of %d" % (k, len(xml)))
    for i in range(nflip):
        b = bytearray(xml)
        for _ in range(1 + rng.below(3)):
            k = rng.below(len(b))
            op = rng.below(4)
            if op == 0:
                b[k] = rng.below(256)
            elif op == 1:
                del b[k:k + 1 + rng.below(20)]
            elif op == 2:
                b[k:k] = bytes(rng.choice([b"<", b">", b'"', b"&", b"\x00", b"</", b"/>", b"<!--", b"]]>", b"\xff"]))
            else:
                j = rng.below(len(b))
                b[k:k] = b[j:j + rng.below(80)]
        add("byte-edit", bytes(b))
    return out


def c09_argv(base):
    xml = schema_xml(base)
    f = {"schema.xml": xml}
    out = []

    def add(kind, argv, expect, files=None, note=""):
        out.append(Input("argv", kind, files if files is not None else f, argv=argv, expect=expect, note=note or " ".join(argv)))
    add("no-arguments", [], "accept")
    add("help", ["--help"], "accept")
    add("version", ["--version"], "accept")
    add("help-after-file", ["schema.xml", "--help"], "reject")
    add("missing-file-argument", ["--output-dir", "out"], "reject")
    add("unknown-option", ["--bogus", "schema.xml"], "reject")
    add("single-dash", ["-", "schema.xml"], "reject")
    add("option-without-value", ["schema.xml", "--output-dir"], "reject")
    add("output-dir-without-value", ["--output-dir"], "reject")
    add("schema-name-without-value", ["--schema-name"], "reject")
    add("inject-without-value", ["--inject-include"], "reject")
    add("two-files", ["--output-dir", "out", "schema.xml", "schema.xml"], "reject")
    add("double-dash", ["--output-dir", "out", "--", "schema.xml"], "accept")
    add("double-dash-only", ["--"], "reject")
    add("double-dash-then-option", ["--", "--help"], "reject", note="a file called --help does not exist")
    add("nonexistent-file", ["--output-dir", "out", "nope.xml"], "reject")
    add("empty-file-name", ["--output-dir", "out", ""], "reject")
    add("directory-as-file", ["--output-dir", "out", "."], "reject")
    add("dev-null-as-file", ["--output-dir", "out", "/dev/null"], "reject")
    add("output-dir-under-file", ["--output-dir", "schema.xml/sub", "schema.xml"], "reject")
    add("output-dir-under-proc", ["--output-dir", "/proc/sbepp-verif-nope/x", "schema.xml"], "reject")
    add("output-dir-under-dev-null", ["--output-dir", "/dev/null/x", "schema.xml"], "reject")
    add("output-dir-empty", ["--output-dir", "", "schema.xml"], "any")
    add("schema-name-valid", ["--output-dir", "out", "--schema-name", "other_name", "schema.xml"], "accept")
    add("schema-name-keyword", ["--output-dir", "out", "--schema-name", "class", "schema.xml"], "reject")
    add("schema-name-std", ["--output-dir", "out", "--schema-name", "std", "schema.xml"], "reject")
    add("schema-name-empty", ["--output-dir", "out", "--schema-name", "", "schema.xml"], "reject")
    add("schema-name-path", ["--output-dir", "out", "--schema-name", "../x", "schema.xml"], "reject")
    add("schema-name-twice", ["--output-dir", "out", "--schema-name", "a1", "--schema-name", "b2", "schema.xml"], "accept")
    add("inject-include", ["--output-dir", "out", "--inject-include", "x/y.hpp", "schema.xml"], "accept")
    add("inject-include-odd", ["--output-dir", "out", "--inject-include", '"\\\n', "schema.xml"], "accept")
    add("option-value-looks-like-option", ["--output-dir", "--help", "schema.xml"], "any")
    add("very-long-argument", ["--output-dir", "out", "x" * 5000], "reject")
    add("many-options", ["--output-dir", "out"] * 200 + ["schema.xml"], "accept")
    return out
