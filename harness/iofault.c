/* iofault.c — LD_PRELOAD fault-injection shim for property C20 (route T4).
 *
 * Counts the primitive calls that touch paths under IOFAULT_PREFIX (mkdir,
 * open-like, write-like, close-like, fsync, rename; numbered from 0 in the
 * order they are made) and answers the calls named by IOFAULT_SCHED with an
 * injected fault instead of performing them:
 *
 *   IOFAULT_PREFIX=/abs/dir         only paths equal to or below this directory count
 *   IOFAULT_SCHED=k:kind,k+:kind    kind = enospc | eacces | eio | e<errno> | short<m>
 *                                   "k+" = call k and every later one; first match wins
 *   IOFAULT_LOG=/abs/file           one line per counted call (outside the prefix)
 *   IOFAULT_TIME_SHIFT=<seconds>    time(), gettimeofday(), clock_gettime(CLOCK_REALTIME) report a wall clock
 *                                   shifted by that many seconds (determinism: output must not depend on the date)
 *
 * A failed call returns -1 / NULL with errno set and does nothing (a failed
 * close/fclose still releases the descriptor, as close(2) does).  short<m> makes a
 * write/writev/pwrite of n >= 2 bytes accept max(1, min(m, n-1)) bytes; every other
 * call ignores it.  The same three values can be set in-process with
 * iofault_configure() (used by cpp/c20_harness.cpp).
 *
 * What libstdc++ really calls was checked with strace/ltrace: std::ofstream opens
 * with fopen()/fopen64() (the open(2) inside glibc is not interposable, hence
 * fopen*, fdopen-less), writes with write()/writev() on fileno(), closes with
 * fclose(); std::filesystem::create_directories uses stat() and mkdir().
 *
 * Log line:  <k> <mkdir|open|write|close|fsync|rename> <path> [<requested>] <ok|bytes|E<errno>>
 */
#define _GNU_SOURCE
#include <dlfcn.h>
#include <errno.h>
#include <fcntl.h>
#include <stdarg.h>
#include <stdio.h>
#include <stdlib.h>
#include <string.h>
#include <sys/stat.h>
#include <sys/types.h>
#include <sys/uio.h>
#include <sys/time.h>
#include <time.h>
#include <unistd.h>

#define MAXFD 4096
#define MAXSCHED 4096

struct entry
{
    long k;
    int persistent;
    int err;   /* errno, 0 for a short write */
    long m;    /* short write: bytes */
};

static char g_prefix[4096];
static size_t g_prefix_len;
static struct entry g_sched[MAXSCHED];
static int g_nsched;
static int g_logfd = -1;
static long g_count;
static char* g_fdpath[MAXFD];
static int g_init;

static int (*real_mkdir)(const char*, mode_t);
static int (*real_mkdirat)(int, const char*, mode_t);
static int (*real_open)(const char*, int, ...);
static int (*real_open64)(const char*, int, ...);
static int (*real_openat)(int, const char*, int, ...);
static int (*real_openat64)(int, const char*, int, ...);
static int (*real_creat)(const char*, mode_t);
static FILE* (*real_fopen)(const char*, const char*);
static FILE* (*real_fopen64)(const char*, const char*);
static int (*real_fclose)(FILE*);
static ssize_t (*real_write)(int, const void*, size_t);
static ssize_t (*real_writev)(int, const struct iovec*, int);
static ssize_t (*real_pwrite)(int, const void*, size_t, off_t);
static int (*real_close)(int);
static int (*real_fsync)(int);
static int (*real_rename)(const char*, const char*);

static void parse_sched(const char* s)
{
    g_nsched = 0;
    if(!s || !*s || strcmp(s, "-") == 0)
        return;
    while(*s && g_nsched < MAXSCHED)
    {
        struct entry e;
        char* end;
        memset(&e, 0, sizeof e);
        e.k = strtol(s, &end, 10);
        s = end;
        if(*s == '+')
        {
            e.persistent = 1;
            s++;
        }
        if(*s == ':')
            s++;
        if(strncmp(s, "enospc", 6) == 0)
        {
            e.err = ENOSPC;
            s += 6;
        }
        else if(strncmp(s, "eacces", 6) == 0)
        {
            e.err = EACCES;
            s += 6;
        }
        else if(strncmp(s, "eio", 3) == 0)
        {
            e.err = EIO;
            s += 3;
        }
        else if(strncmp(s, "short", 5) == 0)
        {
            e.m = strtol(s + 5, &end, 10);
            s = end;
        }
        else if(*s == 'e')
        {
            e.err = (int)strtol(s + 1, &end, 10);
            s = end;
        }
        g_sched[g_nsched++] = e;
        while(*s && *s != ',')
            s++;
        if(*s == ',')
            s++;
    }
}

static void resolve(void)
{
    real_mkdir = dlsym(RTLD_NEXT, "mkdir");
    real_mkdirat = dlsym(RTLD_NEXT, "mkdirat");
    real_open = dlsym(RTLD_NEXT, "open");
    real_open64 = dlsym(RTLD_NEXT, "open64");
    real_openat = dlsym(RTLD_NEXT, "openat");
    real_openat64 = dlsym(RTLD_NEXT, "openat64");
    real_creat = dlsym(RTLD_NEXT, "creat");
    real_fopen = dlsym(RTLD_NEXT, "fopen");
    real_fopen64 = dlsym(RTLD_NEXT, "fopen64");
    real_fclose = dlsym(RTLD_NEXT, "fclose");
    real_write = dlsym(RTLD_NEXT, "write");
    real_writev = dlsym(RTLD_NEXT, "writev");
    real_pwrite = dlsym(RTLD_NEXT, "pwrite");
    real_close = dlsym(RTLD_NEXT, "close");
    real_fsync = dlsym(RTLD_NEXT, "fsync");
    real_rename = dlsym(RTLD_NEXT, "rename");
}

void iofault_configure(const char* prefix, const char* sched, const char* logpath)
{
    int i;
    if(!real_write)
        resolve();
    g_init = 1;
    for(i = 0; i < MAXFD; i++)
    {
        free(g_fdpath[i]);
        g_fdpath[i] = NULL;
    }
    if(g_logfd >= 0)
    {
        real_close(g_logfd);
        g_logfd = -1;
    }
    g_count = 0;
    g_prefix[0] = 0;
    g_prefix_len = 0;
    if(prefix && *prefix)
    {
        strncpy(g_prefix, prefix, sizeof g_prefix - 1);
        g_prefix[sizeof g_prefix - 1] = 0;
        g_prefix_len = strlen(g_prefix);
        while(g_prefix_len > 1 && g_prefix[g_prefix_len - 1] == '/')
            g_prefix[--g_prefix_len] = 0;
    }
    parse_sched(sched);
    if(logpath && *logpath)
        g_logfd = real_open(logpath, O_WRONLY | O_CREAT | O_APPEND | O_CLOEXEC, 0644);
}

/* number of counted calls so far */
long iofault_count(void)
{
    return g_count;
}

static void init(void)
{
    if(g_init)
        return;
    g_init = 1;
    resolve();
    iofault_configure(getenv("IOFAULT_PREFIX"), getenv("IOFAULT_SCHED"), getenv("IOFAULT_LOG"));
}

static int under(const char* p)
{
    if(!p || !g_prefix_len)
        return 0;
    if(strncmp(p, g_prefix, g_prefix_len) != 0)
        return 0;
    return p[g_prefix_len] == 0 || p[g_prefix_len] == '/';
}

static const char* tracked(int fd)
{
    if(fd < 0 || fd >= MAXFD || fd == g_logfd)
        return NULL;
    return g_fdpath[fd];
}

static void track(int fd, const char* path)
{
    if(fd < 0 || fd >= MAXFD)
        return;
    free(g_fdpath[fd]);
    g_fdpath[fd] = strdup(path);
}

static void untrack(int fd)
{
    if(fd < 0 || fd >= MAXFD)
        return;
    free(g_fdpath[fd]);
    g_fdpath[fd] = NULL;
}

/* takes the next call number; returns the schedule entry that applies or NULL */
static const struct entry* next_call(long* k)
{
    int i;
    *k = g_count++;
    for(i = 0; i < g_nsched; i++)
    {
        if(g_sched[i].k == *k || (g_sched[i].persistent && g_sched[i].k < *k))
            return &g_sched[i];
    }
    return NULL;
}

static void logcall(long k, const char* what, const char* path, long req, long res, int err)
{
    char buf[4600];
    int n;
    int saved = errno;
    if(g_logfd < 0)
        return;
    if(req >= 0)
    {
        if(err)
            n = snprintf(buf, sizeof buf, "%ld %s %s %ld E%d\n", k, what, path, req, err);
        else
            n = snprintf(buf, sizeof buf, "%ld %s %s %ld %ld\n", k, what, path, req, res);
    }
    else
    {
        if(err)
            n = snprintf(buf, sizeof buf, "%ld %s %s E%d\n", k, what, path, err);
        else
            n = snprintf(buf, sizeof buf, "%ld %s %s ok\n", k, what, path);
    }
    if(n > 0)
    {
        ssize_t r = real_write(g_logfd, buf, (size_t)n);
        (void)r;
    }
    errno = saved;
}

/* ------------------------------------------------------------------ mkdir */
int mkdir(const char* path, mode_t mode)
{
    long k;
    const struct entry* e;
    int r;
    init();
    if(!under(path))
        return real_mkdir(path, mode);
    e = next_call(&k);
    if(e && e->err)
    {
        logcall(k, "mkdir", path, -1, 0, e->err);
        errno = e->err;
        return -1;
    }
    r = real_mkdir(path, mode);
    logcall(k, "mkdir", path, -1, 0, r ? errno : 0);
    return r;
}

int mkdirat(int dirfd, const char* path, mode_t mode)
{
    long k;
    const struct entry* e;
    int r;
    init();
    if(!under(path))
        return real_mkdirat(dirfd, path, mode);
    e = next_call(&k);
    if(e && e->err)
    {
        logcall(k, "mkdir", path, -1, 0, e->err);
        errno = e->err;
        return -1;
    }
    r = real_mkdirat(dirfd, path, mode);
    logcall(k, "mkdir", path, -1, 0, r ? errno : 0);
    return r;
}

/* ------------------------------------------------------------------- open */
static int open_pre(const char* path, long* k)
{
    const struct entry* e = next_call(k);
    if(e && e->err)
    {
        logcall(*k, "open", path, -1, 0, e->err);
        errno = e->err;
        return -1;
    }
    return 0;
}

static void open_post(long k, const char* path, int fd)
{
    logcall(k, "open", path, -1, 0, fd < 0 ? errno : 0);
    if(fd >= 0)
        track(fd, path);
}

#define OPEN_BODY(CALL)                                                                            \
    long k;                                                                                        \
    int fd;                                                                                        \
    mode_t mode = 0;                                                                               \
    init();                                                                                        \
    if(flags & (O_CREAT | O_TMPFILE))                                                              \
    {                                                                                              \
        va_list ap;                                                                                \
        va_start(ap, flags);                                                                       \
        mode = (mode_t)va_arg(ap, int);                                                            \
        va_end(ap);                                                                                \
    }                                                                                              \
    if(!under(path))                                                                               \
        return CALL;                                                                               \
    if(open_pre(path, &k))                                                                         \
        return -1;                                                                                 \
    fd = CALL;                                                                                     \
    open_post(k, path, fd);                                                                        \
    return fd;

int open(const char* path, int flags, ...)
{
    OPEN_BODY(real_open(path, flags, mode))
}

int open64(const char* path, int flags, ...)
{
    OPEN_BODY(real_open64(path, flags, mode))
}

int openat(int dirfd, const char* path, int flags, ...)
{
    OPEN_BODY(real_openat(dirfd, path, flags, mode))
}

int openat64(int dirfd, const char* path, int flags, ...)
{
    OPEN_BODY(real_openat64(dirfd, path, flags, mode))
}

int creat(const char* path, mode_t mode)
{
    long k;
    int fd;
    init();
    if(!under(path))
        return real_creat(path, mode);
    if(open_pre(path, &k))
        return -1;
    fd = real_creat(path, mode);
    open_post(k, path, fd);
    return fd;
}

static FILE* fopen_common(FILE* (*real)(const char*, const char*), const char* path, const char* mode)
{
    long k;
    FILE* f;
    init();
    if(!under(path))
        return real(path, mode);
    if(open_pre(path, &k))
        return NULL;
    f = real(path, mode);
    open_post(k, path, f ? fileno(f) : -1);
    return f;
}

FILE* fopen(const char* path, const char* mode)
{
    init();
    return fopen_common(real_fopen, path, mode);
}

FILE* fopen64(const char* path, const char* mode)
{
    init();
    return fopen_common(real_fopen64, path, mode);
}

/* ------------------------------------------------------------------ write */
static size_t short_len(const struct entry* e, size_t n)
{
    size_t w = (size_t)(e->m < 0 ? 0 : e->m);
    if(w > n - 1)
        w = n - 1;
    if(w < 1)
        w = 1;
    return w;
}

ssize_t write(int fd, const void* buf, size_t n)
{
    long k;
    const struct entry* e;
    const char* path;
    ssize_t r;
    init();
    path = tracked(fd);
    if(!path)
        return real_write(fd, buf, n);
    e = next_call(&k);
    if(e && e->err)
    {
        logcall(k, "write", path, (long)n, 0, e->err);
        errno = e->err;
        return -1;
    }
    if(e && n >= 2)
        r = real_write(fd, buf, short_len(e, n));
    else
        r = real_write(fd, buf, n);
    logcall(k, "write", path, (long)n, (long)r, r < 0 ? errno : 0);
    return r;
}

ssize_t pwrite(int fd, const void* buf, size_t n, off_t off)
{
    long k;
    const struct entry* e;
    const char* path;
    ssize_t r;
    init();
    path = tracked(fd);
    if(!path)
        return real_pwrite(fd, buf, n, off);
    e = next_call(&k);
    if(e && e->err)
    {
        logcall(k, "write", path, (long)n, 0, e->err);
        errno = e->err;
        return -1;
    }
    if(e && n >= 2)
        r = real_pwrite(fd, buf, short_len(e, n), off);
    else
        r = real_pwrite(fd, buf, n, off);
    logcall(k, "write", path, (long)n, (long)r, r < 0 ? errno : 0);
    return r;
}

ssize_t writev(int fd, const struct iovec* iov, int cnt)
{
    long k;
    const struct entry* e;
    const char* path;
    ssize_t r;
    size_t n = 0;
    int i;
    init();
    path = tracked(fd);
    if(!path)
        return real_writev(fd, iov, cnt);
    for(i = 0; i < cnt; i++)
        n += iov[i].iov_len;
    e = next_call(&k);
    if(e && e->err)
    {
        logcall(k, "write", path, (long)n, 0, e->err);
        errno = e->err;
        return -1;
    }
    if(e && n >= 2 && cnt <= 16)
    {
        struct iovec cut[16];
        size_t left = short_len(e, n);
        int c = 0;
        for(i = 0; i < cnt && left > 0; i++)
        {
            cut[c] = iov[i];
            if(cut[c].iov_len > left)
                cut[c].iov_len = left;
            left -= cut[c].iov_len;
            c++;
        }
        r = real_writev(fd, cut, c);
    }
    else
        r = real_writev(fd, iov, cnt);
    logcall(k, "write", path, (long)n, (long)r, r < 0 ? errno : 0);
    return r;
}

/* ------------------------------------------------------------------ close */
int close(int fd)
{
    long k;
    const struct entry* e;
    const char* path;
    char* copy;
    int r;
    init();
    path = tracked(fd);
    if(!path)
        return real_close(fd);
    copy = strdup(path);
    untrack(fd);
    e = next_call(&k);
    r = real_close(fd);
    if(e && e->err)
    {
        logcall(k, "close", copy, -1, 0, e->err);
        free(copy);
        errno = e->err;
        return -1;
    }
    logcall(k, "close", copy, -1, 0, r ? errno : 0);
    free(copy);
    return r;
}

int fclose(FILE* f)
{
    long k;
    const struct entry* e;
    const char* path;
    char* copy;
    int r;
    int fd;
    init();
    fd = f ? fileno(f) : -1;
    path = tracked(fd);
    if(!path)
        return real_fclose(f);
    copy = strdup(path);
    untrack(fd);
    e = next_call(&k);
    r = real_fclose(f);
    if(e && e->err)
    {
        logcall(k, "close", copy, -1, 0, e->err);
        free(copy);
        errno = e->err;
        return EOF;
    }
    logcall(k, "close", copy, -1, 0, r ? errno : 0);
    free(copy);
    return r;
}

/* ---------------------------------------------------------- fsync, rename */
int fsync(int fd)
{
    long k;
    const struct entry* e;
    const char* path;
    int r;
    init();
    path = tracked(fd);
    if(!path)
        return real_fsync(fd);
    e = next_call(&k);
    if(e && e->err)
    {
        logcall(k, "fsync", path, -1, 0, e->err);
        errno = e->err;
        return -1;
    }
    r = real_fsync(fd);
    logcall(k, "fsync", path, -1, 0, r ? errno : 0);
    return r;
}

int rename(const char* from, const char* to)
{
    long k;
    const struct entry* e;
    int r;
    init();
    if(!under(from) && !under(to))
        return real_rename(from, to);
    e = next_call(&k);
    if(e && e->err)
    {
        logcall(k, "rename", to, -1, 0, e->err);
        errno = e->err;
        return -1;
    }
    r = real_rename(from, to);
    logcall(k, "rename", to, -1, 0, r ? errno : 0);
    return r;
}


/* ---- wall-clock shift (determinism runs) ---- */
static long long time_shift(void)
{
    const char* e = getenv("IOFAULT_TIME_SHIFT");
    return e ? atoll(e) : 0;
}

time_t time(time_t* t)
{
    static time_t (*real_time)(time_t*) = NULL;
    if(!real_time)
        real_time = dlsym(RTLD_NEXT, "time");
    time_t v = real_time(NULL) + (time_t)time_shift();
    if(t)
        *t = v;
    return v;
}

int gettimeofday(struct timeval* tv, void* tz)
{
    static int (*real_gtod)(struct timeval*, void*) = NULL;
    if(!real_gtod)
        real_gtod = dlsym(RTLD_NEXT, "gettimeofday");
    int r = real_gtod(tv, tz);
    if(r == 0 && tv)
        tv->tv_sec += (time_t)time_shift();
    return r;
}

int clock_gettime(clockid_t id, struct timespec* ts)
{
    static int (*real_cgt)(clockid_t, struct timespec*) = NULL;
    if(!real_cgt)
        real_cgt = dlsym(RTLD_NEXT, "clock_gettime");
    int r = real_cgt(id, ts);
    if(r == 0 && ts && id == CLOCK_REALTIME)
        ts->tv_sec += (time_t)time_shift();
    return r;
}
