"""Schema ASTs for the message-level correspondence (T1/T3): random generator,
XML renderer, token stream for the Coq model (Layout.compile_message) and the
C++ driver generator.  Python is plumbing only: every offset, size and block
length on the model side is computed by extracted Coq functions."""
from common import SplitMix64

PRIMS = ["char", "int8", "uint8", "int16", "uint16", "int32", "uint32", "int64", "uint64", "float", "double"]
PSIZE = {"char": 1, "int8": 1, "uint8": 1, "int16": 2, "uint16": 2, "int32": 4, "uint32": 4,
         "int64": 8, "uint64": 8, "float": 4, "double": 8}
UNSIGNED = ["uint8", "uint16", "uint32", "uint64"]
CPP_T = {"char": "char", "int8": "std::int8_t", "uint8": "std::uint8_t", "int16": "std::int16_t",
         "uint16": "std::uint16_t", "int32": "std::int32_t", "uint32": "std::uint32_t",
         "int64": "std::int64_t", "uint64": "std::uint64_t", "float": "float", "double": "double"}


class TypeDef:
    """named encoding in <types>.  kind: 'type' | 'enum' | 'set' | 'composite'"""

    def __init__(self, name, kind, prim=None, length=1, presence="required", members=None, values=None,
                 const_value=None, offset=None, ref=None, minv=None, maxv=None, nullv=None):
        self.name, self.kind, self.prim, self.length = name, kind, prim, length
        self.presence, self.members, self.values = presence, members or [], values or []
        self.const_value, self.offset, self.ref = const_value, offset, ref
        self.minv, self.maxv, self.nullv = minv, maxv, nullv

    def is_const(self):
        return self.kind == "type" and self.presence == "constant"


class Field:
    def __init__(self, name, fid, type_name, offset=None, presence=None, value_ref=None):
        self.name, self.id, self.type_name, self.offset = name, fid, type_name, offset
        self.presence, self.value_ref = presence, value_ref


class Group:
    def __init__(self, name, gid, dim, block_length=None):
        self.name, self.id, self.dim, self.block_length = name, gid, dim, block_length
        self.fields, self.groups, self.data = [], [], []


class Data:
    def __init__(self, name, did, type_name):
        self.name, self.id, self.type_name = name, did, type_name


class Message:
    def __init__(self, name, mid, block_length=None):
        self.name, self.id, self.block_length = name, mid, block_length
        self.fields, self.groups, self.data = [], [], []


class Schema:
    def __init__(self, package, big_endian=False, sid=1, version=0):
        self.package, self.big_endian, self.id, self.version = package, big_endian, sid, version
        self.types = {}          # name -> TypeDef (insertion ordered)
        self.messages = []
        self.header = "messageHeader"

    def add(self, t):
        self.types[t.name] = t
        return t

    # ---- resolution -------------------------------------------------
    def resolve(self, type_name):
        """-> ('S', prim) | ('A', prim, n) | ('C', [member triples]) for the model,
        following refs; primitive names are scalars"""
        if type_name in PSIZE:
            return ("S", type_name)
        t = self.types[type_name]
        return self.resolve_def(t)

    def resolve_def(self, t):
        if t.kind == "type":
            return ("S", t.prim) if t.length == 1 else ("A", t.prim, t.length)
        if t.kind in ("enum", "set"):
            p = t.prim if t.prim in PSIZE else self.types[t.prim].prim
            return ("S", p)
        if t.kind == "composite":
            return ("C", [self.member_triple(m) for m in t.members])
        if t.kind == "ref":
            return self.resolve(t.ref)
        raise ValueError(t.kind)

    def member_triple(self, m):
        """(explicit offset, is_const, resolved type)"""
        if m.kind == "ref":
            tgt = self.types.get(m.ref)
            const = bool(tgt is not None and tgt.is_const())
            return (m.offset, const, self.resolve(m.ref))
        return (m.offset, m.is_const(), self.resolve_def(m))

    def field_is_const(self, f):
        if f.presence == "constant":
            return True
        if f.type_name in PSIZE:
            return False
        t = self.types[f.type_name]
        return t.is_const()


# ----------------------------------------------------------------------
# XML
# ----------------------------------------------------------------------

def _attrs(**kw):
    return "".join(' %s="%s"' % (k, v) for k, v in kw.items() if v is not None)


def typedef_xml(s, t, ind="    "):
    if t.kind == "type":
        a = _attrs(name=t.name, primitiveType=t.prim,
                   length=(t.length if t.length != 1 else None),
                   presence=(t.presence if t.presence != "required" else None),
                   offset=t.offset, minValue=t.minv, maxValue=t.maxv, nullValue=t.nullv)
        if t.const_value is not None:
            return '%s<type%s>%s</type>\n' % (ind, a, t.const_value)
        return '%s<type%s/>\n' % (ind, a)
    if t.kind == "enum":
        x = '%s<enum%s>\n' % (ind, _attrs(name=t.name, encodingType=t.prim, offset=t.offset))
        for n, v in t.values:
            x += '%s  <validValue name="%s">%s</validValue>\n' % (ind, n, v)
        return x + '%s</enum>\n' % ind
    if t.kind == "set":
        x = '%s<set%s>\n' % (ind, _attrs(name=t.name, encodingType=t.prim, offset=t.offset))
        for n, v in t.values:
            x += '%s  <choice name="%s">%s</choice>\n' % (ind, n, v)
        return x + '%s</set>\n' % ind
    if t.kind == "composite":
        x = '%s<composite%s>\n' % (ind, _attrs(name=t.name, offset=t.offset))
        for m in t.members:
            x += typedef_xml(s, m, ind + "  ")
        return x + '%s</composite>\n' % ind
    if t.kind == "ref":
        return '%s<ref%s/>\n' % (ind, _attrs(name=t.name, type=t.ref, offset=t.offset))
    raise ValueError(t.kind)


def level_xml(s, lv, ind):
    x = ""
    for f in lv.fields:
        x += '%s<field%s/>\n' % (ind, _attrs(name=f.name, id=f.id, type=f.type_name, offset=f.offset,
                                             presence=f.presence, valueRef=f.value_ref))
    for g in lv.groups:
        x += '%s<group%s>\n' % (ind, _attrs(name=g.name, id=g.id, dimensionType=g.dim, blockLength=g.block_length))
        x += level_xml(s, g, ind + "  ")
        x += '%s</group>\n' % ind
    for d in lv.data:
        x += '%s<data%s/>\n' % (ind, _attrs(name=d.name, id=d.id, type=d.type_name))
    return x


def schema_to_xml(s):
    x = ('<?xml version="1.0" encoding="UTF-8"?>\n'
         '<sbe:messageSchema xmlns:sbe="http://fixprotocol.io/2016/sbe" package="%s" id="%d" version="%d" '
         'byteOrder="%s"%s>\n<types>\n'
         % (s.package, s.id, s.version, "bigEndian" if s.big_endian else "littleEndian",
            (' headerType="%s"' % s.header) if s.header != "messageHeader" else ""))
    for t in s.types.values():
        x += typedef_xml(s, t)
    x += "</types>\n"
    for m in s.messages:
        x += '<sbe:message%s>\n' % _attrs(name=m.name, id=m.id, blockLength=m.block_length)
        x += level_xml(s, m, "  ")
        x += '</sbe:message>\n'
    return x + "</sbe:messageSchema>\n"


# ----------------------------------------------------------------------
# token stream for the Coq model
# ----------------------------------------------------------------------

def _opt(o):
    return "-" if o is None else str(o)


def type_tokens(r):
    if r[0] == "S":
        return ["S", r[1]]
    if r[0] == "A":
        return ["A", r[1], str(r[2])]
    toks = ["C", str(len(r[1]))]
    for off, const, t in r[1]:
        toks += ["m", _opt(off), "1" if const else "0"] + type_tokens(t)
    return toks


def comp_member_index(s, comp_name, member):
    c = s.types[comp_name]
    for i, m in enumerate(c.members):
        if m.name == member:
            return i
    raise KeyError(member)


def fills_tokens(s, comp_name, wanted):
    """header filler assignments in the order the generator emits them; members
    the composite does not declare are skipped"""
    names = [m.name for m in s.types[comp_name].members]
    fl = [(names.index(n), v) for n, v in wanted if n in names]
    toks = ["F", str(len(fl))]
    for i, v in fl:
        toks += [str(i), v]
    return toks


def level_tokens(s, lv):
    toks = ["L", str(len(lv.fields))]
    for f in lv.fields:
        toks += ["f", _opt(f.offset), "1" if s.field_is_const(f) else "0"] + type_tokens(s.resolve(f.type_name))
    toks.append(str(len(lv.groups)))
    for g in lv.groups:
        toks.append("G")
        toks += type_tokens(s.resolve(g.dim))
        toks += [str(comp_member_index(s, g.dim, "blockLength")), str(comp_member_index(s, g.dim, "numInGroup"))]
        toks += fills_tokens(s, g.dim, [("blockLength", "bl"), ("numInGroup", "n"),
                                        ("numGroups", "c%d" % len(g.groups)),
                                        ("numVarDataFields", "c%d" % len(g.data))])
        toks.append(_opt(g.block_length))
        toks += level_tokens(s, g)
    toks.append(str(len(lv.data)))
    for d in lv.data:
        c = s.types[d.type_name]
        ln = [m for m in c.members if m.name == "length"][0]
        toks += ["D", s.resolve_def(ln)[1] if ln.kind != "ref" else s.resolve(ln.ref)[1]]
    return toks


def message_tokens(s, m):
    toks = ["M"] + type_tokens(s.resolve(s.header))
    toks += [str(comp_member_index(s, s.header, "blockLength"))]
    toks += fills_tokens(s, s.header, [("schemaId", "c%d" % s.id), ("templateId", "c%d" % m.id),
                                       ("version", "c%d" % s.version), ("blockLength", "bl"),
                                       ("numGroups", "c%d" % len(m.groups)),
                                       ("numVarDataFields", "c%d" % len(m.data))])
    toks.append(_opt(m.block_length))
    toks += level_tokens(s, m)
    return toks


def model_msg_line(s, m):
    return "msg %d %s" % (1 if s.big_endian else 0, " ".join(message_tokens(s, m)))


# ----------------------------------------------------------------------
# random schemas
# ----------------------------------------------------------------------

class Gen:
    def __init__(self, rng, package="rs", feats=None):
        self.r = rng
        self.s = Schema(package, big_endian=rng.chance(1, 2), sid=1 + rng.below(200), version=rng.below(5))
        self.n = 0
        self.feats = feats or {}
        self.stats = {"fields": 0, "groups": 0, "data": 0, "custom_offsets": 0, "custom_bl": 0,
                      "composites": 0, "constants": 0, "arrays": 0, "depth": 0}

    def fresh(self, p):
        self.n += 1
        return "%s%d" % (p, self.n)

    def slack(self):
        r = self.r
        return r.choice([0, 0, 0, 1, 2, 3, 7, 16]) if r.chance(1, 3) else None

    def mk_header(self, name, required, optional=()):
        r = self.r
        ms = []
        names = list(required)
        for o in optional:
            if r.chance(1, 3):
                names.append(o)
        if r.chance(1, 4):
            names.append(self.fresh("extra"))
        if r.chance(1, 2):
            r.shuffle(names)
        for n in names:
            prim = r.choice(UNSIGNED) if not self.feats.get("small_headers") else r.choice(["uint8", "uint16", "uint32"])
            if n.startswith("extra"):
                prim = r.choice(PRIMS)
            if r.chance(1, 6) and not n.startswith("extra"):
                # ref-typed member
                tn = self.fresh("HT")
                self.s.add(TypeDef(tn, "type", prim=prim))
                ms.append(TypeDef(n, "ref", ref=tn))
            else:
                ms.append(TypeDef(n, "type", prim=prim))
        # custom offsets with slack, monotone
        if r.chance(1, 4):
            cur = 0
            for m in ms:
                sl = r.choice([0, 0, 1, 2, 5])
                if sl:
                    m.offset = cur + sl
                    cur += sl
                    self.stats["custom_offsets"] += 1
                p = m.prim if m.kind == "type" else self.s.types[m.ref].prim
                cur += PSIZE[p]
        return self.s.add(TypeDef(name, "composite", members=ms))

    def mk_types(self):
        r, s = self.r, self.s
        self.mk_header("messageHeader", ["blockLength", "templateId", "schemaId", "version"],
                       ["numGroups", "numVarDataFields"])
        self.dims = []
        for i in range(1 + r.below(3)):
            self.dims.append(self.mk_header(self.fresh("dim"), ["blockLength", "numInGroup"],
                                            ["numGroups", "numVarDataFields"]).name)
        self.datas = []
        for i in range(1 + r.below(2)):
            n = self.fresh("vd")
            s.add(TypeDef(n, "composite", members=[
                TypeDef("length", "type", prim=r.choice(UNSIGNED if not self.feats.get("small_headers") else ["uint8", "uint16", "uint32"])),
                TypeDef("varData", "type", prim=r.choice(["char", "uint8", "int8"]), length=0)]))
            self.datas.append(n)
        self.pool = []
        for p in PRIMS:
            if r.chance(1, 2):
                n = self.fresh("T")
                s.add(TypeDef(n, "type", prim=p, presence=r.choice(["required", "optional"])))
                self.pool.append(n)
        for p in ["char", "uint8", "int8"]:
            if r.chance(2, 3):
                n = self.fresh("A")
                s.add(TypeDef(n, "type", prim=p, length=r.choice([0, 1, 2, 3, 5, 16])))
                self.pool.append(n)
                self.stats["arrays"] += 1
        for p in ["char", "uint8", "uint16", "uint32", "uint64", "int8", "int16", "int32", "int64"]:
            if r.chance(1, 3):
                n = self.fresh("E")
                vals = [("A", "A"), ("B", "B")] if p == "char" else [("One", "1"), ("Two", "2")]
                s.add(TypeDef(n, "enum", prim=p, values=vals))
                self.pool.append(n)
        for p in UNSIGNED:
            if r.chance(1, 3):
                n = self.fresh("S")
                # every other set declares its choices in neither name nor bit order (visiting follows the schema)
                top = str(PSIZE[p] * 8 - 1)
                s.add(TypeDef(n, "set", prim=p, values=[("c0", "0"), ("cTop", top)] if len(self.pool) % 2 == 0 else
                              [("zLast", top), ("c0", "0"), ("Mid", "3")]))
                self.pool.append(n)
        # a constant type
        if r.chance(1, 2):
            n = self.fresh("K")
            s.add(TypeDef(n, "type", prim="uint16", presence="constant", const_value="7"))
            self.consts = [n]
        else:
            self.consts = []
        # composites (members inline, refs, constants, custom offsets, one nesting level)
        for i in range(r.below(3)):
            self.mk_composite(depth=0)

    def mk_composite(self, depth):
        r, s = self.r, self.s
        ms = []
        cur = 0
        for j in range(1 + r.below(4)):
            k = r.below(6)
            mname = self.fresh("m")
            if k == 0 and self.pool:
                tgt = r.choice(self.pool)
                m = TypeDef(mname, "ref", ref=tgt)
                sz = self.size_of(s.resolve(tgt))
            elif k == 1 and self.consts:
                m = TypeDef(mname, "ref", ref=self.consts[0])
                sz = 0
            elif k == 2:
                m = TypeDef(mname, "type", prim="uint8", presence="constant", const_value="3")
                sz = 0
            elif k == 3 and depth == 0:
                inner = self.mk_composite_members(depth + 1)
                m = TypeDef(mname, "composite", members=inner)
                sz = self.size_of(("C", [s.member_triple(x) for x in inner]))
            elif k == 4:
                p = r.choice(["char", "uint8"])
                ln = r.choice([0, 1, 3, 4])
                m = TypeDef(mname, "type", prim=p, length=ln)
                sz = ln
            else:
                p = r.choice(PRIMS)
                m = TypeDef(mname, "type", prim=p)
                sz = PSIZE[p]
            if sz or k not in (1, 2):
                sl = self.slack()
                if sl is not None and not (m.kind == "ref" and sz == 0) and not m.is_const():
                    m.offset = cur + sl
                    cur += sl
                    self.stats["custom_offsets"] += 1
            cur += sz
            ms.append(m)
        n = self.fresh("C")
        s.add(TypeDef(n, "composite", members=ms))
        self.pool.append(n)
        self.stats["composites"] += 1
        return n

    def mk_composite_members(self, depth):
        r = self.r
        ms = []
        for j in range(1 + r.below(3)):
            p = r.choice(PRIMS)
            ms.append(TypeDef(self.fresh("m"), "type", prim=p))
        return ms

    def size_of(self, res):
        if res[0] == "S":
            return PSIZE[res[1]]
        if res[0] == "A":
            return PSIZE[res[1]] * res[2]
        cur = 0
        for off, const, t in res[1]:
            if const:
                continue
            if off is not None:
                cur = off
            cur += self.size_of(t)
        return cur

    def mk_level(self, lv, depth, max_depth):
        r, s = self.r, self.s
        cur = 0
        nf = r.choice([0, 1, 2, 3, 4, 6])
        for i in range(nf):
            k = r.below(10)
            if k == 0 and self.consts:
                lv.fields.append(Field(self.fresh("f"), 1 + i, self.consts[0]))
                self.stats["constants"] += 1
                continue
            if k <= 5 or not self.pool:
                tn = r.choice(PRIMS)
                pres = r.choice([None, "optional"])
            else:
                tn = r.choice(self.pool)
                pres = None
            f = Field(self.fresh("f"), 1 + i, tn, presence=pres)
            sl = self.slack()
            if sl is not None:
                f.offset = cur + sl
                cur += sl
                self.stats["custom_offsets"] += 1
            cur += self.size_of(s.resolve(tn))
            lv.fields.append(f)
            self.stats["fields"] += 1
        if r.chance(1, 3):
            lv.block_length = cur + r.choice([0, 1, 5, 13])
            self.stats["custom_bl"] += 1
            cur = lv.block_length
        self.max_bl = max(getattr(self, "max_bl", 0), cur)
        if depth < max_depth:
            for i in range(r.choice([0, 0, 1, 1, 2, 3, 4]) if depth == 0 else r.choice([0, 0, 1, 2, 3])):
                g = Group(self.fresh("g"), 100 + i, r.choice(self.dims))
                self.mk_level(g, depth + 1, max_depth)
                lv.groups.append(g)
                self.stats["groups"] += 1
                self.stats["depth"] = max(self.stats["depth"], depth + 1)
        for i in range(r.choice([0, 0, 1, 1, 2, 3, 4])):
            lv.data.append(Data(self.fresh("d"), 200 + i, r.choice(self.datas)))
            self.stats["data"] += 1

    def schema(self, nmsg=3, max_depth=3):
        self.mk_types()
        for i in range(nmsg):
            m = Message(self.fresh("Msg"), 1 + i)
            self.mk_level(m, 0, max_depth)
            self.s.messages.append(m)
        if self.max_bl > 255:
            # keep the schema compilable: a blockLength member must be able to hold the value
            for t in self.s.types.values():
                if t.kind == "composite":
                    for m in t.members:
                        if m.name == "blockLength":
                            tgt = m if m.kind == "type" else self.s.types[m.ref]
                            if tgt.prim == "uint8":
                                tgt.prim = "uint16"
        return self.s
