#!/usr/bin/env python3
"""Entry point: check.py <ID> [--tier quick|thorough] | --replay <path>"""
import argparse
import importlib
import json
import os
import sys

sys.path.insert(0, os.path.dirname(os.path.abspath(__file__)))
sys.path.insert(0, os.path.join(os.path.dirname(os.path.abspath(__file__)), "props"))
import common


def main():
    ap = argparse.ArgumentParser()
    ap.add_argument("pid", nargs="?")
    ap.add_argument("--tier", default=os.environ.get("VERIF_TIER", "quick"))
    ap.add_argument("--replay")
    a = ap.parse_args()
    replay = None
    if a.replay:
        replay = json.load(open(a.replay))
        a.pid = replay["property"]
        a.tier = replay.get("tier", a.tier)
    if not a.pid:
        ap.error("property id required")
    seed = int(os.environ.get("VERIF_SEED", replay["seed"] if replay else 1))
    mod = importlib.import_module(a.pid.lower())
    res = common.Result(a.pid, a.tier if a.tier in ("quick", "thorough") else "quick", seed)
    try:
        rc = mod.run(res, replay)
    except common.BuildError as e:
        res.violation("build", "rebuild from /repo failed: " + str(e)[-1500:],
                      {"no_failing_input": True, "correspondence": "build of /repo sources", "error": str(e)[-4000:]})
        rc = res.finish()
    sys.exit(rc)


if __name__ == "__main__":
    main()
