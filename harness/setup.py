#!/usr/bin/env python3
import os, sys
sys.path.insert(0, os.path.dirname(os.path.abspath(__file__)))
import common
bad = common.forbidden_gate()
if bad:
    print("forbidden constructs in the Coq development:\n" + "\n".join(bad)); sys.exit(1)
print("model driver:", common.ensure_model(force=True))
