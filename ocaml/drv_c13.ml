open Model
open Drv_common
open DynM

(* ---------------- C13 ---------------- *)
(* c13 <cur|legacy> T be off cap chk bufhex op...
   op tokens (comma separated, a trailing '!' is ignored):
     pb,X pop e1,P er,F,L i1,P,X in,P,C,X if,P,HEX ii,P,HEX il,P,HEX
     rs,C rv,C,X rd,C an,C,X ai,HEX al,HEX as,HEX ar,HEX clr
     pbs,K i1s,P,K ins,P,C,K ans,C,K rvs,C,K  (value = reference to element K of the view itself)
   answer: "wf=<0|1>" followed by one token per executed step
     ok:<ret|->:<bufhex>:v<0|1>:<vechex>:<vret|->    (vec_step on abs of the state before)
     assert:v<0|1>   |   fault:v<0|1>                 (the run stops here) *)
let op_of_token (xs : z list) (tok : string) : op =
  let tok = if String.length tok > 0 && tok.[String.length tok - 1] = '!'
            then String.sub tok 0 (String.length tok - 1) else tok in
  let z = z_of_string and h = bytes_of_hex in
  (* "...s" tokens: the value argument is element idx of the view before the call *)
  let self k = (match List.nth_opt xs (int_of_string k) with Some x -> x | None -> failwith "c13: self index") in
  match String.split_on_char ',' tok with
  | ["pbs"; k] -> PushBack (self k)
  | ["i1s"; p; k] -> Insert1 (z p, self k)
  | ["ins"; p; c; k] -> InsertN (z p, z c, self k)
  | ["ans"; c; k] -> AssignN (z c, self k)
  | ["rvs"; c; k] -> ResizeV (z c, self k)
  | ["pb"; x] -> PushBack (z x)
  | ["pop"] -> PopBack
  | ["e1"; p] -> Erase1 (z p)
  | ["er"; f; l] -> EraseR (z f, z l)
  | ["i1"; p; x] -> Insert1 (z p, z x)
  | ["in"; p; c; x] -> InsertN (z p, z c, z x)
  | ["if"; p; ys] -> InsertFwd (z p, h ys)
  | ["ii"; p; ys] -> InsertInp (z p, h ys)
  | ["il"; p; ys] -> InsertIl (z p, h ys)
  | ["rs"; c] -> Resize (z c)
  | ["rv"; c; x] -> ResizeV (z c, z x)
  | ["rd"; c] -> ResizeDI (z c)
  | ["an"; c; x] -> AssignN (z c, z x)
  | ["ai"; ys] -> AssignIt (h ys)
  | ["al"; ys] -> AssignIl (h ys)
  | ["as"; ys] -> AssignStr (h ys)
  | ["ar"; ys] -> AssignRange (h ys)
  | ["ars"; ys] -> AssignRange (h ys)      (* the same call with a single-pass input range *)
  | ["clr"] -> Clear
  | _ -> failwith ("c13: bad op " ^ tok)

let optz = function None -> "-" | Some x -> string_of_z x

let cmd_c13 args =
  match args with
  | impl :: t :: be :: off :: cap :: chk :: buf :: ops ->
    let v = { vT = ity_of_string t; vbe = bool_of_string01 be; voff = z_of_string off;
              vcap = z_of_string cap; vchk = bool_of_string01 chk } in
    let ex = (match impl with "cur" -> exec v | "legacy" -> exec_gen true v | _ -> failwith "impl") in
    let out = Buffer.create 256 in
    let b = ref (bytes_of_hex buf) in
    Buffer.add_string out ("wf=" ^ s01 (wf v !b));
    (try
      List.iter (fun tok ->
        let xs = abs v !b in
        let o = op_of_token xs tok in
        let vl = s01 (valid v (size_of v !b) o) in
        match ex o !b with
        | Ok (r, b') ->
          let (xs', vr) = vec_step [] xs o in
          Buffer.add_string out (Printf.sprintf " ok:%s:%s:v%s:%s:%s" (optz r) (hex_of_bytes b') vl
                                   (hex_of_bytes xs') (optz vr));
          b := b'
        | AssertFail -> Buffer.add_string out (" assert:v" ^ vl); raise Exit
        | Fault -> Buffer.add_string out (" fault:v" ^ vl); raise Exit) ops
    with Exit -> ());
    Buffer.contents out
  | _ -> failwith "c13: arity"

let () = register "c13" cmd_c13
