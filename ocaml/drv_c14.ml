open Model
open Drv_common

(* ---------------- C14: static_array_ref ---------------- *)
(* c14 <impl: cur|legacy|spec> <op>[.<variant>] <checks 0|1> <mem hex> <off> <vend> <N> <args...>
     asp  <mode n|s|a> <src hex | null>    assign_string(const char*, mode); src = the char object
     asr  <mode> <range hex>               assign_string(range, mode)
     ar   <range hex>                      assign_range(range)
     ai   <range hex>                      assign(first, last)
     il   <list hex>                       assign(initializer_list)
     ac   <count> <value>                  assign(count, value)
     fill <value>                          fill(value)
     len  <ce 0|1>                         strlen() and strlen_r()
   answers   res=ok mem=<hex> ret=<offset|->   |  res=assert mem=<hex>  |  res=fault
             res=ok strlen=<n> strlen_r=<n>    (len)
   "spec" evaluates the specification functions on the array cut out of the
   memory and answers "n/a" when a documented precondition does not hold.
   The variant suffix only selects the C++ overload and is ignored here. *)

let c14_mode = function
  | "n" -> SArr.EosNone | "s" -> SArr.EosSingle | "a" -> SArr.EosAll
  | s -> failwith ("bad eos mode: " ^ s)

let c14_show_pair = function
  | SArr.Ok (m, r) -> Printf.sprintf "res=ok mem=%s ret=%s" (hex_of_bytes m) (string_of_z r)
  | SArr.AssertFail m -> Printf.sprintf "res=assert mem=%s" (hex_of_bytes m)
  | SArr.Fault -> "res=fault"

let c14_show_mem = function
  | SArr.Ok m -> Printf.sprintf "res=ok mem=%s ret=-" (hex_of_bytes m)
  | SArr.AssertFail m -> Printf.sprintf "res=assert mem=%s" (hex_of_bytes m)
  | SArr.Fault -> "res=fault"

let c14_base op =
  match String.index_opt op '.' with Some i -> String.sub op 0 i | None -> op

(* characters of a char object before its first NUL; None when there is none *)
let rec c14_cstr = function
  | [] -> None
  | c :: t -> if c = Z0 then Some [] else (match c14_cstr t with Some s -> Some (c :: s) | None -> None)

let c14_spec op mem off vend n args =
  let len = List.length mem in
  if off < 0 || off + n > len || vend < off + n then "n/a" else begin
    let ((pre, arr), post) = SArr.split3 mem (nat_of_int off) (nat_of_int n) in
    let fits l = List.length l <= n in
    let pair arr' k = Printf.sprintf "res=ok mem=%s ret=%d" (hex_of_bytes (pre @ arr' @ post)) (off + k) in
    match op, args with
    | "asp", [mode; src] ->
      if src = "null" then "n/a" else
      (match c14_cstr (bytes_of_hex src) with
       | Some s when fits s -> pair (SArr.spec_assign_string arr s (c14_mode mode)) (List.length s)
       | _ -> "n/a")
    | "asr", [mode; r] ->
      let r = bytes_of_hex r in
      if fits r then pair (SArr.spec_assign_string arr r (c14_mode mode)) (List.length r) else "n/a"
    | ("ar" | "ai" | "il"), [r] ->
      let r = bytes_of_hex r in
      if fits r then pair (SArr.spec_assign arr r) (List.length r) else "n/a"
    | "ac", [count; v] ->
      let c = int_of_string count in
      if c <= n then pair (SArr.spec_assign arr (List.init c (fun _ -> z_of_string v))) c else "n/a"
    | "fill", [v] ->
      Printf.sprintf "res=ok mem=%s ret=-" (hex_of_bytes (pre @ List.init n (fun _ -> z_of_string v) @ post))
    | "len", [_] ->
      Printf.sprintf "res=ok strlen=%d strlen_r=%d"
        (int_of_nat (SArr.spec_strlen arr)) (int_of_nat (SArr.spec_strlen_r arr))
    | _ -> failwith "c14 spec: op/arity"
  end

let cmd_c14 args =
  match args with
  | impl :: op :: checks :: mem :: off :: vend :: n :: rest ->
    let op = c14_base op in
    let checks = bool_of_string01 checks and mem = bytes_of_hex mem in
    if impl = "spec" then c14_spec op mem (int_of_string off) (int_of_string vend) (int_of_string n) rest
    else begin
      let legacy = (match impl with "cur" -> false | "legacy" -> true | _ -> failwith "impl") in
      let off = z_of_string off and vend = z_of_string vend and n = nat_of_int (int_of_string n) in
      match op, rest with
      | "asp", [mode; src] ->
        let str = if src = "null" then None else Some (bytes_of_hex src) in
        c14_show_pair (SArr.assign_string_ptr checks mem off vend n str (c14_mode mode))
      | "asr", [mode; r] ->
        c14_show_pair (SArr.assign_string_range checks mem off vend n (bytes_of_hex r) (c14_mode mode))
      | "ar", [r] -> c14_show_pair (SArr.assign_range checks mem off vend n (bytes_of_hex r))
      | "ai", [r] -> c14_show_pair (SArr.assign_iter checks mem off vend n (bytes_of_hex r))
      | "il", [r] -> c14_show_pair (SArr.assign_ilist checks mem off vend n (bytes_of_hex r))
      | "ac", [count; v] ->
        c14_show_pair (SArr.assign_count checks mem off vend n (nat_of_int (int_of_string count)) (z_of_string v))
      | "fill", [v] -> c14_show_mem (SArr.fill checks mem off vend n (z_of_string v))
      | "len", [ce] ->
        let ce = bool_of_string01 ce in
        let sl = if legacy then SArr.Legacy.strlen ce checks mem off vend n
                 else SArr.strlen ce checks mem off vend n in
        let sr = SArr.strlen_r checks mem off vend n in
        (match sl, sr with
         | SArr.Ok a, SArr.Ok b -> Printf.sprintf "res=ok strlen=%s strlen_r=%s" (string_of_z a) (string_of_z b)
         | SArr.Fault, _ | _, SArr.Fault -> "res=fault"
         | _ -> "res=assert")
      | _ -> failwith "c14: op/arity"
    end
  | _ -> failwith "c14: arity"

let () = register "c14" cmd_c14
