(* drv_cursor.ml — cursor commands *)
open Model
open Drv_common
open Drv_msg

let is_view_type = function TScalar _ -> false | _ -> true

(* the cursor accessor table is computed by the Coq function Compile.compile_clevel *)
let clevel_of (sl : slevel) (hdr : z) : clevel =
  match compile_clevel sl hdr with
  | Some cl -> cl
  | None -> failwith "compile_clevel"

let rel z = string_of_z (Z.sub z !cur_base)

let field_prims (sl : slevel) : stype list =
  let SLevel (sfs, _, _) = sl in
  List.map (fun f -> f.sf_type) (List.filter (fun f -> not f.sf_const) sfs)

(* events are printed positionally; scalar fields print their decoded value *)
exception Events_short
let show_events ?(partial = false) (evs : event list) : string =
  let sm = (match !cur_smsg with Some s -> s | None -> failwith "no message") in
  (* walk the schema in parallel to know the type of each field event *)
  let buf = Buffer.create 256 in
  let rest = ref evs in
  let next () = match !rest with
    | [] -> if partial then raise Events_short else failwith "events: short"
    | e :: r -> rest := r; e in
  let rec walk (sl : slevel) =
    let SLevel (_, sgs, sds) = sl in
    List.iteri (fun k t ->
      match next () with
      | EField (_, addr) ->
        (match t with
         | TScalar p ->
           let sz = z_of_int (int_of_nat (prim_size p)) in
           Buffer.add_string buf (Printf.sprintf "F%d=%s " k (string_of_z (interp p (dec !cur_be (slice !cur_buf addr sz)))))
         | _ -> Buffer.add_string buf (Printf.sprintf "F%d@%s " k (rel addr)))
      | _ -> failwith "events: expected field") (field_prims sl);
    let rec groups k = function
      | SGNil -> ()
      | SGCons (_, _, sub, more) ->
        (match next () with
         | EGroup (_, pos, n) ->
           Buffer.add_string buf (Printf.sprintf "G%d@%s#%s " k (rel pos) (string_of_z n));
           for _ = 1 to int_of_z n do
             (match next () with
              | EEntry pos -> Buffer.add_string buf (Printf.sprintf "E@%s " (rel pos))
              | _ -> failwith "events: expected entry");
             walk sub
           done
         | _ -> failwith "events: expected group");
        groups (k + 1) more in
    groups 0 sgs;
    List.iteri (fun k _ ->
      match next () with
      | EData (_, pos, n) -> Buffer.add_string buf (Printf.sprintf "D%d@%s#%s " k (rel pos) (string_of_z n))
      | _ -> failwith "events: expected data") sds in
  (try walk sm.sm_level with Events_short -> ());
  String.trim (Buffer.contents buf)

let wrapper_of = function
  | 'p' -> WPlain | 'i' -> WInit | 'n' -> WInitDontMove | 'm' -> WDontMove | 's' -> WSkip
  | c -> failwith (Printf.sprintf "wrapper %c" c)

let () =
  register "ctrav" (fun args ->
      let m = the_msg () in
      let cl = clevel_of (the_slevel ()) m.m_hdr_size in
      match args with
      | k :: _ ->
        (* the visitor's callback number k+1 returns true: CursorStop.trav_message_stop *)
        (match trav_message_stop !cur_be !cur_buf m cl !cur_base (nat_of_int (int_of_string k)) with
         | FDone (evs, c) -> String.trim (Printf.sprintf "%s c=%s" (show_events evs) (rel c))
         | FStopped evs -> String.trim (show_events ~partial:true evs ^ " STOP")
         | FAssert -> "ASSERT"
         | FOob -> "OOB")
      | [] ->
      match trav_message !cur_be !cur_buf m cl !cur_base with
      | COk (evs, c) -> String.trim (Printf.sprintf "%s c=%s" (show_events evs) (rel c))
      | CAssert -> "ASSERT"
      | COob -> "OOB");
  (* cur <path> <cstart|init> op... ; op = f<k><w>[:prim] | g<k><w> | d<k><w>
     the call sequence is executed by the Coq function CursorScript.run_cur (proved against the
     random-access addresses in CursorScriptProofs.v); only parsing and printing happen here *)
  register "cur" (function p :: cstart :: ops ->
      let m = the_msg () in
      let path = parse_path p in
      let sl = slevel_at (the_slevel ()) path in
      let CLevel (accs, _) = clevel_of sl (path_hdr m path) in
      let parsed = List.map (fun op ->
          let kind = op.[0] in
          let body, prim = (match String.index_opt op ':' with
            | Some i -> String.sub op 0 i, Some (String.sub op (i + 1) (String.length op - i - 1))
            | None -> op, None) in
          let w = wrapper_of body.[String.length body - 1] in
          let k = nat_of_int (int_of_string (String.sub body 1 (String.length body - 2))) in
          let lop = (match kind with
            | 'f' -> LF (k, w) | 'g' -> LG (k, w) | 'd' -> LD (k, w)
            | _ -> failwith "op kind") in
          (kind, body, prim, w, int_of_nat k, lop)) ops in
      let start = if cstart = "init" then None else Some (z_of_string cstart) in
      (match run_cur !cur_be !cur_buf m !cur_base path accs start (List.map (fun (_, _, _, _, _, l) -> l) parsed),
             msg_resolve !cur_be !cur_buf m !cur_base path with
       | None, _ | _, None -> "OOB"
       | Some results, Some ((_, _), l) ->
         let Level (_, gs, ds) = l in
         let out = Buffer.create 128 in
         let rec zip ps rs = (match ps, rs with
           | (kind, body, prim, w, k, _) :: ps', (_, r) :: rs' ->
             (match r with
              | COk (a, c') ->
                let res = (match kind, prim with
                  | 'f', Some pr when w <> WSkip && pr <> "v" ->
                    let prm = prim_of_string pr in
                    let sz = z_of_int (int_of_nat (prim_size prm)) in
                    if in_buf !cur_buf a sz then "=" ^ string_of_z (interp prm (dec !cur_be (slice !cur_buf a sz))) else "=OOB"
                  | 'g', _ when w <> WSkip ->
                    (match (let rec nthg gs k = (match gs, k with
                              | GCons (d, _, _, _), 0 -> d | GCons (_, _, _, r), k -> nthg r (k - 1) | GNil, _ -> failwith "g") in
                            group_at !cur_be !cur_buf (nthg gs k) a) with
                     | Some g -> Printf.sprintf "@%s#%s" (rel a) (string_of_z g.gv_n)
                     | None -> "@" ^ rel a ^ "#OOB")
                  | 'd', _ when w <> WSkip ->
                    (match rd !cur_be !cur_buf a (List.nth ds k) with
                     | Some n -> Printf.sprintf "@%s#%s" (rel a) (string_of_z n)
                     | None -> "@" ^ rel a ^ "#OOB")
                  | _, _ when w = WSkip -> ""
                  | _ -> "@" ^ rel a) in
                Buffer.add_string out (Printf.sprintf "%s%s,c%s " body res (rel c'));
                zip ps' rs'
              | CAssert -> Buffer.add_string out (body ^ ":ASSERT")
              | COob -> Buffer.add_string out (body ^ ":OOB"))
           | _, _ -> ()) in
         zip parsed results;
         String.trim (Buffer.contents out))
    | _ -> failwith "cur")

(* ---- cursor_range / cursor_subrange: CursorRange.run_crange_at (proved in CursorRangeProofs.v) ---- *)
let () =
  (* crange <path> <k> <r|s> [pos [count]] -> n=<count> E@<addr>... c=<final cursor> *)
  register "crange" (function p :: k :: mode :: rest ->
      let m = the_msg () in
      let cl = clevel_of (the_slevel ()) m.m_hdr_size in
      let md = (match mode, rest with
        | "r", _ -> CRAll
        | _, [pos] -> CRFrom (z_of_string pos)
        | _, [pos; cnt] -> CRFromCount (z_of_string pos, z_of_string cnt)
        | _ -> failwith "crange: mode") in
      (match run_crange_at !cur_be !cur_buf m cl !cur_base (parse_path p) (nat_of_int (int_of_string k)) md with
       | COk (addrs, c) ->
         String.trim (Printf.sprintf "n=%d %sc=%s" (List.length addrs)
                        (String.concat "" (List.map (fun a -> "E@" ^ rel a ^ " ") addrs)) (rel c))
       | CAssert -> "ASSERT"
       | COob -> "OOB")
    | _ -> failwith "crange")

(* ---- C06: size_bytes_checked on the current buffer (message view at offset 0, n = len) ---- *)
let () =
  register "sbc" (fun args ->
      let m = the_msg () in
      let cl = clevel_of (the_slevel ()) m.m_hdr_size in
      let fuel = (match args with [f] -> nat_of_int (int_of_string f) | _ -> nat_of_int (List.length !cur_buf + 2)) in
      match size_bytes_checked !cur_be !cur_buf fuel m cl with
      | CkValid (sz, st) -> Printf.sprintf "valid %s steps=%s" (string_of_z sz) (string_of_z st)
      | CkInvalid st -> Printf.sprintf "invalid steps=%s" (string_of_z st)
      | CkOob (k, off, st) -> Printf.sprintf "oob %s kind=%s steps=%s" (string_of_z off) (string_of_z k) (string_of_z st)
      | CkFuel -> "fuel");
  register "fit" (fun _ ->
      match described_fit !cur_be !cur_buf (the_msg ()) with
      | Some s -> "fits " ^ string_of_z s
      | None -> "nofit")
