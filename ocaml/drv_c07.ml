(* drv_c07.ml — line protocol front end for Literals.v / Names.v (C07).
   Schema texts travel as lower-case hex ("-" = empty string) because they may
   contain any byte; identifiers travel as they are. *)
open Model
open Drv_common
open Literals
open Names

(* ---- OCaml string <-> extracted [ascii list] ---- *)
let ascii_of_char (c : char) : ascii =
  let n = Char.code c in
  let b i = (n lsr i) land 1 = 1 in
  Ascii (b 0, b 1, b 2, b 3, b 4, b 5, b 6, b 7)

let char_of_ascii (a : ascii) : char =
  match a with
  | Ascii (b0, b1, b2, b3, b4, b5, b6, b7) ->
    let v b i = if b then 1 lsl i else 0 in
    Char.chr (v b0 0 + v b1 1 + v b2 2 + v b3 3 + v b4 4 + v b5 5 + v b6 6 + v b7 7)

let cs_of_string (s : String.t) : ascii list =
  List.init (String.length s) (fun i -> ascii_of_char s.[i])

let string_of_cs (l : ascii list) : String.t =
  let b = Buffer.create 16 in
  List.iter (fun a -> Buffer.add_char b (char_of_ascii a)) l;
  Buffer.contents b

let unhex (s : String.t) : String.t =
  if s = "-" then "" else begin
    let v c = if c <= '9' then Char.code c - 48 else (Char.code c lor 32) - 87 in
    String.init (String.length s / 2) (fun i -> Char.chr (v s.[2*i] * 16 + v s.[2*i+1]))
  end

let hex (s : String.t) : String.t =
  if s = "" then "-" else
  String.concat "" (List.init (String.length s) (fun i -> Printf.sprintf "%02x" (Char.code s.[i])))

let cs_of_hex h = cs_of_string (unhex h)
let hex_of_cs l = hex (string_of_cs l)

let prim_of_string = function
  | "char" -> PChar | "int8" -> PI8 | "uint8" -> PU8 | "int16" -> PI16 | "uint16" -> PU16
  | "int32" -> PI32 | "uint32" -> PU32 | "int64" -> PI64 | "uint64" -> PU64
  | "float" -> PF32 | "double" -> PF64
  | s -> failwith ("bad prim: " ^ s)

let string_of_ity = function
  | U8 -> "u8" | U16 -> "u16" | U32 -> "u32" | U64 -> "u64"
  | I8 -> "i8" | I16 -> "i16" | I32 -> "i32" | I64 -> "i64"

(* c07lit <cur|legacy> <prim> <hex value>
   -> accepted=<0|1> value=<z|-> text=<hex|ASSERT> eval=<z:type|ILL> denotes=<0|1> *)
let cmd_lit args =
  match args with
  | [impl; p; h] ->
    let p = prim_of_string p and s = cs_of_hex h in
    let parsed = c07_string_to_number (c07_prim_cty p) s in
    let text = (match impl with
      | "cur" -> c07_to_integer_literal s
      | "legacy" -> c07_legacy_to_integer_literal s p
      | _ -> failwith "impl") in
    let ev = (match text with Some t -> c07_eval_expr t | None -> None) in
    let den = (match text, parsed with
      | Some t, Some v -> c07_literal_denotes t p v
      | _, _ -> false) in
    Printf.sprintf "accepted=%s value=%s text=%s eval=%s denotes=%s"
      (match parsed with Some _ -> "1" | None -> "0")
      (match parsed with Some v -> string_of_z v | None -> "-")
      (match text with Some t -> hex_of_cs t | None -> "ASSERT")
      (match ev with Some (v, t) -> string_of_z v ^ ":" ^ string_of_ity t | None -> "ILL")
      (s01 den)
  | _ -> failwith "c07lit: arity"

(* c07eval <hex text> -> eval=<z:type|ILL>   (semantics of a C++ expression) *)
let cmd_eval args =
  match args with
  | [h] ->
    (match c07_eval_expr (cs_of_hex h) with
     | Some (v, t) -> "eval=" ^ string_of_z v ^ ":" ^ string_of_ity t
     | None -> "eval=ILL")
  | _ -> failwith "c07eval: arity"

let which_of_string = function
  | "min" -> WMin | "max" -> WMax | "null" -> WNull | s -> failwith ("bad which: " ^ s)

(* c07tab <min|max|null> <prim> -> text=<hex> default=<z|-> eval=<..> *)
let cmd_tab args =
  match args with
  | [w; p] ->
    let w = which_of_string w and p = prim_of_string p in
    let t = c07_builtin_text w p in
    let fp = (p = PF32 || p = PF64) in
    Printf.sprintf "text=%s default=%s eval=%s" (hex_of_cs t)
      (if fp then "-" else string_of_z (c07_sbe_default w p))
      (if fp then "-" else
         match c07_eval_expr t with Some (v, ty) -> string_of_z v ^ ":" ^ string_of_ity ty | None -> "ILL")
  | _ -> failwith "c07tab: arity"

(* c07fp <cur|legacy> <hex value> -> xml=<0|1> text=<hex> kind=<int|float|invalid> *)
let cmd_fp args =
  match args with
  | [impl; h] ->
    let s = cs_of_hex h in
    let t = (match impl with "cur" -> c07_fp_literal s | "legacy" -> c07_legacy_fp_literal s
                           | _ -> failwith "impl") in
    Printf.sprintf "xml=%s text=%s kind=%s" (s01 (c07_xml_decimal_ok s)) (hex_of_cs t)
      (match c07_cpp_number_kind (c07_strip_sign t) with
       | KInteger -> "int" | KFloating -> "float" | KInvalid -> "invalid")
  | _ -> failwith "c07fp: arity"

(* c07str <cur|legacy> <hex> -> esc=<hex> denotes=<hex|NONE> same=<0|1> survives=<0|1> *)
let cmd_str args =
  match args with
  | [impl; h] ->
    let s = cs_of_hex h in
    let e = (match impl with "cur" -> c07_escape_literal s | "legacy" -> c07_legacy_escape_literal s
                           | _ -> failwith "impl") in
    let d = c07_string_literal_denotes e in
    Printf.sprintf "esc=%s denotes=%s same=%s survives=%s" (hex_of_cs e)
      (match d with Some x -> hex_of_cs x | None -> "NONE")
      (s01 (match d with Some x -> x = s | None -> false))
      (s01 (c07_survives_unchanged s))
  | _ -> failwith "c07str: arity"

(* c07strc <hex value> <len> -> const=<hex of the text between the quotes|REJECT> *)
let cmd_strc args =
  match args with
  | [h; n] ->
    (match c07_make_string_constant (cs_of_hex h) (nat_of_int (int_of_string n)) with
     | Some t -> "const=" ^ hex_of_cs t
     | None -> "const=REJECT")
  | _ -> failwith "c07strc: arity"

(* ---- schema token stream for the naming model ----
   enc   := T name (c|r|o) | E name n v.. | S name n c.. | C name n elem..
   elem  := R name | N enc
   level := nf f.. ng group.. nd d..
   group := G name level
   msg   := M name level *)
let take_n n toks f =
  let rec go k toks acc =
    if k = 0 then (List.rev acc, toks) else
    let (x, toks) = f toks in go (k - 1) toks (x :: acc) in
  go n toks []

let name_tok = function
  | x :: r -> (cs_of_string x, r)
  | [] -> failwith "name expected"

let rec parse_enc toks =
  match toks with
  | "T" :: name :: k :: r ->
    let k = (match k with "c" -> KConstOrArray | "r" -> KRequired | "o" -> KOptional
                        | _ -> failwith "tkind") in
    (EType (cs_of_string name, k), r)
  | "E" :: name :: n :: r ->
    let (vs, r) = take_n (int_of_string n) r name_tok in (EEnum (cs_of_string name, vs), r)
  | "S" :: name :: n :: r ->
    let (vs, r) = take_n (int_of_string n) r name_tok in (ESet (cs_of_string name, vs), r)
  | "C" :: name :: n :: r ->
    let (es, r) = take_n (int_of_string n) r parse_elem in (EComposite (cs_of_string name, es), r)
  | t :: _ -> failwith ("enc: unexpected " ^ t)
  | [] -> failwith "enc: eof"
and parse_elem toks =
  match toks with
  | "R" :: name :: r -> (ERef (cs_of_string name), r)
  | "N" :: r -> let (e, r) = parse_enc r in (EEnc e, r)
  | _ -> failwith "elem"

let rec parse_level toks =
  match toks with
  | nf :: r ->
    let (fs, r) = take_n (int_of_string nf) r name_tok in
    (match r with
     | ng :: r ->
       let (gs, r) = take_n (int_of_string ng) r parse_group in
       (match r with
        | nd :: r -> let (ds, r) = take_n (int_of_string nd) r name_tok in ((fs, gs, ds), r)
        | [] -> failwith "level: nd")
     | [] -> failwith "level: ng")
  | [] -> failwith "level: nf"
and parse_group toks =
  match toks with
  | "G" :: name :: r ->
    let ((fs, gs, ds), r) = parse_level r in (Group (cs_of_string name, fs, gs, ds), r)
  | _ -> failwith "group"

let parse_msg toks =
  match toks with
  | "M" :: name :: r ->
    let ((fs, gs, ds), r) = parse_level r in
    ({ m_name = cs_of_string name; m_fields = fs; m_groups = gs; m_data = ds }, r)
  | _ -> failwith "msg"

let parse_schema toks =
  match toks with
  | nt :: r ->
    let (ts, r) = take_n (int_of_string nt) r parse_enc in
    (match r with
     | nm :: r -> let (ms, r) = take_n (int_of_string nm) r parse_msg in
       if r <> [] then failwith "trailing tokens"; (ts, ms)
     | [] -> failwith "schema: nm")
  | [] -> failwith "schema: nt"

(* keys: the decisions are listed in traversal order; the key of a decision is
   the path of schema names from the public encoding / message down to it *)
let rec enc_keys prefix e : String.t list =
  let name = string_of_cs (match e with EType (n, _) | EEnum (n, _) | ESet (n, _) | EComposite (n, _) -> n) in
  let me = if prefix = "" then name else prefix ^ "/" ^ name in
  me :: (match e with
    | EComposite (_, es) ->
      List.concat_map (function ERef _ -> [] | EEnc x -> enc_keys me x) es
    | _ -> [])

let rec group_keys prefix g : String.t list =
  match g with
  | Group (n, _, gs, _) ->
    let me = prefix ^ "/" ^ string_of_cs n in
    me :: List.concat_map (group_keys me) gs

let msg_keys m : String.t list =
  let me = string_of_cs m.m_name in
  me :: List.concat_map (group_keys me) m.m_groups

(* c07names <schema tokens>
   -> types <key>=<impl>[*] ... ; tagtypes=<name|-> ; msgs <key>=<impl>[:<entry>][*] ... ; tagmsgs=<name|-> ; nodup=<0|1> *)
let cmd_names args =
  let (ts, ms) = parse_schema args in
  let tn = c07_generate_type_names ts in
  let mn = c07_generate_message_names ms in
  let tkeys = List.concat_map (enc_keys "") ts in
  let mkeys = List.concat_map msg_keys ms in
  if List.length tkeys <> List.length tn.tn_assigns then failwith "type keys";
  if List.length mkeys <> List.length mn.mn_assigns then failwith "message keys";
  let tl = List.map2 (fun k a ->
      Printf.sprintf "%s=%s%s" k (string_of_cs a.a_impl) (if a.a_mangled then "*" else ""))
      tkeys tn.tn_assigns in
  let ml = List.map2 (fun k a ->
      Printf.sprintf "%s=%s%s%s" k (string_of_cs a.g_impl)
        (if a.g_is_message then "" else ":" ^ string_of_cs a.g_entry)
        (if a.g_mangled then "*" else ""))
      mkeys mn.mn_assigns in
  let o = function Some x -> string_of_cs x | None -> "-" in
  let rec nodup = function [] -> true | x :: r -> not (List.mem x r) && nodup r in
  Printf.sprintf "types %s ; tagtypes=%s ; msgs %s ; tagmsgs=%s ; nodup=%s"
    (String.concat " " (List.sort compare tl)) (o tn.tn_tag_types)
    (String.concat " " (List.sort compare ml)) (o mn.mn_tag_messages)
    (s01 (nodup (c07_detail_type_names tn.tn_assigns) && nodup (c07_detail_message_names mn.mn_assigns)))

(* c07params <cur|legacy> <schema tokens> -> <key>=<p1,p2,..> ... for every message and group *)
let cmd_params args =
  match args with
  | impl :: toks ->
    let (_, ms) = parse_schema toks in
    let mp, gp = (match impl with
      | "cur" -> c07_message_size_params, c07_group_size_params
      | "legacy" -> c07_legacy_message_size_params, c07_legacy_group_size_params
      | _ -> failwith "impl") in
    let join l = if l = [] then "-" else String.concat "," (List.map string_of_cs l) in
    let rec groups prefix g =
      match g with
      | Group (n, _, gs, _) ->
        let me = prefix ^ "/" ^ string_of_cs n in
        (me ^ "=" ^ join (gp g)) :: List.concat_map (groups me) gs in
    let one m =
      let me = string_of_cs m.m_name in
      (me ^ "=" ^ join (mp m)) :: List.concat_map (groups me) m.m_groups in
    String.concat " " (List.concat_map one ms)
  | [] -> failwith "c07params: arity"

(* c07fpx <float|double> <z> -> exact=<0|1>: an integer constant of that value
   initialises the type without narrowing *)
let cmd_fpx args =
  match args with
  | [p; z] -> "exact=" ^ s01 (c07_fp_exact (prim_of_string p) (z_of_string z))
  | _ -> failwith "c07fpx: arity"

let () =
  register "c07fpx" cmd_fpx;
  register "c07lit" cmd_lit; register "c07eval" cmd_eval; register "c07tab" cmd_tab;
  register "c07fp" cmd_fp; register "c07str" cmd_str; register "c07strc" cmd_strc;
  register "c07names" cmd_names; register "c07params" cmd_params
