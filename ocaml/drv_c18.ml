(* drv_c18.ml — line protocol front end for Traits.v (C18, derived traits). *)
open Model
open Drv_common
open Traits
open Drv_c07

let oz = function "-" -> None | s -> Some (z_of_string s)
let soz = function None -> "-" | Some z -> string_of_z z

let pres_of = function
  | "r" -> PRequired | "o" -> POptional | "c" -> PConstant | s -> failwith ("presence: " ^ s)
let pres_str = function PRequired -> "r" | POptional -> "o" | PConstant -> "c"

(* enc := T name prim pres len off | E name prim off n v.. | S name prim off n c.. | C name off n elem..
   elem := R name off enc | N enc *)
let rec parse_tenc toks =
  match toks with
  | "T" :: name :: prim :: pres :: len :: off :: r ->
    (TyType (cs_of_string name, prim_of_string prim, pres_of pres, z_of_string len, oz off), r)
  | "E" :: name :: prim :: off :: n :: r ->
    let (vs, r) = take_n (int_of_string n) r name_tok in
    (TyEnum (cs_of_string name, prim_of_string prim, vs, oz off), r)
  | "S" :: name :: prim :: off :: n :: r ->
    let (vs, r) = take_n (int_of_string n) r name_tok in
    (TySet (cs_of_string name, prim_of_string prim, vs, oz off), r)
  | "C" :: name :: off :: n :: r ->
    let (es, r) = take_n (int_of_string n) r parse_telem in
    (TyComposite (cs_of_string name, oz off, es), r)
  | t :: _ -> failwith ("tenc: unexpected " ^ t)
  | [] -> failwith "tenc: eof"
and parse_telem toks =
  match toks with
  | "R" :: name :: off :: r -> let (t, r) = parse_tenc r in (ElRef (cs_of_string name, oz off, t), r)
  | "N" :: r -> let (e, r) = parse_tenc r in (ElEnc e, r)
  | _ -> failwith "telem"

let parse_tfield toks =
  match toks with
  | "f" :: name :: off :: pres :: "P" :: prim :: r ->
    ({ tf_name = cs_of_string name; tf_off = oz off; tf_pres = pres_of pres;
       tf_type = FPrim (prim_of_string prim) }, r)
  | "f" :: name :: off :: pres :: "X" :: r ->
    let (e, r) = parse_tenc r in
    ({ tf_name = cs_of_string name; tf_off = oz off; tf_pres = pres_of pres; tf_type = FEnc e }, r)
  | _ -> failwith "tfield"

let rec parse_tlevel toks =
  match toks with
  | nf :: r ->
    let (fs, r) = take_n (int_of_string nf) r parse_tfield in
    (match r with
     | ng :: r ->
       let (gs, r) = take_n (int_of_string ng) r parse_tgroup in
       (match r with
        | nd :: r -> let (ds, r) = take_n (int_of_string nd) r name_tok in ((fs, gs, ds), r)
        | [] -> failwith "tlevel: nd")
     | [] -> failwith "tlevel: ng")
  | [] -> failwith "tlevel: nf"
and parse_tgroup toks =
  match toks with
  | "G" :: name :: bl :: r ->
    let ((fs, gs, ds), r) = parse_tlevel r in (TGroup (cs_of_string name, oz bl, fs, gs, ds), r)
  | _ -> failwith "tgroup"

let parse_tmsg toks =
  match toks with
  | "M" :: name :: bl :: r ->
    let ((fs, gs, ds), r) = parse_tlevel r in
    ({ tm_name = cs_of_string name; tm_bl = oz bl; tm_fields = fs; tm_groups = gs; tm_data = ds }, r)
  | _ -> failwith "tmsg"

let nm e = string_of_cs (match e with
  | TyType (n, _, _, _, _) | TyEnum (n, _, _, _) | TySet (n, _, _, _) | TyComposite (n, _, _) -> n)

(* c18enc <enc tokens> -> "<key> size=<z|-> off=<z|->" joined by " ; ", the
   public encoding first, then every element in schema order (depth first) *)
let rec enc_lines key (e : tenc) (off : z option) : String.t list =
  let me = Printf.sprintf "%s size=%s off=%s" key (soz (c18_enc_size e)) (soz off) in
  me :: (match e with
    | TyComposite (_, _, es) ->
      let offs = c18_elem_offsets es in
      let offs = (match offs with Some l -> List.map (fun o -> Some o) l | None -> List.map (fun _ -> None) es) in
      List.concat (List.map2 (fun x o ->
        let computed = (match o with Some c -> c | None -> None) in
        let tr = (match o with Some _ -> c18_elem_offset_trait x computed | None -> None) in
        match x with
        | ElRef (n, _, t) ->
          [Printf.sprintf "%s/%s size=%s off=%s" key (string_of_cs n) (soz (c18_enc_size t)) (soz tr)]
        | ElEnc x' -> enc_lines (key ^ "/" ^ nm x') x' tr) es offs)
    | _ -> [])

let cmd_enc args =
  let (e, r) = parse_tenc args in
  if r <> [] then failwith "trailing tokens";
  String.concat " ; " (enc_lines (nm e) e (c18_public_offset_trait e))

(* c18msg <msg tokens> -> "<key> bl=<z|REJECT>" and "<key>/<field> off=<z> pres=<r|o|c>" joined by " ; " *)
let rec level_lines key bl fs gs : String.t list =
  let lt = c18_level_traits_of bl fs in
  let me = (match lt with
    | Some t -> Printf.sprintf "%s bl=%s" key (string_of_z t.lt_block_length)
    | None -> Printf.sprintf "%s bl=REJECT" key) in
  let fl = (match lt with
    | Some t ->
      List.map2 (fun f (o, p) ->
          Printf.sprintf "%s/%s off=%s pres=%s" key (string_of_cs f.tf_name) (string_of_z o) (pres_str p))
        fs (List.combine t.lt_offsets t.lt_presence)
    | None -> []) in
  me :: fl @ List.concat_map (fun g ->
      match g with TGroup (n, b, fs', gs', _) -> level_lines (key ^ "/" ^ string_of_cs n) b fs' gs') gs

let cmd_msg args =
  let (m, r) = parse_tmsg args in
  if r <> [] then failwith "trailing tokens";
  String.concat " ; " (level_lines (string_of_cs m.tm_name) m.tm_bl m.tm_fields m.tm_groups)

let kind_list = [KType; KEnum; KEnumValue; KSet; KSetChoice; KComposite; KField; KGroup; KData; KMessage; KSchema]

(* c18tags <ntypes> enc.. <nmsgs> msg.. -> "<tag path> <11 kind bits>" joined by " ; " *)
let cmd_tags args =
  match args with
  | nt :: r ->
    let (ts, r) = take_n (int_of_string nt) r parse_tenc in
    (match r with
     | nmsg :: r ->
       let (ms, r) = take_n (int_of_string nmsg) r parse_tmsg in
       if r <> [] then failwith "trailing tokens";
       let s = { ts_types = ts; ts_messages = ms } in
       let tags = c18_schema_tags s in
       String.concat " ; " (List.map (fun (t, _) ->
           let path = if t = [] then "." else String.concat "/" (List.map string_of_cs t) in
           path ^ " " ^ String.concat "" (List.map (fun k -> s01 (c18_is_kind_tag s k t)) kind_list)) tags)
     | [] -> failwith "c18tags: nmsgs")
  | [] -> failwith "c18tags: arity"

let () = register "c18enc" cmd_enc; register "c18msg" cmd_msg; register "c18tags" cmd_tags
