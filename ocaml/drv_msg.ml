(* drv_msg.ml — message-level commands: a schema description is compiled by the
   Coq function Layout.compile_message into a table; ops run on a buffer. *)
open Model
open Drv_common

(* ---- token stream parser for the schema description ---- *)
exception Parse of string

let prim_of_string = function
  | "char" -> PChar | "int8" -> PI8 | "uint8" -> PU8 | "int16" -> PI16 | "uint16" -> PU16
  | "int32" -> PI32 | "uint32" -> PU32 | "int64" -> PI64 | "uint64" -> PU64
  | "float" -> PF32 | "double" -> PF64
  | s -> raise (Parse ("prim " ^ s))

let next toks = match !toks with [] -> raise (Parse "eof") | t :: r -> toks := r; t
let expect toks s = let t = next toks in if t <> s then raise (Parse ("expected " ^ s ^ " got " ^ t))
let p_int toks = int_of_string (next toks)
let p_opt toks = match next toks with "-" -> None | s -> Some (z_of_string s)
let p_bool toks = (next toks = "1")
let rec p_list n f toks = if n = 0 then [] else let x = f toks in x :: p_list (n - 1) f toks

let rec p_type toks : stype =
  match next toks with
  | "S" -> TScalar (prim_of_string (next toks))
  | "A" -> let p = prim_of_string (next toks) in let n = z_of_string (next toks) in TArray (p, n)
  | "C" -> let n = p_int toks in TComposite (p_list n p_member toks)
  | s -> raise (Parse ("type " ^ s))
and p_member toks : smember =
  expect toks "m";
  let o = p_opt toks in let c = p_bool toks in let t = p_type toks in SMember (o, c, t)

let p_members toks = match p_type toks with TComposite ms -> ms | _ -> raise (Parse "composite expected")

let p_fills toks : (nat * fillv) list =
  expect toks "F";
  let n = p_int toks in
  p_list n (fun t ->
    let idx = p_int t in
    let v = (match next t with
      | "bl" -> FBlockLength | "n" -> FNumInGroup
      | s when String.length s > 1 && s.[0] = 'c' -> FConst (z_of_string (String.sub s 1 (String.length s - 1)))
      | s -> raise (Parse ("fill " ^ s))) in
    (nat_of_int idx, v)) toks

let p_field toks : sfield =
  expect toks "f";
  let o = p_opt toks in let c = p_bool toks in let t = p_type toks in
  { sf_off = o; sf_const = c; sf_type = t }

let rec p_level toks : slevel =
  expect toks "L";
  let nf = p_int toks in let fs = p_list nf p_field toks in
  let ng = p_int toks in let gs = p_groups ng toks in
  let nd = p_int toks in let ds = p_list nd (fun t -> expect t "D"; prim_of_string (next t)) toks in
  SLevel (fs, gs, ds)
and p_groups n toks : sgroups =
  if n = 0 then SGNil else begin
    expect toks "G";
    let ms = p_members toks in
    let bli = p_int toks in let ni = p_int toks in
    let fills = p_fills toks in
    let bl = p_opt toks in
    let l = p_level toks in
    let rest = p_groups (n - 1) toks in
    SGCons ({ sd_members = ms; sd_bl_idx = nat_of_int bli; sd_n_idx = nat_of_int ni; sd_fills = fills }, bl, l, rest)
  end

let p_message toks : smessage =
  expect toks "M";
  let hdr = p_members toks in
  let bli = p_int toks in
  let fills = p_fills toks in
  let bl = p_opt toks in
  let l = p_level toks in
  { sm_header = hdr; sm_bl_idx = nat_of_int bli; sm_fills = fills; sm_block_length = bl; sm_level = l }

(* ---- state ---- *)
let cur_be = ref false
let cur_msg : message option ref = ref None
let cur_smsg : smessage option ref = ref None
let cur_buf : z list ref = ref []
let cur_base : z ref = ref Z0

let the_msg () = match !cur_msg with Some m -> m | None -> failwith "no message"

let parse_path (s : string) : step list =
  if s = "." then [] else
  List.map (fun seg ->
    match String.split_on_char ':' seg with
    | [k; i] -> SGroup (nat_of_int (int_of_string k), z_of_string i)
    | _ -> failwith ("bad path segment " ^ seg)) (String.split_on_char '/' s)

let string_of_ity = function
  | U8 -> "u8" | U16 -> "u16" | U32 -> "u32" | U64 -> "u64"
  | I8 -> "i8" | I16 -> "i16" | I32 -> "i32" | I64 -> "i64"

let rec layout_level (l : level) : string =
  match l with
  | Level (fs, gs, ds) ->
    let f = String.concat "," (List.map (fun f -> string_of_z f.f_off ^ ":" ^ string_of_z f.f_size) fs) in
    let rec g = function
      | GNil -> []
      | GCons (d, cbl, sub, rest) ->
        (Printf.sprintf "G(dim=%s bl@%s:%s n@%s:%s cbl=%s %s)"
           (string_of_z d.d_size) (string_of_z d.d_bl_off) (string_of_ity d.d_bl_t)
           (string_of_z d.d_n_off) (string_of_ity d.d_n_t) (string_of_z cbl) (layout_level sub)) :: g rest in
    Printf.sprintf "L[f=%s g=%s d=%s]" f (String.concat "" (g gs))
      (String.concat "," (List.map string_of_ity ds))

let oob = "OOB"
let upd = function Some b -> cur_buf := b; "ok" | None -> oob

let cmd_msg args =
  match args with
  | be :: rest ->
    cur_be := (be = "1");
    let toks = ref rest in
    (try
      let sm = p_message toks in
      cur_smsg := Some sm;
      (match compile_message sm with
       | Some m -> cur_msg := Some m;
         Printf.sprintf "ok hdr=%s bl@%s:%s cbl=%s %s" (string_of_z m.m_hdr_size) (string_of_z m.m_bl_off)
           (string_of_ity m.m_bl_t) (string_of_z m.m_cbl) (layout_level m.m_level)
       | None -> cur_msg := None; "rejected")
    with Parse m -> failwith ("parse: " ^ m))
  | _ -> failwith "msg: arity"

let () =
  register "msg" cmd_msg;
  register "buf" (function [h] -> cur_buf := bytes_of_hex h; "ok" | _ -> failwith "buf");
  register "base" (function [z] -> cur_base := z_of_string z; "ok" | _ -> failwith "base");
  register "dump" (fun _ -> hex_of_bytes !cur_buf);
  register "size" (fun _ -> opt string_of_z (msg_size_bytes !cur_be !cur_buf (the_msg ()) !cur_base) |> fun s -> if s = "UB" then oob else s);
  register "esize" (function [p] ->
      (match entry_size_bytes !cur_be !cur_buf (the_msg ()) !cur_base (parse_path p) with
       | Some z -> string_of_z z | None -> oob) | _ -> failwith "esize");
  register "gsize" (function [p; k] ->
      (match group_size_bytes !cur_be !cur_buf (the_msg ()) !cur_base (parse_path p) (nat_of_int (int_of_string k)) with
       | Some z -> string_of_z z | None -> oob) | _ -> failwith "gsize");
  register "ginfo" (function [p; k] ->
      (match locate_group !cur_be !cur_buf (the_msg ()) !cur_base (parse_path p) (nat_of_int (int_of_string k)) with
       | Some (((g, _), _), _) -> Printf.sprintf "pos=%s bl=%s n=%s" (string_of_z (Z.sub g.gv_pos !cur_base)) (string_of_z g.gv_bl) (string_of_z g.gv_n)
       | None -> oob) | _ -> failwith "ginfo");
  register "gresize" (function [p; k; n] ->
      upd (group_resize !cur_be !cur_buf (the_msg ()) !cur_base (parse_path p) (nat_of_int (int_of_string k)) (z_of_string n))
      | _ -> failwith "gresize");
  register "gfill" (function [p; k; n] ->
      upd (group_fill_header !cur_be !cur_buf (the_msg ()) !cur_base (parse_path p) (nat_of_int (int_of_string k)) (z_of_string n))
      | _ -> failwith "gfill");
  register "epos" (function [p] ->
      (match msg_resolve !cur_be !cur_buf (the_msg ()) !cur_base (parse_path p) with
       | Some ((pos, bl), _) -> Printf.sprintf "pos=%s" (string_of_z (Z.sub pos !cur_base))
       | None -> oob) | _ -> failwith "epos");
  register "getf" (function [p; k; pr] ->
      (match get_field !cur_be !cur_buf (the_msg ()) !cur_base (parse_path p) (nat_of_int (int_of_string k)) with
       | Some bs -> string_of_z (interp (prim_of_string pr) (dec !cur_be bs))
       | None -> oob) | _ -> failwith "getf");
  register "getb" (function [p; k] ->
      (match get_field !cur_be !cur_buf (the_msg ()) !cur_base (parse_path p) (nat_of_int (int_of_string k)) with
       | Some bs -> hex_of_bytes bs | None -> oob) | _ -> failwith "getb");
  register "geta" (function [p; k] ->
      (match get_field !cur_be !cur_buf (the_msg ()) !cur_base (parse_path p) (nat_of_int (int_of_string k)) with
       | Some bs -> hex_of_bytes bs | None -> oob) | _ -> failwith "geta");
  register "getar" (function [p; k] ->
      (match get_field !cur_be !cur_buf (the_msg ()) !cur_base (parse_path p) (nat_of_int (int_of_string k)) with
       | Some bs -> hex_of_bytes bs | None -> oob) | _ -> failwith "getar");
  register "setf" (function [p; k; pr; v] ->
      let pr = prim_of_string pr in
      let bs = enc !cur_be (prim_size pr) (to_raw pr (z_of_string v)) in
      upd (set_field !cur_be !cur_buf (the_msg ()) !cur_base (parse_path p) (nat_of_int (int_of_string k)) bs)
      | _ -> failwith "setf");
  register "setb" (function [p; k; h] ->
      upd (set_field !cur_be !cur_buf (the_msg ()) !cur_base (parse_path p) (nat_of_int (int_of_string k)) (bytes_of_hex h))
      | _ -> failwith "setb");
  register "getd" (function [p; k] ->
      (match get_data !cur_be !cur_buf (the_msg ()) !cur_base (parse_path p) (nat_of_int (int_of_string k)) with
       | Some bs -> hex_of_bytes bs | None -> oob) | _ -> failwith "getd");
  register "setd" (function [p; k; h] ->
      upd (assign_data !cur_be !cur_buf (the_msg ()) !cur_base (parse_path p) (nat_of_int (int_of_string k)) (bytes_of_hex h))
      | _ -> failwith "setd")

(* ---- composite members of a field: offsets come from Layout.member_offsets ---- *)
let rec slevel_at (l : slevel) (path : step list) : slevel =
  match path with
  | [] -> l
  | SGroup (k, _) :: r ->
    let SLevel (_, gs, _) = l in
    let rec nth gs k = match gs, k with
      | SGCons (_, _, sub, _), 0 -> sub
      | SGCons (_, _, _, rest), k -> nth rest (k - 1)
      | SGNil, _ -> failwith "slevel_at" in
    slevel_at (nth gs (int_of_nat k)) r

let member_of (p : string) (k : int) (j : int) : z * stype =
  let sm = (match !cur_smsg with Some s -> s | None -> failwith "no message") in
  let SLevel (fs, _, _) = slevel_at sm.sm_level (parse_path p) in
  let nc = List.filter (fun f -> not f.sf_const) fs in
  let f = List.nth nc k in
  match f.sf_type with
  | TComposite ms ->
    (match member_offsets ms Z0 with
     | Some offs ->
       let pairs = List.combine ms offs in
       let ncm = List.filter_map (fun (m, o) -> match o with Some off -> Some (off, (match m with SMember (_, _, t) -> t)) | None -> None) pairs in
       List.nth ncm j
     | None -> failwith "member_offsets")
  | _ -> failwith "not a composite"

let size_of_stype t = match type_size t with Some z -> z | None -> failwith "type_size"

let () =
  register "getcm" (function [p; k; j; pr] ->
      (* the composite accessor only computes an address; the member accessor reads the member's bytes *)
      let (off, t) = member_of p (int_of_string k) (int_of_string j) in
      (match msg_resolve !cur_be !cur_buf (the_msg ()) !cur_base (parse_path p) with
       | Some ((pos, _), l) ->
         let f = List.nth (level_fields l) (int_of_string k) in
         (match rd_bytes !cur_buf (Z.add (Z.add pos f.f_off) off) (size_of_stype t) with
          | Some sub ->
            if pr = "bytes" then hex_of_bytes sub
            else string_of_z (interp (prim_of_string pr) (dec !cur_be sub))
          | None -> oob)
       | None -> oob) | _ -> failwith "getcm");
  register "setcm" (function [p; k; j; pr; v] ->
      let (off, t) = member_of p (int_of_string k) (int_of_string j) in
      let prm = prim_of_string pr in
      (match get_field !cur_be !cur_buf (the_msg ()) !cur_base (parse_path p) (nat_of_int (int_of_string k)) with
       | Some bs ->
         let nb = splice bs off (enc !cur_be (prim_size prm) (to_raw prm (z_of_string v))) in
         upd (set_field !cur_be !cur_buf (the_msg ()) !cur_base (parse_path p) (nat_of_int (int_of_string k)) nb)
       | None -> oob) | _ -> failwith "setcm");
  register "dinfo" (function [p; k] ->
      (match locate_data !cur_be !cur_buf (the_msg ()) !cur_base (parse_path p) (nat_of_int (int_of_string k)) with
       | Some (pos, t) ->
         (match rd !cur_be !cur_buf pos t with
          | Some n -> Printf.sprintf "pos=%s n=%s" (string_of_z (Z.sub pos !cur_base)) (string_of_z n)
          | None -> oob)
       | None -> oob) | _ -> failwith "dinfo");
  register "use" (fun _ -> "ok")

(* ---- CheckedAccess.v: the same operations with the library's explicit size
   checks (SBEPP_SIZE_CHECK) instead of bounds-tested reads: value or ASSERT ---- *)
let last_why = ref "-"
let ares f = function
  | CA.AOk (x, _) -> last_why := "-"; f x
  | CA.AAssert (_, w) ->
    last_why := (match w with
      | CA.WCheck (g, o, s) -> Printf.sprintf "check begin=%s off=%s size=%s" (string_of_z g) (string_of_z o) (string_of_z s)
      | CA.WPre -> "precondition");
    "ASSERT"
let knat k = nat_of_int (int_of_string k)

let () =
  (* which check of the last c-command failed (diagnostics) *)
  register "cwhy" (fun _ -> !last_why);
  register "csize" (fun _ -> ares string_of_z (CA.cmsg_size_bytes !cur_be !cur_buf (the_msg ()) !cur_base));
  register "cesize" (function [p] ->
      ares string_of_z (CA.centry_size_bytes !cur_be !cur_buf (the_msg ()) !cur_base (parse_path p))
      | _ -> failwith "cesize");
  register "cepos" (function [p] ->
      ares (fun pos -> Printf.sprintf "pos=%s" (string_of_z (Z.sub pos !cur_base)))
        (CA.centry_pos !cur_be !cur_buf (the_msg ()) !cur_base (parse_path p))
      | _ -> failwith "cepos");
  register "cgsize" (function [p; k] ->
      ares string_of_z (CA.cgroup_size_bytes !cur_be !cur_buf (the_msg ()) !cur_base (parse_path p) (knat k))
      | _ -> failwith "cgsize");
  register "cginfo" (function [p; k] ->
      ares (fun (((g, _), _), _) ->
          Printf.sprintf "pos=%s bl=%s n=%s" (string_of_z (Z.sub g.gv_pos !cur_base)) (string_of_z g.gv_bl) (string_of_z g.gv_n))
        (CA.cgroup_info !cur_be !cur_buf (the_msg ()) !cur_base (parse_path p) (knat k))
      | _ -> failwith "cginfo");
  register "cgetf" (function [p; k; pr] ->
      ares (fun bs -> string_of_z (interp (prim_of_string pr) (dec !cur_be bs)))
        (CA.cget_field !cur_be !cur_buf (the_msg ()) !cur_base (parse_path p) (knat k))
      | _ -> failwith "cgetf");
  register "cgeta" (function [p; k] ->
      ares hex_of_bytes (CA.cget_array !cur_be !cur_buf (the_msg ()) !cur_base (parse_path p) (knat k))
      | _ -> failwith "cgeta");
  (* raw() is a view with the same begin / end: the same checks *)
  register "cgetar" (function [p; k] ->
      ares hex_of_bytes (CA.cget_array !cur_be !cur_buf (the_msg ()) !cur_base (parse_path p) (knat k))
      | _ -> failwith "cgetar");
  register "cgetae" (function [p; k; i] ->
      ares hex_of_bytes (CA.cget_array_elem !cur_be !cur_buf (the_msg ()) !cur_base (parse_path p) (knat k) (z_of_string i))
      | _ -> failwith "cgetae");
  register "cgetcm" (function [p; k; j; pr] ->
      let (off, t) = member_of p (int_of_string k) (int_of_string j) in
      ares (fun sub ->
          if pr = "bytes" then hex_of_bytes sub
          else string_of_z (interp (prim_of_string pr) (dec !cur_be sub)))
        (CA.cget_comp_member !cur_be !cur_buf (the_msg ()) !cur_base (parse_path p) (knat k) off (size_of_stype t))
      | _ -> failwith "cgetcm");
  register "cdinfo" (function [p; k] ->
      ares (fun (pos, n) -> Printf.sprintf "pos=%s n=%s" (string_of_z (Z.sub pos !cur_base)) (string_of_z n))
        (CA.cdata_info !cur_be !cur_buf (the_msg ()) !cur_base (parse_path p) (knat k))
      | _ -> failwith "cdinfo");
  register "cgetd" (function [p; k] ->
      ares hex_of_bytes (CA.cget_data !cur_be !cur_buf (the_msg ()) !cur_base (parse_path p) (knat k))
      | _ -> failwith "cgetd")

(* ---- Wire.over_message: the reference encoder ---- *)
let nth_sgroup (gs : sgroups) (k : int) : slevel =
  let rec nth gs k = match gs, k with
    | SGCons (_, _, sub, _), 0 -> sub
    | SGCons (_, _, _, rest), k -> nth rest (k - 1)
    | SGNil, _ -> raise (Parse "wtree: group index") in
  nth gs k

let member_off_of (t : stype) (j : int) : z =
  match t with
  | TComposite ms ->
    (match member_offsets ms Z0 with
     | Some offs ->
       let ncm = List.filter_map (fun o -> o) offs in
       List.nth ncm j
     | None -> raise (Parse "member_offsets"))
  | _ -> raise (Parse "not a composite")

(* W nf (np (off|m<j> hex)*np)*nf ng (g ne W*ne)*ng nd hex*nd *)
let rec p_wlevel (sl : slevel) toks : wlevel =
  expect toks "W";
  let SLevel (sfs, sgs, _) = sl in
  let nc = List.filter (fun f -> not f.sf_const) sfs in
  let nf = p_int toks in
  let fv = List.mapi (fun i () ->
      let np = p_int toks in
      p_list np (fun t ->
        let o = next t in
        let off = if o.[0] = 'm' then member_off_of (List.nth nc i).sf_type (int_of_string (String.sub o 1 (String.length o - 1)))
                  else z_of_string o in
        let h = next t in (off, bytes_of_hex h)) toks) (List.init nf (fun _ -> ())) in
  let ng = p_int toks in
  let gs = p_wgroups sgs 0 ng toks in
  let nd = p_int toks in
  let ds = p_list nd (fun t -> bytes_of_hex (next t)) toks in
  WLevel (fv, gs, ds)
and p_wgroups sgs k n toks : wgroups =
  if n = 0 then WGNil else begin
    expect toks "g";
    let sub = nth_sgroup sgs k in
    let ne = p_int toks in
    let es = p_wentries sub ne toks in
    let rest = p_wgroups sgs (k + 1) (n - 1) toks in
    WGCons (es, rest)
  end
and p_wentries sub n toks : wentries =
  if n = 0 then WENil else
    let e = p_wlevel sub toks in
    let r = p_wentries sub (n - 1) toks in WECons (e, r)

let the_slevel () = match !cur_smsg with Some s -> s.sm_level | None -> failwith "no message"

let () =
  register "fillhdr" (fun _ -> upd (msg_fill_header !cur_be !cur_buf (the_msg ()) !cur_base));
  register "over" (function bg :: rest ->
      let toks = ref rest in
      let w = (try p_wlevel (the_slevel ()) toks with Parse m -> failwith ("parse: " ^ m)) in
      hex_of_bytes (over_message !cur_be (the_msg ()) w (bytes_of_hex bg))
      | _ -> failwith "over");
  register "oversize" (function bg :: rest ->
      let toks = ref rest in
      let w = (try p_wlevel (the_slevel ()) toks with Parse m -> failwith ("parse: " ^ m)) in
      string_of_z (over_size !cur_be (the_msg ()) w (bytes_of_hex bg))
      | _ -> failwith "oversize")

(* ---- Msg.enc_message: the reference encoder over value trees with explicit
   (wire) block contents: V <blockhex> ng (g <dimbg> ne V*ne)*ng nd hex*nd ---- *)
let rec p_vlevel toks : vlevel =
  expect toks "V";
  let block = bytes_of_hex (next toks) in
  let ng = p_int toks in
  let gs = p_vgroups ng toks in
  let nd = p_int toks in
  let ds = p_list nd (fun t -> bytes_of_hex (next t)) toks in
  VLevel (block, gs, ds)
and p_vgroups n toks : vgroups =
  if n = 0 then VGNil else begin
    expect toks "g";
    let bg = bytes_of_hex (next toks) in
    let ne = p_int toks in
    let es = p_ventries ne toks in
    let rest = p_vgroups (n - 1) toks in
    VGCons (bg, es, rest)
  end
and p_ventries n toks : ventries =
  if n = 0 then VENil else
    let e = p_vlevel toks in
    let r = p_ventries (n - 1) toks in VECons (e, r)

let () =
  register "encv" (function hdrbg :: rest ->
      let toks = ref rest in
      let v = (try p_vlevel toks with Parse m -> failwith ("parse: " ^ m)) in
      hex_of_bytes (enc_message !cur_be (the_msg ()) (bytes_of_hex hdrbg) v)
      | _ -> failwith "encv")

(* ---- C05: trait-level size formula evaluated on a value tree ---- *)
let () =
  register "traitv" (function rest ->
      let toks = ref rest in
      let v = (try p_vlevel toks with Parse m -> failwith ("parse: " ^ m)) in
      let m = the_msg () in
      let Level (_, gs, _) = m.m_level in
      let counts = counts_gs gs O [v] in
      let total = data_total v in
      Printf.sprintf "counts=%s total=%s size=%s"
        (String.concat "," (List.map string_of_z counts)) (string_of_z total)
        (string_of_z (trait_size m counts total)));
  (* flat group size in the C++ types: fgs <n type> <bl type> <dim size> <n> <bl> [legacy] *)
  register "fgs" (function nt :: blt :: dsz :: n :: bl :: rest ->
      let d = { d_size = z_of_string dsz; d_bl_off = Z0; d_bl_t = ity_of_string blt; d_n_off = Z0;
                d_n_t = ity_of_string nt; d_fills = [] } in
      let r = (if rest = ["legacy"] then LegacyMsg.flat_group_size d (z_of_string n) (z_of_string bl)
               else flat_group_size d (z_of_string n) (z_of_string bl)) in
      opt string_of_z r
    | _ -> failwith "fgs")

(* ---- C19: enum visit: enumv <value> <validValue constants...> -> index | unknown ---- *)
let () =
  register "enumv" (function v :: vals ->
      (match enum_visit (List.map z_of_string vals) (z_of_string v) with
       | Some i -> string_of_int (int_of_nat i)
       | None -> "unknown")
    | _ -> failwith "enumv")
