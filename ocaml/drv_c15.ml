open Model
open Drv_common

(* ---------------- C15 ---------------- *)
(* c15 <impl: cur|legacy> T bits n b  ->  "get=<0|1|UB> set=<z|UB>" *)
let cmd_c15 args =
  match args with
  | [impl; t; bits; n; b] ->
    let t = ity_of_string t and bits = z_of_string bits and n = z_of_string n
    and b = bool_of_string01 b in
    let g, s = (match impl with
      | "cur" -> get_bit t bits n, set_bit t bits n b
      | "legacy" -> Legacy.get_bit t bits n, Legacy.set_bit t bits n b
      | "spec" -> Some (spec_get bits n), Some (spec_set bits n b)
      | _ -> failwith "impl") in
    Printf.sprintf "get=%s set=%s" (opt s01 g) (opt string_of_z s)
  | _ -> failwith "c15: arity"

(* c15v T bits idx... -> visit string of 0/1 *)
let cmd_c15v args =
  match args with
  | t :: bits :: idx ->
    let t = ity_of_string t and bits = z_of_string bits in
    let r = visit_set t bits (List.map z_of_string idx) in
    "visit=" ^ String.concat "" (List.map (opt s01) r)
  | _ -> failwith "c15v: arity"


let () = register "c15" cmd_c15; register "c15v" cmd_c15v
