open Model
open Drv_common
open Rules
open Validate
open Pipeline

(* ---------------- C08 / C09 ----------------
   Schema ASTs travel as a prefix token stream (see harness/mutate.py:schema_tokens):
     schema  := str(name) str(header) n element*n n message*n
     element := T str(name) str(prim) pres int(length) oint(offset) oval(min) oval(max) oval(null) oval(const) ostr(vref)
              | E str(name) str(type) oint(offset) n (str val)*n
              | S str(name) str(type) oint(offset) n (str int)*n
              | R str(name) str(type) oint(offset)
              | C str(name) oint(offset) n element*n
     val     := v oint(int) 0|1 int(len) int(first)
     message := M str(name) int(id) oint(bl) level
     level   := n field*n n group*n n data*n
     field   := f str(name) str(type) oint(offset) pres ostr(vref)
     group   := G str(name) str(dim) oint(bl) level
     data    := d str(name) str(type)
   strings are "s:<hex>", absent optionals are "-". *)

type toks = { a : string array; mutable i : int }

let next t =
  if t.i >= Array.length t.a then failwith "c08: out of tokens";
  let x = t.a.(t.i) in t.i <- t.i + 1; x

let p_str t : str =
  let x = next t in
  if String.length x < 2 || String.sub x 0 2 <> "s:" then failwith ("c08: string expected: " ^ x);
  let h = String.sub x 2 (String.length x - 2) in
  let v c = if c <= '9' then Char.code c - 48 else (Char.code c lor 32) - 87 in
  List.init (String.length h / 2) (fun k -> z_of_int (v h.[2*k] * 16 + v h.[2*k+1]))

let p_int t = z_of_string (next t)
let p_count t = int_of_string (next t)
let p_opt f t = if t.i < Array.length t.a && t.a.(t.i) = "-" then (t.i <- t.i + 1; None) else Some (f t)
let p_oint = p_opt p_int
let p_ostr = p_opt p_str
let p_pres t = match next t with
  | "req" -> PRequired | "opt" -> POptional | "const" -> PConstant
  | s -> failwith ("c08: presence: " ^ s)
let p_bool t = bool_of_string01 (next t)

let p_val t : value_text =
  (match next t with "v" -> () | s -> failwith ("c08: value expected: " ^ s));
  let vi = p_oint t in
  let fp = p_bool t in
  let ln = p_int t in
  let fst_ = p_int t in
  { v_int = vi; v_fp = fp; v_len = ln; v_first = fst_ }
let p_oval = p_opt p_val

let rec p_list n f t = if n <= 0 then [] else let x = f t in x :: p_list (n - 1) f t

let rec p_element t : element_def =
  match next t with
  | "T" ->
    let name = p_str t in let prim = p_str t in let pres = p_pres t in let len = p_int t in
    let off = p_oint t in let mn = p_oval t in let mx = p_oval t in let nl = p_oval t in
    let cv = p_oval t in let vr = p_ostr t in
    EType { t_name = name; t_prim = prim; t_presence = pres; t_length = len; t_offset = off;
            t_min = mn; t_max = mx; t_null = nl; t_const = cv; t_vref = vr }
  | "E" ->
    let name = p_str t in let ty = p_str t in let off = p_oint t in let n = p_count t in
    let vals = p_list n (fun t -> let a = p_str t in let b = p_val t in (a, b)) t in
    EEnum { e_name = name; e_type = ty; e_offset = off; e_values = vals }
  | "S" ->
    let name = p_str t in let ty = p_str t in let off = p_oint t in let n = p_count t in
    let cs = p_list n (fun t -> let a = p_str t in let b = p_int t in (a, b)) t in
    ESet { s_name = name; s_type = ty; s_offset = off; s_choices = cs }
  | "R" ->
    let name = p_str t in let ty = p_str t in let off = p_oint t in
    ERef (name, ty, off)
  | "C" ->
    let name = p_str t in let off = p_oint t in let n = p_count t in
    let els = p_list n p_element t in
    EComposite (name, off, els)
  | s -> failwith ("c08: element tag: " ^ s)

let p_field t : field_def =
  (match next t with "f" -> () | s -> failwith ("c08: field tag: " ^ s));
  let name = p_str t in let ty = p_str t in let off = p_oint t in let pres = p_pres t in
  let vr = p_ostr t in
  { f_name = name; f_type = ty; f_offset = off; f_presence = pres; f_vref = vr }

let p_data t : data_def =
  (match next t with "d" -> () | s -> failwith ("c08: data tag: " ^ s));
  let name = p_str t in let ty = p_str t in
  { d_name = name; d_type = ty }

let rec p_group t : group_def =
  (match next t with "G" -> () | s -> failwith ("c08: group tag: " ^ s));
  let name = p_str t in let dim = p_str t in let bl = p_oint t in
  let (fs, gs, ds) = p_level t in
  GroupDef (name, dim, bl, fs, gs, ds)
and p_level t =
  let nf = p_count t in let fs = p_list nf p_field t in
  let ng = p_count t in let gs = p_list ng p_group t in
  let nd = p_count t in let ds = p_list nd p_data t in
  (fs, gs, ds)

let p_message t =
  (match next t with "M" -> () | s -> failwith ("c08: message tag: " ^ s));
  let name = p_str t in let id = p_int t in let bl = p_oint t in
  let (fs, gs, ds) = p_level t in
  { m_name = name; m_id = id; m_bl = bl; m_fields = fs; m_groups = gs; m_data = ds }

let p_schema t =
  let name = p_str t in let header = p_str t in
  let nt = p_count t in let types = p_list nt p_element t in
  let nm = p_count t in let msgs = p_list nm p_message t in
  { sc_name = name; sc_header = header; sc_types = types; sc_messages = msgs }

let class_name = function
  | OffsetTooSmall -> "OffsetTooSmall" | OffsetOverflow -> "OffsetOverflow"
  | BlockLengthTooSmall -> "BlockLengthTooSmall" | ValueNotRepresentable -> "ValueNotRepresentable"
  | ChoiceIndexOutOfRange -> "ChoiceIndexOutOfRange" | UnknownType -> "UnknownType"
  | WrongKindReference -> "WrongKindReference" | CyclicReference -> "CyclicReference"
  | MultiByteArray -> "MultiByteArray" | BadLevelHeader -> "BadLevelHeader"
  | InvalidName -> "InvalidName" | DuplicateName -> "DuplicateName" | BadNumber -> "BadNumber"
  | BadPrimitiveType -> "BadPrimitiveType" | BadEncodingType -> "BadEncodingType"
  | BadConstant -> "BadConstant" | BadValueRef -> "BadValueRef" | Malformed -> "Malformed"

let crash_name = function
  | CtxMissing -> "CtxMissing" | CtxDuplicate -> "CtxDuplicate" | NullEncoding -> "NullEncoding"
  | AssertFalse -> "AssertFalse" | BadPrimitive -> "BadPrimitive" | MapAt -> "MapAt"
  | BadVariant -> "BadVariant" | NullElement -> "NullElement" | EmptyOptional -> "EmptyOptional"

let outcome_str ok = function
  | VOk a -> ok a
  | VErr c -> "err:" ^ class_name c
  | VCrash w -> "crash:" ^ crash_name w
  | VOutOfFuel -> "fuel"

let fixed_of = function "cur" -> true | "legacy" -> false | s -> failwith ("c08: impl: " ^ s)

(* c08 <cur|legacy> schema -> "validate=<ok|err:Class|crash:Why|fuel> rules=<0|1> gen=<ok|crash:Why|-> sizes=name:size,..." *)
let cmd_c08 args =
  match args with
  | impl :: rest ->
    let fixed = fixed_of impl in
    let t = { a = Array.of_list rest; i = 0 } in
    let s = p_schema t in
    let v = validate_gen fixed s in
    let r = rules_ok s in
    let g = (match v with VOk _ -> outcome_str (fun () -> "ok") (gen_lookups s) | _ -> "-") in
    let hex (n : str) = String.concat "" (List.map (fun c -> Printf.sprintf "%02x" (int_of_z c)) n) in
    let sizes = (match v with
      | VOk st -> String.concat "," (List.map (fun (n, z) ->
          hex n ^ ":" ^ (match z with Some z -> string_of_z z | None -> "?")) st)
      | _ -> "") in
    Printf.sprintf "validate=%s rules=%s gen=%s sizes=%s" (outcome_str (fun _ -> "ok") v) (s01 r) g
      (if sizes = "" then "-" else sizes)
  | _ -> failwith "c08: arity"

(* c09inc <cur|legacy> str(main) n href*n nfiles (str(path) n href*n)*nfiles -> loaded|err|diverge *)
let cmd_c09inc args =
  match args with
  | impl :: rest ->
    let fixed = fixed_of impl in
    let t = { a = Array.of_list rest; i = 0 } in
    let main = p_str t in
    let n = p_count t in let incs = p_list n p_str t in
    let nf = p_count t in
    let fs = p_list nf (fun t -> let p = p_str t in let k = p_count t in let l = p_list k p_str t in (p, l)) t in
    (match load_main fixed fs main incs with
     | Loaded -> "loaded" | LoadErr -> "err" | LoadDiverge -> "diverge")
  | _ -> failwith "c09inc: arity"

(* c09len <cur|legacy> is_char oint(length attr) oint(content size) -> ok:<n> | crash:Why *)
let cmd_c09len args =
  match args with
  | [impl; is_char; la; ct] ->
    let o s = if s = "-" then None else Some (z_of_string s) in
    outcome_str (fun z -> "ok:" ^ string_of_z z)
      (const_type_length (fixed_of impl) (bool_of_string01 is_char) (o la) (o ct))
  | _ -> failwith "c09len: arity"

let () = register "c08" cmd_c08; register "c09inc" cmd_c09inc; register "c09len" cmd_c09len
