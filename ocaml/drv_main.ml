open Model
open Drv_common
let () =
  try
    while true do
      let line = input_line stdin in
      let toks = List.filter (fun s -> s <> "") (String.split_on_char ' ' (String.trim line)) in
      (match toks with
       | [] -> print_endline ""
       | cmd :: args ->
         (match Hashtbl.find_opt commands cmd with
          | Some f -> (try print_endline (f args) with Failure m -> print_endline ("ERR " ^ m))
          | None -> print_endline ("ERR unknown command " ^ cmd)))
    done
  with End_of_file -> ()
