open Model
open Drv_common

(* ---------------- C11: constness capability model ---------------- *)
(* Operation names of the line protocol.  The mapping is plumbing: a wrong
   label shows up as a disagreement between the model's table and the probe
   table of the real headers. *)
let c11_vkind = function C11.ValScalar -> "scalar" | C11.ValEnum -> "enum" | C11.ValSet -> "set"
let c11_rkind = function
  | C11.RefArray -> "array" | C11.RefComposite -> "composite" | C11.RefGroup -> "group" | C11.RefData -> "data"
let c11_mkind = function
  | C11.MemValue k -> c11_vkind k | C11.MemConstant -> "constant" | C11.MemRef r -> c11_rkind r
let c11_ckind = function C11.CMemValue k -> c11_vkind k | C11.CMemRef r -> c11_rkind r
let c11_access = function C11.AccDirect -> "direct" | C11.AccByTag -> "bytag"
let c11_saccess = function
  | C11.SetAccDirect -> "direct" | C11.SetAccByTag -> "bytag" | C11.SetAccViaGetByTag -> "viaget"
let c11_cform = function
  | C11.CurPlain -> "plain" | C11.CurInit -> "init" | C11.CurDontMove -> "dontmove"
  | C11.CurInitDontMove -> "initdontmove" | C11.CurSkip -> "skip"
let c11_greader = function
  | C11.GrSize -> "size" | C11.GrSbeSize -> "sbe_size" | C11.GrEmpty -> "empty" | C11.GrMaxSize -> "max_size"
  | C11.GrBegin -> "begin" | C11.GrEnd -> "end" | C11.GrDerefBegin -> "deref_begin" | C11.GrFront -> "front"
  | C11.GrIndex -> "index" | C11.GrBack -> "back"
let c11_gcursor = function
  | C11.GcRange -> "range" | C11.GcSubrange1 -> "subrange1" | C11.GcSubrange2 -> "subrange2"
  | C11.GcBegin -> "begin" | C11.GcEnd -> "end"
let c11_areader = function
  | C11.ArIndex -> "index" | C11.ArFront -> "front" | C11.ArBack -> "back" | C11.ArData -> "data"
  | C11.ArBegin -> "begin" | C11.ArEnd -> "end" | C11.ArRBegin -> "rbegin" | C11.ArREnd -> "rend"
  | C11.ArSize -> "size" | C11.ArEmpty -> "empty" | C11.ArMaxSize -> "max_size" | C11.ArRaw -> "raw"
let c11_eway = function
  | C11.EwIndex -> "index" | C11.EwFront -> "front" | C11.EwBack -> "back" | C11.EwData -> "data"
  | C11.EwBegin -> "begin" | C11.EwRBegin -> "rbegin" | C11.EwRawIndex -> "raw_index"
let c11_smut = function
  | C11.SmAssignString -> "assign_string" | C11.SmAssignStringRange -> "assign_string_range"
  | C11.SmAssignRange -> "assign_range" | C11.SmFill -> "fill" | C11.SmAssignCount -> "assign_count"
  | C11.SmAssignIter -> "assign_iter" | C11.SmAssignIlist -> "assign_ilist"
let c11_dmut = function
  | C11.DmClear -> "clear" | C11.DmResize -> "resize" | C11.DmResizeValue -> "resize_value"
  | C11.DmResizeDefaultInit -> "resize_default_init" | C11.DmPushBack -> "push_back"
  | C11.DmPopBack -> "pop_back" | C11.DmErase -> "erase" | C11.DmEraseRange -> "erase_range"
  | C11.DmInsert -> "insert" | C11.DmInsertCount -> "insert_count" | C11.DmInsertIter -> "insert_iter"
  | C11.DmInsertIlist -> "insert_ilist" | C11.DmAssignCount -> "assign_count"
  | C11.DmAssignIter -> "assign_iter" | C11.DmAssignIlist -> "assign_ilist"
  | C11.DmAssignString -> "assign_string" | C11.DmAssignRange -> "assign_range"
let c11_aclass = function C11.ArrStatic -> "static" | C11.ArrDynamic -> "dynamic"

let c11_name (o : C11.op) : string =
  let j = String.concat ":" in
  match o with
  | C11.CapGet (m, a) -> j ["Get"; c11_mkind m; c11_access a]
  | C11.CapSetV (k, a) -> j ["Set"; c11_vkind k; c11_saccess a]
  | C11.CapSetExplicitArgs k -> j ["SetExplicit"; c11_vkind k]
  | C11.CapCurGet (m, a, w) -> j ["CurGet"; c11_ckind m; c11_access a; c11_cform w]
  | C11.CapCurSet (k, a, w) -> j ["CurSet"; c11_vkind k; c11_access a; c11_cform w]
  | C11.CapFillMessageHeader -> "FillMessageHeader"
  | C11.CapFillGroupHeader -> "FillGroupHeader"
  | C11.CapGetHeader -> "GetHeader"
  | C11.CapAddressof -> "Addressof"
  | C11.CapSizeBytes -> "SizeBytes"
  | C11.CapSizeBytesCursor -> "SizeBytesCursor"
  | C11.CapSizeBytesChecked -> "SizeBytesChecked"
  | C11.CapInitCursor -> "InitCursor"
  | C11.CapInitConstCursor -> "InitConstCursor"
  | C11.CapVisit -> "Visit"
  | C11.CapVisitChildren -> "VisitChildren"
  | C11.CapVisitCursor g -> if g then "VisitCursor:group" else "VisitCursor:level"
  | C11.CapVisitChildrenCursor g -> if g then "VisitChildrenCursor:group" else "VisitChildrenCursor:level"
  | C11.CapMakeView -> "MakeView"
  | C11.CapMakeConstView -> "MakeConstView"
  | C11.CapGroupRead r -> j ["GroupRead"; c11_greader r]
  | C11.CapGroupResize -> "GroupResize"
  | C11.CapGroupClear -> "GroupClear"
  | C11.CapGroupCursor g -> j ["GroupCursor"; c11_gcursor g]
  | C11.CapGroupCursorDeref -> "GroupCursorDeref"
  | C11.CapSArrRead r -> j ["SArrRead"; c11_areader r]
  | C11.CapSArrStrlen -> "SArrStrlen"
  | C11.CapSArrStrlenR -> "SArrStrlenR"
  | C11.CapDArrSbeSize -> "DArrSbeSize"
  | C11.CapSArrMut m -> j ["SArrMut"; c11_smut m]
  | C11.CapDArrRead r -> j ["DArrRead"; c11_areader r]
  | C11.CapDArrMut m -> j ["DArrMut"; c11_dmut m]
  | C11.CapElemWrite (a, w) -> j ["ElemWrite"; c11_aclass a; c11_eway w]

let c11_table : (string, C11.op) Hashtbl.t Lazy.t = lazy (
  let t = Hashtbl.create 512 in
  List.iter (fun o ->
    let n = c11_name o in
    if Hashtbl.mem t n then failwith ("c11: duplicate op name " ^ n);
    Hashtbl.replace t n o) (list_of_ocaml C11.all_ops);
  t)

let c11_op s = match Hashtbl.find_opt (Lazy.force c11_table) s with
  | Some o -> o | None -> failwith ("c11: unknown op " ^ s)
let c11_byte = function "m" -> C11.ByteMut | "c" -> C11.ByteConst | s -> failwith ("c11: byte " ^ s)
let c11_cur = function "m" -> C11.CursorMut | "c" -> C11.CursorConst | s -> failwith ("c11: cursor " ^ s)
let c11_vclass = function
  | "message" -> C11.ViewMessage | "flat_group" -> C11.ViewFlatGroup | "nested_group" -> C11.ViewNestedGroup
  | "entry" -> C11.ViewEntry | "composite" -> C11.ViewComposite | "static_array" -> C11.ViewStaticArray
  | "dyn_array" -> C11.ViewDynArray | s -> failwith ("c11: view class " ^ s)
let c11_form = function
  | "implicit" -> C11.ConvImplicit | "construct" -> C11.ConvConstruct | "assign" -> C11.ConvAssign
  | s -> failwith ("c11: conversion form " ^ s)

(* c11ops -> names of all operations of the model *)
let cmd_c11ops _ = String.concat " " (List.map c11_name (list_of_ocaml C11.all_ops))

(* c11 <cur|legacy> <op> <byte m|c> <cursor m|c>
     -> viable=<0|1> call=<0|1> mut=<0|1> cur=<0|1> res=<-|m|c> *)
let cmd_c11 args =
  match args with
  | [impl; name; b; c] ->
    let o = c11_op name and b = c11_byte b and c = c11_cur c in
    let v, k = (match impl with
      | "cur" -> C11.viable b c o, C11.can_call b c o
      | "legacy" -> C11.Legacy.viable b c o, C11.Legacy.can_call b c o
      | _ -> failwith "impl") in
    let r = (match C11.result_byte o b c with
      | None -> "-" | Some C11.ByteMut -> "m" | Some C11.ByteConst -> "c") in
    Printf.sprintf "viable=%s call=%s mut=%s cur=%s res=%s" (s01 v) (s01 k)
      (s01 (C11.is_mutator o)) (s01 (C11.uses_cursor o)) r
  | _ -> failwith "c11: arity"

(* c11conv view <class> <form> <from> <to> | c11conv cursor <form> <from> <to> -> conv=<0|1> *)
let cmd_c11conv args =
  match args with
  | ["view"; v; f; a; b] ->
    "conv=" ^ s01 (C11.view_conv (c11_vclass v) (c11_form f) (c11_byte a) (c11_byte b))
  | ["cursor"; f; a; b] ->
    "conv=" ^ s01 (C11.cursor_conv (c11_form f) (c11_cur a) (c11_cur b))
  | _ -> failwith "c11conv: arity"

let () = register "c11ops" cmd_c11ops; register "c11" cmd_c11; register "c11conv" cmd_c11conv
