open Model
open Drv_common
open IoModel

(* ---------------- C20: sbeppc output phase against a fault oracle ----------------
   c20gen  <id> <out_dir> <schema_name> <schema.hpp hex> <top hex> <nT> (<name> <hex>)* <nM> (<name> <hex>)*
           the plan schema_compiler::compile() makes (IoIoModel.plan_of); stored under <id>
   c20plan <id> (M:<path> | W:<path>:<hex>)*      an arbitrary plan; stored under <id>
   c20run  <cur|legacy> <id> <fresh|pop> <sched>
           sched = "-" or k:kind,k+:kind,...   kind = enospc|eacces|eio|e<errno>|short<m>
           ("k+" = call k and every later one); "pop" = the disk a fault-free
           run of the same plan leaves
   answer: status=<n> diag=<..> calls=<n> trace=<..> dirs=<..> files=<..>            *)

let name_of_string (s : string) : z list =
  List.init (String.length s) (fun i -> z_of_int (Char.code s.[i]))
let string_of_name (n : z list) : string =
  String.concat "" (List.map (fun b -> String.make 1 (Char.chr (int_of_z b))) n)
let path_of_string (s : string) : z list list =
  if s = "." || s = "" then []
  else List.map name_of_string (List.filter (fun c -> c <> "") (String.split_on_char '/' s))
let string_of_path (p : z list list) : string =
  if p = [] then "." else String.concat "/" (List.map string_of_name p)

let plans : (string, IoModel.plan) Hashtbl.t = Hashtbl.create 16

let describe id pl =
  Hashtbl.replace plans id pl;
  Printf.sprintf "ok steps=%d files=%d" (List.length pl) (List.length (io_plan_files pl))

let rec take_pairs n l acc =
  if n = 0 then (List.rev acc, l)
  else match l with
    | nm :: hx :: r -> take_pairs (n - 1) r ((name_of_string nm, bytes_of_hex hx) :: acc)
    | _ -> failwith "c20gen: arity"

let cmd_c20gen args =
  match args with
  | id :: out :: sname :: shex :: thex :: nt :: rest ->
    let ts, rest = take_pairs (int_of_string nt) rest [] in
    (match rest with
     | nm :: rest ->
       let ms, rest = take_pairs (int_of_string nm) rest [] in
       if rest <> [] then failwith "c20gen: trailing tokens";
       describe id (io_plan_of (path_of_string out) (name_of_string sname) ts
                      (bytes_of_hex shex) ms (bytes_of_hex thex))
     | [] -> failwith "c20gen: arity")
  | _ -> failwith "c20gen: arity"

let cmd_c20plan args =
  match args with
  | id :: toks ->
    let step t =
      match String.split_on_char ':' t with
      | ["M"; p] -> Mkdir (path_of_string p)
      | ["W"; p; hx] -> WriteFile (path_of_string p, bytes_of_hex hx)
      | _ -> failwith ("c20plan: bad step " ^ t) in
    describe id (List.map step toks)
  | _ -> failwith "c20plan: arity"

let fault_of_string (k : string) =
  let n = String.length k in
  if k = "enospc" then io_fail ENOSPC
  else if k = "eacces" then io_fail EACCES
  else if k = "eio" then io_fail EIO
  else if n > 5 && String.sub k 0 5 = "short" then io_short (nat_of_int (int_of_string (String.sub k 5 (n - 5))))
  else if n > 1 && k.[0] = 'e' then io_fail (io_errno_of_code (z_of_string (String.sub k 1 (n - 1))))
  else failwith ("bad fault kind: " ^ k)

let sched_of_string (s : string) =
  if s = "-" then [] else
    List.map (fun e ->
        match String.split_on_char ':' e with
        | [k; kind] ->
          let pers = String.length k > 0 && k.[String.length k - 1] = '+' in
          let k = if pers then String.sub k 0 (String.length k - 1) else k in
          ((nat_of_int (int_of_string k), pers), fault_of_string kind)
        | _ -> failwith ("bad schedule entry: " ^ e))
      (String.split_on_char ',' s)

let res_of_fault f = let c = io_fault_code f in if c = Z0 then "ok" else "E" ^ string_of_z c

let rec is_prefix a b =
  match a, b with
  | [], _ -> true
  | x :: a', y :: b' -> x = y && is_prefix a' b'
  | _ :: _, [] -> false

let join sep l = if l = [] then "-" else String.concat sep l

let cmd_c20run args =
  match args with
  | [impl; id; d0; sched] ->
    let pl = (match Hashtbl.find_opt plans id with Some p -> p | None -> failwith "c20run: unknown plan") in
    let checked = (match impl with "cur" -> true | "legacy" -> false | _ -> failwith "impl") in
    let fresh = io_disk [] [] in
    let disk0 = (match d0 with
        | "fresh" -> fresh
        | "pop" -> io_final (io_run true pl (io_sched []) fresh)
        | _ -> failwith "c20run: disk") in
    let r = io_run checked pl (io_sched (sched_of_string sched)) disk0 in
    let diag = (match io_diag r with
        | None -> "-"
        | Some (DMkdir (p, e)) -> "mkdir:" ^ string_of_path p ^ ":" ^ string_of_z (io_errno_code e)
        | Some (DOpen p) -> "open:" ^ string_of_path p
        | Some (DWrite p) -> "write:" ^ string_of_path p) in
    let tok (c, f) =
      match c with
      | CMkdir p -> "M:" ^ string_of_path p ^ ":" ^ res_of_fault f
      | COpen p -> "O:" ^ string_of_path p ^ ":" ^ res_of_fault f
      | CWrite (p, req, don) ->
        "W:" ^ string_of_path p ^ ":" ^ string_of_int (int_of_nat req) ^ ":" ^
        (if io_fault_code f = Z0 then string_of_int (int_of_nat don) else res_of_fault f)
      | CClose p -> "C:" ^ string_of_path p ^ ":" ^ res_of_fault f in
    let calls = io_calls r in
    let fin = io_final r in
    let want = io_planned pl disk0 in
    let seen = Hashtbl.create 16 in
    let files = List.filter_map (fun (p, _) ->
        let key = string_of_path p in
        if Hashtbl.mem seen key then None else begin
          Hashtbl.add seen key ();
          let exp = (match io_lookup want p with Some c -> c | None -> []) in
          let st = (match io_file_of fin p with
              | None -> "absent"
              | Some c ->
                if c = exp then "full"
                else if is_prefix c exp then "part" ^ string_of_int (List.length c)
                else "other" ^ string_of_int (List.length c)) in
          Some (key ^ "=" ^ st)
        end) (io_plan_files pl) in
    let dirs = List.sort compare (List.map string_of_path (io_dirs fin)) in
    Printf.sprintf "status=%d diag=%s calls=%d trace=%s dirs=%s files=%s"
      (int_of_nat (io_status r)) diag (List.length calls)
      (join ";" (List.map tok calls)) (join "," dirs) (join "," files)
  | _ -> failwith "c20run: arity"

let () =
  register "c20gen" cmd_c20gen; register "c20plan" cmd_c20plan; register "c20run" cmd_c20run
