open Model
open Drv_common

(* ---------------- C12: group iterators / containers ---------------- *)
let c12_out f = function
  | GI.GOk x -> f x
  | GI.GAssert -> "A"
  | GI.GUB -> "UB"

let c12_bits l = String.concat "" (List.map s01 l)

(* selection of the operations the repairs touch:
   "cur"    = repaired code (main definitions),
   "prefix" = /repo before fix_c12.diff: legacy operator+= and operator[], but
              size_bytes already computed in std::size_t,
   "legacy" = everything as before any repair *)
let c12_old impl = impl = "legacy" || impl = "prefix"
let c12_plus impl = if c12_old impl then GI.Legacy.it_plus else GI.it_plus
let c12_minus impl = if c12_old impl then GI.Legacy.it_minus else GI.it_minus
let c12_subscript impl = if c12_old impl then GI.Legacy.it_subscript else GI.it_subscript
let c12_end_it impl = if impl = "legacy" then GI.Legacy.g_end_it else GI.g_end_it
let c12_at impl = if c12_old impl then GI.Legacy.g_at else GI.g_at
let c12_back impl = if impl = "legacy" then GI.Legacy.g_back else GI.g_back
let c12_size_bytes impl = if impl = "legacy" then GI.Legacy.g_size_bytes else GI.g_size_bytes

(* Dimension header.  Every command names the dimension composite of the group:
     S B shape H obl ong
   S / B = numInGroup / blockLength types, shape = which composite of the harness
   schema (only the C++ side dispatches on it: std ext pad rev), H =
   sbepp::size_bytes(dimension), obl / ong = offsets of blockLength / numInGroup
   inside the composite.  c12f / c12g / c12n additionally carry the H header
   bytes (hex, built by the Python side; the C++ side copies them verbatim in
   front of the entries); the model works on the decoded values, so the header
   bytes are decoded here with the model's own reader at the layout's offsets
   and compared with the ng / bl of the case line (ERR-hdr otherwise). *)
let c12_lay h obl ong =
  { GI.h_size = z_of_string h; GI.h_bl = z_of_string obl; GI.h_ng = z_of_string ong }

let c12_grp lay goff ng bl elen =
  { GI.g_ptr = goff; GI.g_end = Z.add goff elen; GI.g_hdr = lay.GI.h_size; GI.g_bl = bl; GI.g_ng = ng }

let c12_hdr_ok s b lay hdr ng bl =
  z_of_int (List.length hdr) = lay.GI.h_size
  && GI.rd b hdr lay.GI.h_bl = Some bl
  && GI.rd s hdr lay.GI.h_ng = Some ng

(* c12f impl chk S B shape H obl ong hdr goff ng bl elen start k (op arg)*k m *)
let cmd_c12f args =
  match args with
  | impl :: chk :: s :: b :: _shape :: h :: obl :: ong :: hdr :: goff :: ng :: bl :: elen :: start :: k :: rest ->
    let chk = bool_of_string01 chk and s = ity_of_string s and b = ity_of_string b in
    let lay = c12_lay h obl ong in
    let g = c12_grp lay (z_of_string goff) (z_of_string ng) (z_of_string bl) (z_of_string elen) in
    if not (c12_hdr_ok s b lay (bytes_of_hex hdr) g.GI.g_ng g.GI.g_bl) then "ERR-hdr" else
    let k = int_of_string k in
    let rec take n l acc =
      if n = 0 then (List.rev acc, l) else
      match l with
      | op :: a :: tl -> take (n - 1) tl ((op, z_of_string a) :: acc)
      | _ -> failwith "c12f: ops" in
    let ops, rest = take k rest [] in
    let m = (match rest with [m] -> z_of_string m | _ -> failwith "c12f: arity") in
    let step it (op, a) =
      GI.gbind it (fun it ->
        match op with
        | "inc" | "pinc" -> GI.it_inc chk s b it
        | "dec" | "pdec" -> GI.it_dec s b it
        | "add" | "adde" | "radd" -> c12_plus impl s b it a
        | "sub" | "sube" -> c12_minus impl s b it a
        | _ -> failwith ("c12f: op " ^ op)) in
    let r =
      GI.gbind (GI.g_begin chk s b g) (fun bg ->
      GI.gbind (c12_end_it impl chk s b g) (fun en ->
      let it0 = if start = "b" then bg else en in
      GI.gbind (List.fold_left step (GI.GOk it0) ops) (fun it ->
      GI.GOk (bg, en, it)))) in
    c12_out (fun (bg, en, it) ->
      let cmp a c = c12_bits [GI.it_eq a c; not (GI.it_eq a c); GI.it_lt a c; GI.it_le a c;
                              GI.it_lt c a; GI.it_le c a] in
      Printf.sprintf "p=%s db=%s de=%s cb=%s ce=%s s=%s"
        (string_of_z (GI.it_deref it))
        (c12_out string_of_z (GI.it_diff s it bg))
        (c12_out string_of_z (GI.it_diff s en it))
        (cmp it bg) (cmp it en)
        (c12_out string_of_z (c12_subscript impl s b it m))) r
  | _ -> failwith "c12f: arity"

(* c12g impl chk S B shape H obl ong hdr goff ng bl elen pos k *)
let cmd_c12g args =
  match args with
  | [impl; chk; s; b; _shape; h; obl; ong; hdr; goff; ng; bl; elen; pos; k] ->
    let chk = bool_of_string01 chk and s = ity_of_string s and b = ity_of_string b in
    let lay = c12_lay h obl ong in
    let g = c12_grp lay (z_of_string goff) (z_of_string ng) (z_of_string bl) (z_of_string elen) in
    if not (c12_hdr_ok s b lay (bytes_of_hex hdr) g.GI.g_ng g.GI.g_bl) then "ERR-hdr" else
    let pos = z_of_string pos and k = nat_of_int (int_of_string k) in
    let z = c12_out string_of_z in
    let ptr o = z (GI.gbind o (fun it -> GI.GOk (GI.it_deref it))) in
    Printf.sprintf "size=%s begin=%s end=%s sb=%s at=%s front=%s back=%s walk=%s"
      (z (GI.g_size chk s b g))
      (ptr (GI.g_begin chk s b g))
      (ptr (c12_end_it impl chk s b g))
      (z (c12_size_bytes impl chk s b g))
      (z (c12_at impl chk s b g pos))
      (z (GI.g_front chk s b g))
      (z (c12_back impl chk s b g))
      (ptr (GI.gbind (GI.g_begin chk s b g) (GI.it_inc_n chk s b k)))
  | _ -> failwith "c12g: arity"

(* c12r kind chk S B shape H obl ong hex p elen count   (kind f|n: same model, both group bases) *)
let cmd_c12r args =
  match args with
  | [_kind; chk; s; b; _shape; h; obl; ong; hex; p; elen; count] ->
    let chk = bool_of_string01 chk and s = ity_of_string s and b = ity_of_string b in
    let lay = c12_lay h obl ong in
    let buf = bytes_of_hex hex and p = z_of_string p in
    let e = Z.add p (z_of_string elen) and count = z_of_string count in
    (match GI.g_resize chk s b lay buf p e count with
     | GI.GOk buf1 ->
       let size = c12_out (fun g -> string_of_z g.GI.g_ng) (GI.read_grp chk s b lay buf1 p e) in
       Printf.sprintf "resize=%s size=%s clear=%s" (hex_of_bytes buf1) size
         (c12_out hex_of_bytes (GI.g_clear chk s b lay buf1 p e))
     | GI.GAssert -> "resize=A size=- clear=-"
     | GI.GUB -> "resize=UB size=- clear=-")
  | _ -> failwith "c12r: arity"

(* c12n chk S B shape H obl ong hdr pre bl cut k (ibl icnt)*k *)
let cmd_c12n args =
  match args with
  | chk :: s :: b :: _shape :: h :: obl :: ong :: hdr :: pre :: bl :: cut :: k :: rest ->
    let chk = bool_of_string01 chk and s = ity_of_string s and b = ity_of_string b in
    let lay = c12_lay h obl ong and hdr = bytes_of_hex hdr in
    let pre = int_of_string pre and bl = int_of_string bl and cut = int_of_string cut in
    let k = int_of_string k in
    let rec take n l acc =
      if n = 0 then List.rev acc else
      match l with
      | ibl :: icnt :: tl -> take (n - 1) tl ((int_of_string ibl, int_of_string icnt) :: acc)
      | _ -> failwith "c12n: entries" in
    let ents = take k rest [] in
    let rep n v = List.init n (fun _ -> z_of_int v) in
    let es = List.map (fun (ibl, icnt) ->
      { GI.ne_block = rep bl 0x11; GI.ne_ibl = z_of_int ibl; GI.ne_icnt = z_of_int icnt;
        GI.ne_ipay = rep (ibl * icnt) 0x22 }) ents in
    if not (c12_hdr_ok s b lay hdr (z_of_int k) (z_of_int bl)) then "ERR-hdr" else
    let full = rep pre 0xEE @ GI.enc_nested hdr es @ rep 3 0x33 in
    let total = List.length full in
    let e = total - cut in
    let buf = List.filteri (fun i _ -> i < e) full in
    let p = z_of_int pre and e = z_of_int e in
    Printf.sprintf "n=%s starts=%s"
      (c12_out string_of_z (GI.n_end_idx chk s b lay buf p e))
      (c12_out (fun l -> if l = [] then "-" else String.concat "," (List.map string_of_z l))
         (GI.n_entries chk s b lay buf p e))
  | _ -> failwith "c12n: arity"

let () =
  register "c12f" cmd_c12f; register "c12g" cmd_c12g;
  register "c12r" cmd_c12r; register "c12n" cmd_c12n
