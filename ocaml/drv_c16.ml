open Model
open Drv_common

(* ---------------- C16 ---------------- *)
let c16_prim = function
  | "char" -> Opt.PChar | "int8" -> Opt.PInt8 | "int16" -> Opt.PInt16 | "int32" -> Opt.PInt32
  | "int64" -> Opt.PInt64 | "uint8" -> Opt.PUint8 | "uint16" -> Opt.PUint16
  | "uint32" -> Opt.PUint32 | "uint64" -> Opt.PUint64 | "float" -> Opt.PFloat
  | "double" -> Opt.PDouble
  | s -> failwith ("bad primitive type: " ^ s)

let c16_ord = function
  | Opt.Less -> "L" | Opt.Equal -> "E" | Opt.Greater -> "G" | Opt.Unordered -> "U"

let c16_ops = function
  | None -> "X"
  | Some c ->
    String.concat "" (List.map s01 [c.Opt.c_eq; c.Opt.c_ne; c.Opt.c_lt; c.Opt.c_le; c.Opt.c_gt; c.Opt.c_ge])

let c16_cmp = function None -> "X" | Some o -> c16_ord o

(* c16 <fix|legacy|spec> <pre20|cxx20> <opt|req> prim min max null l r
     opt -> "dn=<hv(default)><hv(nullopt)> dv=<default> hv= bo= vo= ir= ops= cmp="
     req -> "dv=<default> ir= ops= cmp="
   vo is value_or(l, r); ops are == != < <= > >= as 0/1 (X: does not compile);
   cmp is the three-way result (- before C++20) *)
let cmd_c16 args =
  match args with
  | [impl; std; kind; p; mn; mx; nl; l; r] ->
    let p = c16_prim p in
    let d = { Opt.td_prim = p; Opt.td_min = z_of_string mn; Opt.td_max = z_of_string mx;
              Opt.td_null = z_of_string nl } in
    let l = z_of_string l and r = z_of_string r in
    let cxx20 = (match std with "cxx20" -> true | "pre20" -> false | _ -> failwith "std") in
    if not (Opt.pvalid p l && Opt.pvalid p r) then failwith "operand out of range of the type";
    (match kind with
     | "opt" ->
       let (dn1, dn2, dv, hv, bo, vo, ir, ops, cmp) =
         (match impl with
          | "fix" ->
            (Opt.has_value d (Opt.opt_default d), Opt.has_value d (Opt.opt_nullopt d), Opt.opt_default d,
             Opt.has_value d l, Opt.to_bool d l, Opt.value_or d l r, Opt.opt_in_range d l,
             (if cxx20 then Opt.Cxx20.all d l r else Opt.Pre20.all d l r),
             (if cxx20 then c16_cmp (Opt.Cxx20.cmp3 d l r) else "-"))
          | "legacy" ->
            (Opt.Legacy.has_value d (Opt.Legacy.opt_default d),
             Opt.Legacy.has_value d (Opt.Legacy.opt_nullopt d), Opt.Legacy.opt_default d,
             Opt.Legacy.has_value d l, Opt.Legacy.to_bool d l, Opt.Legacy.value_or d l r,
             Opt.opt_in_range d l,
             (if cxx20 then Opt.Legacy.Cxx20.all d l r else Opt.Legacy.Pre20.all d l r),
             (if cxx20 then c16_cmp (Opt.Legacy.Cxx20.cmp3 d l r) else "-"))
          | "spec" ->
            let o = Opt.spec_cmp d l r in
            (false, false, d.Opt.td_null,
             not (Opt.spec_null d l), not (Opt.spec_null d l), Opt.spec_value_or d l r,
             Opt.spec_in_range d l, Some (Opt.cmp6_of_ord o),
             (if cxx20 then c16_ord o else "-"))
          | _ -> failwith "impl") in
       Printf.sprintf "dn=%s%s dv=%s hv=%s bo=%s vo=%s ir=%s ops=%s cmp=%s"
         (s01 dn1) (s01 dn2) (string_of_z dv) (s01 hv) (s01 bo) (string_of_z vo) (s01 ir)
         (c16_ops ops) cmp
     | "req" ->
       let (dv, ir, ops, cmp) =
         (match impl with
          | "fix" | "legacy" ->
            (Opt.Req.req_default d, Opt.Req.req_in_range d l,
             (if cxx20 then Opt.Req.Cxx20.all d l r else Opt.Req.Pre20.all d l r),
             (if cxx20 then c16_cmp (Opt.Req.Cxx20.cmp3 d l r) else "-"))
          | "spec" ->
            let o = Opt.spec_val_cmp p l r in
            (Z0, Opt.spec_in_range d l, Some (Opt.cmp6_of_ord o), (if cxx20 then c16_ord o else "-"))
          | _ -> failwith "impl") in
       Printf.sprintf "dv=%s ir=%s ops=%s cmp=%s" (string_of_z dv) (s01 ir) (c16_ops ops) cmp
     | _ -> failwith "kind")
  | _ -> failwith "c16: arity"

(* text <-> extracted [ascii list]; blanks travel as '~' *)
let c16_ascii_of_char (c : char) : ascii =
  let n = Char.code c in
  let b i = (n lsr i) land 1 = 1 in
  Ascii (b 0, b 1, b 2, b 3, b 4, b 5, b 6, b 7)

let c16_char_of_ascii (a : ascii) : char =
  match a with
  | Ascii (b0, b1, b2, b3, b4, b5, b6, b7) ->
    let v b i = if b then 1 lsl i else 0 in
    Char.chr (v b0 0 + v b1 1 + v b2 2 + v b3 3 + v b4 4 + v b5 5 + v b6 6 + v b7 7)

let c16_chars_of_text (s : string) : ascii list =
  List.init (String.length s) (fun i -> c16_ascii_of_char (if s.[i] = '~' then ' ' else s.[i]))

let c16_text_of_chars (l : ascii list) : string =
  String.concat "" (List.map (fun a -> let c = c16_char_of_ascii a in
                                 String.make 1 (if c = ' ' then '~' else c)) l)

let c16_which = function
  | "min" -> Lit.WMin | "max" -> Lit.WMax | "null" -> Lit.WNull | _ -> failwith "which"

(* c16lit prim text -> "ok <z>" | "illformed" | "unsupported" : value of `value_type{text}` *)
let cmd_c16lit args =
  match args with
  | [p; text] ->
    (match Lit.denote_chars (c16_prim p) (c16_chars_of_text text) with
     | Lit.Ok z -> "ok " ^ string_of_z z
     | Lit.IllFormed -> "illformed"
     | Lit.Unsupported -> "unsupported")
  | _ -> failwith "c16lit: arity"

(* c16gen <fix|legacy> <min|max|null> prim <explicit text | -> -> the expression sbeppc prints *)
let cmd_c16gen args =
  match args with
  | [impl; w; p; e] ->
    let e = if e = "-" then None else Some (c16_chars_of_text e) in
    let f = (match impl with
        | "fix" -> Lit.gen_value_chars | "legacy" -> Lit.LegacyGen.gen_value_chars
        | _ -> failwith "impl") in
    "text " ^ c16_text_of_chars (f (c16_which w) (c16_prim p) e)
  | _ -> failwith "c16gen: arity"

(* c16fc prim text -> "some <z>" | "none" : what the schema validator accepts *)
let cmd_c16fc args =
  match args with
  | [p; text] ->
    (match Lit.from_chars (c16_prim p) (c16_chars_of_text text) with
     | Some z -> "some " ^ string_of_z z
     | None -> "none")
  | _ -> failwith "c16fc: arity"

(* c16builtin prim -> "min=<z> max=<z> null=<z>" of the built-in type *)
let cmd_c16builtin args =
  match args with
  | [p] ->
    let p = c16_prim p in
    Printf.sprintf "min=%s max=%s null=%s" (string_of_z (Lit.builtin_val Lit.WMin p))
      (string_of_z (Lit.builtin_val Lit.WMax p)) (string_of_z (Lit.builtin_val Lit.WNull p))
  | _ -> failwith "c16builtin: arity"

let () =
  register "c16" cmd_c16; register "c16lit" cmd_c16lit; register "c16gen" cmd_c16gen;
  register "c16fc" cmd_c16fc; register "c16builtin" cmd_c16builtin
