(* driver.ml — line-oriented front end for the extracted Coq model (model.ml).
   Every input line is "<command> <args...>"; one output line per input line.
   Integers travel as decimal strings and are converted to the extracted
   inductive [z] type here (no OCaml int in the model). *)
open Model

let z_of_int (i : int) : z =
  let rec pos n = if n = 1 then Coq_xH else if n land 1 = 0 then Coq_xO (pos (n lsr 1)) else Coq_xI (pos (n lsr 1)) in
  if i = 0 then Z0 else if i > 0 then Zpos (pos i) else Zneg (pos (-i))

let z10 = z_of_int 10

let z_of_string (s : string) : z =
  let neg = String.length s > 0 && s.[0] = '-' in
  let start = if neg then 1 else 0 in
  let acc = ref Z0 in
  for i = start to String.length s - 1 do
    let d = Char.code s.[i] - 48 in
    if d < 0 || d > 9 then failwith ("bad integer: " ^ s);
    acc := Z.add (Z.mul !acc z10) (z_of_int d)
  done;
  if neg then Z.opp !acc else !acc

let rec int_of_pos = function Coq_xH -> 1 | Coq_xO p -> 2 * int_of_pos p | Coq_xI p -> 2 * int_of_pos p + 1
let int_of_z = function Z0 -> 0 | Zpos p -> int_of_pos p | Zneg p -> - (int_of_pos p)

let string_of_z (x : z) : string =
  match x with
  | Z0 -> "0"
  | _ ->
    let neg, a = (match x with Zneg p -> true, Zpos p | _ -> false, x) in
    let buf = Buffer.create 24 in
    let cur = ref a in
    let digits = ref [] in
    while !cur <> Z0 do
      let (q, r) = Z.div_eucl !cur z10 in
      digits := int_of_z r :: !digits;
      cur := q
    done;
    if neg then Buffer.add_char buf '-';
    List.iter (fun d -> Buffer.add_char buf (Char.chr (48 + d))) !digits;
    Buffer.contents buf

let ity_of_string = function
  | "u8" -> U8 | "u16" -> U16 | "u32" -> U32 | "u64" -> U64
  | "i8" -> I8 | "i16" -> I16 | "i32" -> I32 | "i64" -> I64
  | s -> failwith ("bad type: " ^ s)

let bool_of_string01 = function "0" -> false | "1" -> true | s -> failwith ("bad bool: " ^ s)
let s01 b = if b then "1" else "0"
let opt f = function None -> "UB" | Some x -> f x

let rec list_of_ocaml = function [] -> [] | x :: xs -> x :: list_of_ocaml xs


(* byte buffers travel as lower-case hex strings ("-" = empty) and are lists of
   extracted [z] (each 0..255) in the model *)
let bytes_of_hex (s : string) : z list =
  if s = "-" then [] else begin
    let v c = if c <= '9' then Char.code c - 48 else (Char.code c lor 32) - 87 in
    let n = String.length s / 2 in
    List.init n (fun i -> z_of_int (v s.[2*i] * 16 + v s.[2*i+1]))
  end

let hex_of_bytes (l : z list) : string =
  if l = [] then "-" else
  String.concat "" (List.map (fun b -> Printf.sprintf "%02x" (int_of_z b)) l)

let n_of_string (s : string) : n =
  match z_of_string s with Z0 -> N0 | Zpos p -> Npos p | Zneg _ -> failwith "negative N"
let string_of_n (x : n) : string =
  match x with N0 -> "0" | Npos p -> string_of_z (Zpos p)

let rec nat_of_int (i : int) : nat = if i <= 0 then O else S (nat_of_int (i - 1))
let rec int_of_nat = function O -> 0 | S n -> 1 + int_of_nat n

let commands : (string, string list -> string) Hashtbl.t = Hashtbl.create 64
let register name f = Hashtbl.replace commands name f
