(* Dyn.v — model of sbepp::detail::dynamic_array_ref<Byte,Value,Length,E>
   (sbepp.hpp), the view used for <data> members.

   Concrete state: the whole byte buffer [list Z]; the view occupies
   [voff, voff+vcap) (vcap = end_ptr - addressof), its length prefix is
   [szof vT] bytes in byte order [vbe] at [voff], the payload follows.
   Pointers/iterators are absolute offsets [Z] into the buffer.  Every
   operation is transcribed statement by statement in a state/outcome monad:
     Ok        normal return
     AssertFail  SBEPP_ASSERT / SBEPP_SIZE_CHECK failed (only when [vchk])
     Fault     access outside the whole buffer / undefined arithmetic
   Integer arithmetic the C++ performs in [size_type] / [int] / [size_t] /
   [ptrdiff_t] goes through CInt.  std::copy / std::copy_backward /
   std::fill_n / std::copy_n on byte pointers are memmove/memset (read all,
   then write), which is what libstdc++/libc++ emit for trivially copyable
   one-byte types.

   [exec_gen false] models the code with the repaired erase(first,last)
   assertion; [Legacy.exec] the code as it is in the unfixed tree.

   Only definitions (extracted to OCaml); proofs are in DynProofs.v. *)
From Coq Require Import ZArith List Bool.
From Sbepp Require Import CInt.
Import ListNotations.
Local Open Scope Z_scope.

(* ---------- outcome monad over the buffer ---------- *)
Inductive outcome (A : Type) : Type :=
| Ok (a : A)
| AssertFail
| Fault.
Arguments Ok {A} a.
Arguments AssertFail {A}.
Arguments Fault {A}.

Definition M (A : Type) : Type := list Z -> outcome (A * list Z).

Definition ret {A} (a : A) : M A := fun b => Ok (a, b).
Definition bind {A B} (m : M A) (f : A -> M B) : M B :=
  fun b => match m b with
           | Ok (a, b') => f a b'
           | AssertFail => AssertFail
           | Fault => Fault
           end.
Notation "x <- m ;; f" := (bind m (fun x => f))
  (at level 61, m at next level, right associativity).
Notation "m ;;; f" := (bind m (fun _ => f))
  (at level 61, right associativity).

Definition lift {A} (o : option A) : M A :=
  fun b => match o with Some a => Ok (a, b) | None => Fault end.

(* ---------- buffers ---------- *)
Definition zlen (l : list Z) : Z := Z.of_nat (length l).

Definition slice (b : list Z) (o n : Z) : list Z :=
  firstn (Z.to_nat n) (skipn (Z.to_nat o) b).

Definition splice (b : list Z) (o : Z) (bs : list Z) : list Z :=
  firstn (Z.to_nat o) b ++ bs ++ skipn (Z.to_nat o + length bs) b.

(* an access of n bytes at o is inside the buffer (a zero-length access
   touches nothing) *)
Definition inb (b : list Z) (o n : Z) : bool :=
  (n =? 0) || ((0 <=? o) && (0 <=? n) && (o + n <=? zlen b)).

Definition rd (o n : Z) : M (list Z) :=
  fun b => if inb b o n then Ok (slice b o n, b) else Fault.

Definition wr (o : Z) (bs : list Z) : M unit :=
  fun b => if inb b o (zlen bs)
           then Ok (tt, splice b o bs)
           else Fault.

(* ---------- get_primitive / set_primitive ---------- *)
Fixpoint enc_le (n : nat) (v : Z) : list Z :=
  match n with
  | O => []
  | S k => (v mod 256) :: enc_le k (v / 256)
  end.

Fixpoint dec_le (l : list Z) : Z :=
  match l with
  | [] => 0
  | x :: r => x + 256 * dec_le r
  end.

Definition enc (be : bool) (n : nat) (v : Z) : list Z :=
  if be then rev (enc_le n v) else enc_le n v.

Definition dec (be : bool) (l : list Z) : Z :=
  dec_le (if be then rev l else l).

(* ---------- the view ---------- *)
Record view := mkView {
  vT : ity;       (* size_type: U8 / U16 / U32 / U64 *)
  vbe : bool;     (* big endian *)
  voff : Z;       (* addressof *)
  vcap : Z;       (* end_ptr - addressof *)
  vchk : bool     (* SBEPP_SIZE_CHECKS_ENABLED *)
}.

Definition szof (T : ity) : Z :=
  match T with
  | U8 | I8 => 1 | U16 | I16 => 2 | U32 | I32 => 4 | U64 | I64 => 8
  end.

(* sbepp::uintN_t::max_value() = numeric_limits::max() - 1 *)
Definition max_size (T : ity) : Z := tmax T - 1.

Section Ops.
  Variable legacy : bool.
  Variable v : view.

  Let T := vT v.
  Let L := szof (vT v).
  Let off := voff v.

  (* SBEPP_ASSERT(expr): expr is evaluated only when checks are enabled *)
  Definition sbepp_assert (c : M bool) : M unit :=
    if vchk v
    then x <- c ;; (fun b => if x then Ok (tt, b) else AssertFail)
    else ret tt.

  (* SBEPP_SIZE_CHECK(begin, end, 0, n): begin && n <= size_t(end - begin);
     begin is never null here *)
  Definition size_check (n : Z) : M unit :=
    sbepp_assert (ret (n <=? wrap U64 (vcap v))).

  (* size(): detail::get_value<size_type,size_type,E>(view, 0) *)
  Definition get_size : M Z :=
    size_check L ;;;
    bs <- rd off L ;;
    ret (dec (vbe v) bs).

  Definition data_unchecked : M Z :=
    size_check L ;;; ret (off + L).

  (* SBEPP_SIZE_CHECK(.., sizeof(size_type) + size()) then data_unchecked *)
  Definition data_checked : M Z :=
    sbepp_assert (n <- get_size ;; tot <- lift (cadd U64 T L n) ;;
                  ret (tot <=? wrap U64 (vcap v))) ;;;
    data_unchecked.

  Definition begin_ : M Z := data_checked.
  Definition end_ : M Z := p <- begin_ ;; n <- get_size ;; ret (p + n).

  (* resize(count, default_init) *)
  Definition resize_di (count : Z) : M unit :=
    tot <- lift (cadd U64 T L count) ;;
    size_check tot ;;;
    wr off (enc (vbe v) (Z.to_nat L) count).

  (* operator[](pos): SBEPP_ASSERT(pos < size()); return *(data() + pos) *)
  Definition index (pos : Z) : M Z :=
    sbepp_assert (n <- get_size ;; ret (pos <? n)) ;;;
    p <- data_checked ;;
    ret (p + pos).

  (* std::copy(s, e, d) / std::copy_backward(s, e, dlast) on byte pointers *)
  Definition copy (s e d : Z) : M unit :=
    if e - s <? 0 then (fun _ => Fault) else
    bs <- rd s (e - s) ;; wr d bs.

  Definition copy_backward (s e dlast : Z) : M unit :=
    if e - s <? 0 then (fun _ => Fault) else
    bs <- rd s (e - s) ;; wr (dlast - (e - s)) bs.

  Definition push_back (x : Z) : M unit :=
    cs <- get_size ;;
    s1 <- lift (cadd T I32 cs 1) ;;
    resize_di (ccast T s1) ;;;
    p <- index cs ;;
    wr p [x] ;;;
    ret tt.

  Definition pop_back : M unit :=
    sbepp_assert (n <- get_size ;; ret (negb (n =? 0))) ;;;
    n <- get_size ;;
    s1 <- lift (csub T I32 n 1) ;;
    resize_di (ccast T s1) ;;;
    ret tt.

  (* SBEPP_ASSERT(pos >= begin() && pos < end()) *)
  Definition in_range_excl (pos : Z) : M bool :=
    b0 <- begin_ ;;
    if b0 <=? pos then (e <- end_ ;; ret (pos <? e)) else ret false.

  (* SBEPP_ASSERT(pos >= begin() && pos <= end()) *)
  Definition in_range_incl (pos : Z) : M bool :=
    b0 <- begin_ ;;
    if b0 <=? pos then (e <- end_ ;; ret (pos <=? e)) else ret false.

  Definition erase1 (pos : Z) : M Z :=
    sbepp_assert (in_range_excl pos) ;;;
    e <- end_ ;;
    copy (pos + 1) e pos ;;;
    n <- get_size ;;
    s1 <- lift (csub T I32 n 1) ;;
    resize_di (ccast T s1) ;;;
    ret pos.

  (* unfixed: SBEPP_ASSERT(first >= begin() && last < end());
     repaired: SBEPP_ASSERT(first >= begin() && first <= last && last <= end()) *)
  Definition erase_range_cond (first last : Z) : M bool :=
    b0 <- begin_ ;;
    if b0 <=? first then
      (if legacy
       then (e <- end_ ;; ret (last <? e))
       else (if first <=? last then (e <- end_ ;; ret (last <=? e)) else ret false))
    else ret false.

  Definition erase_range (first last : Z) : M Z :=
    sbepp_assert (erase_range_cond first last) ;;;
    e <- end_ ;;
    copy last e first ;;;
    n <- get_size ;;
    s1 <- lift (csub T I64 n (last - first)) ;;
    resize_di (ccast T s1) ;;;
    ret first.

  Definition insert1 (pos x : Z) : M Z :=
    sbepp_assert (in_range_incl pos) ;;;
    old_end <- end_ ;;
    n <- get_size ;;
    s1 <- lift (cadd T I32 n 1) ;;
    resize_di (ccast T s1) ;;;
    e <- end_ ;;
    copy_backward pos old_end e ;;;
    wr pos [x] ;;;
    ret pos.

  Definition insert_n (pos count x : Z) : M Z :=
    sbepp_assert (in_range_incl pos) ;;;
    old_end <- end_ ;;
    n <- get_size ;;
    s1 <- lift (cadd T T n count) ;;
    resize_di (ccast T s1) ;;;
    e <- end_ ;;
    copy_backward pos old_end e ;;;
    wr pos (repeat x (Z.to_nat count)) ;;;
    ret pos.

  (* insert_impl(pos, first, last, std::forward_iterator_tag) *)
  Definition insert_fwd_impl (pos : Z) (ys : list Z) : M Z :=
    old_end <- end_ ;;
    n <- get_size ;;
    s1 <- lift (cadd T I64 n (zlen ys)) ;;
    resize_di (ccast T s1) ;;;
    e <- end_ ;;
    copy_backward pos old_end e ;;;
    wr pos ys ;;;
    ret pos.

  (* insert_impl(pos, first, last, std::input_iterator_tag) *)
  Fixpoint insert_inp_loop (out : Z) (ys : list Z) : M unit :=
    match ys with
    | [] => ret tt
    | y :: r => insert1 out y ;;; insert_inp_loop (out + 1) r
    end.

  Definition insert_fwd (pos : Z) (ys : list Z) : M Z :=
    sbepp_assert (in_range_incl pos) ;;;
    insert_fwd_impl pos ys.

  Definition insert_inp (pos : Z) (ys : list Z) : M Z :=
    sbepp_assert (in_range_incl pos) ;;;
    insert_inp_loop pos ys ;;;
    ret pos.

  (* for(auto i = old_size; i != count; i++) operator[](i) = x; *)
  Fixpoint fill_loop (k : nat) (i x : Z) : M unit :=
    match k with
    | O => ret tt
    | S k' => p <- index i ;; wr p [x] ;;; fill_loop k' (ccast T (i + 1)) x
    end.

  Definition resize_val (count x : Z) : M unit :=
    old <- get_size ;;
    resize_di count ;;;
    (if count >? old then fill_loop (Z.to_nat (count - old)) old x else ret tt) ;;;
    ret tt.

  Definition assign_n (count x : Z) : M unit :=
    resize_di count ;;;
    b0 <- begin_ ;;
    wr b0 (repeat x (Z.to_nat count)) ;;;
    ret tt.

  (* assign(first,last) / assign_range: copy first, size check afterwards *)
  Definition assign_it (ys : list Z) : M unit :=
    p <- data_unchecked ;;
    wr p ys ;;;
    resize_di (ccast T (zlen ys)) ;;;
    ret tt.

  Definition assign_il (ys : list Z) : M unit :=
    tot <- lift (cadd U64 U64 L (zlen ys)) ;;
    size_check tot ;;;
    assign_it ys.

  (* ys = the characters before the terminating NUL *)
  Definition assign_string (ys : list Z) : M unit :=
    resize_di (ccast T (zlen ys)) ;;;
    b0 <- begin_ ;;
    wr b0 ys ;;;
    ret tt.
End Ops.

(* ---------- operations as data ---------- *)
(* positions are element indices relative to begin() (= voff + szof) and may
   be any integer; counts are values of size_type *)
Inductive op :=
| PushBack (x : Z)
| PopBack
| Erase1 (pos : Z)
| EraseR (first last : Z)
| Insert1 (pos x : Z)
| InsertN (pos count x : Z)
| InsertFwd (pos : Z) (ys : list Z)     (* forward/random-access iterators *)
| InsertInp (pos : Z) (ys : list Z)     (* single-pass input iterators *)
| InsertIl (pos : Z) (ys : list Z)      (* initializer_list *)
| Resize (count : Z)
| ResizeV (count x : Z)
| ResizeDI (count : Z)
| AssignN (count x : Z)
| AssignIt (ys : list Z)
| AssignIl (ys : list Z)
| AssignStr (ys : list Z)
| AssignRange (ys : list Z)
| Clear.

Definition dstart (v : view) : Z := voff v + szof (vT v).

Definition void_ (m : M unit) : M (option Z) := m ;;; ret None.
Definition iter_ (v : view) (m : M Z) : M (option Z) :=
  p <- m ;; ret (Some (p - dstart v)).

Definition exec_gen (legacy : bool) (v : view) (o : op) : M (option Z) :=
  let D := dstart v in
  match o with
  | PushBack x => void_ (push_back v x)
  | PopBack => void_ (pop_back v)
  | Erase1 p => iter_ v (erase1 v (D + p))
  | EraseR f l => iter_ v (erase_range legacy v (D + f) (D + l))
  | Insert1 p x => iter_ v (insert1 v (D + p) x)
  | InsertN p c x => iter_ v (insert_n v (D + p) c x)
  | InsertFwd p ys => iter_ v (insert_fwd v (D + p) ys)
  | InsertInp p ys => iter_ v (insert_inp v (D + p) ys)
  | InsertIl p ys => iter_ v (insert_fwd v (D + p) ys)
  | Resize c => void_ (resize_val v c 0)
  | ResizeV c x => void_ (resize_val v c x)
  | ResizeDI c => void_ (resize_di v c)
  | AssignN c x => void_ (assign_n v c x)
  | AssignIt ys => void_ (assign_it v ys)
  | AssignIl ys => void_ (assign_il v ys)
  | AssignStr ys => void_ (assign_string v ys)
  | AssignRange ys => void_ (assign_it v ys)
  | Clear => void_ (resize_di v 0)
  end.

Definition exec := exec_gen false.

Module Legacy.
  Definition exec := exec_gen true.
End Legacy.

(* run a sequence; results of the individual calls in order *)
Fixpoint exec_seq (ex : op -> M (option Z)) (ops : list op) : M (list (option Z)) :=
  match ops with
  | [] => ret []
  | o :: r => x <- ex o ;; xs <- exec_seq ex r ;; ret (x :: xs)
  end.

(* ---------- abstraction ---------- *)
Definition size_of (v : view) (b : list Z) : Z :=
  dec (vbe v) (slice b (voff v) (szof (vT v))).

Definition abs (v : view) (b : list Z) : list Z :=
  slice b (dstart v) (size_of v b).

(* ---------- the specification: std::vector ---------- *)
Definition zfirstn (n : Z) (l : list Z) := firstn (Z.to_nat n) l.
Definition zskipn (n : Z) (l : list Z) := skipn (Z.to_nat n) l.
Definition zrepeat (x n : Z) := repeat x (Z.to_nat n).

Definition vec_insert (xs : list Z) (p : Z) (ys : list Z) : list Z :=
  zfirstn p xs ++ ys ++ zskipn p xs.

(* [fresh] supplies the values of default-initialised elements (only
   resize(count, default_init) that grows uses it); it is padded/truncated to
   the needed length *)
Definition vec_resize (xs : list Z) (c : Z) (fill : list Z) : list Z :=
  if c <=? zlen xs then zfirstn c xs
  else xs ++ zfirstn (c - zlen xs) (fill ++ zrepeat 0 (c - zlen xs)).

Definition vec_step (fresh : list Z) (xs : list Z) (o : op) : list Z * option Z :=
  match o with
  | PushBack x => (xs ++ [x], None)
  | PopBack => (zfirstn (zlen xs - 1) xs, None)
  | Erase1 p => (zfirstn p xs ++ zskipn (p + 1) xs, Some p)
  | EraseR f l => (zfirstn f xs ++ zskipn l xs, Some f)
  | Insert1 p x => (vec_insert xs p [x], Some p)
  | InsertN p c x => (vec_insert xs p (zrepeat x c), Some p)
  | InsertFwd p ys | InsertInp p ys | InsertIl p ys => (vec_insert xs p ys, Some p)
  | Resize c => (vec_resize xs c [], None)
  | ResizeV c x => (vec_resize xs c (zrepeat x c), None)
  | ResizeDI c => (vec_resize xs c fresh, None)
  | AssignN c x => (zrepeat x c, None)
  | AssignIt ys | AssignIl ys | AssignStr ys | AssignRange ys => (ys, None)
  | Clear => ([], None)
  end.

(* size after the operation (independent of contents) *)
Definition new_size (n : Z) (o : op) : Z :=
  match o with
  | PushBack _ => n + 1
  | PopBack => n - 1
  | Erase1 _ => n - 1
  | EraseR f l => n - (l - f)
  | Insert1 _ _ => n + 1
  | InsertN _ c _ => n + c
  | InsertFwd _ ys | InsertInp _ ys | InsertIl _ ys => n + zlen ys
  | Resize c | ResizeV c _ | ResizeDI c | AssignN c _ => c
  | AssignIt ys | AssignIl ys | AssignStr ys | AssignRange ys => zlen ys
  | Clear => 0
  end.

Definition is_byte (x : Z) : bool := (0 <=? x) && (x <? 256).
Definition all_bytes (l : list Z) : bool := forallb is_byte l.

(* the call is valid for a std::vector of size n whose max_size() is the
   max_value of the length type and whose capacity is what the buffer behind
   the view can hold; element values are values of a one-byte type *)
Definition fits (v : view) (m : Z) : bool :=
  (0 <=? m) && (m <=? max_size (vT v)) && (szof (vT v) + m <=? vcap v).

Definition valid (v : view) (n : Z) (o : op) : bool :=
  match o with
  | PushBack x => is_byte x && fits v (n + 1)
  | PopBack => 0 <? n
  | Erase1 p => (0 <=? p) && (p <? n)
  | EraseR f l => (0 <=? f) && (f <=? l) && (l <=? n)
  | Insert1 p x => (0 <=? p) && (p <=? n) && is_byte x && fits v (n + 1)
  | InsertN p c x => (0 <=? p) && (p <=? n) && (0 <=? c) && is_byte x && fits v (n + c)
  | InsertFwd p ys | InsertInp p ys | InsertIl p ys =>
      (0 <=? p) && (p <=? n) && all_bytes ys && fits v (n + zlen ys)
  | Resize c | ResizeDI c => fits v c
  | ResizeV c x | AssignN c x => is_byte x && fits v c
  | AssignIt ys | AssignIl ys | AssignRange ys => all_bytes ys && fits v (zlen ys)
  | AssignStr ys => all_bytes ys && negb (existsb (Z.eqb 0) ys) && fits v (zlen ys)
  | Clear => true
  end.

(* sizes along a run, validity of a whole run, the largest size reached *)
Fixpoint seq_valid (v : view) (n : Z) (ops : list op) : bool :=
  match ops with
  | [] => true
  | o :: r => valid v n o && seq_valid v (new_size n o) r
  end.

Fixpoint peak_size (n : Z) (ops : list op) : Z :=
  match ops with
  | [] => n
  | o :: r => Z.max n (peak_size (new_size n o) r)
  end.

Fixpoint vec_run (oracle : list (list Z)) (xs : list Z) (ops : list op)
  : list Z * list (option Z) :=
  match ops with
  | [] => (xs, [])
  | o :: r =>
      let (xs1, x) := vec_step (hd [] oracle) xs o in
      let (xs2, rs) := vec_run (tl oracle) xs1 r in
      (xs2, x :: rs)
  end.

(* every byte outside [voff, voff + szof + m) is the same in b and b' *)
Definition frame (v : view) (b b' : list Z) (m : Z) : Prop :=
  length b' = length b /\
  forall i, 0 <= i -> (i < voff v \/ voff v + szof (vT v) + m <= i) ->
    nth (Z.to_nat i) b' 0 = nth (Z.to_nat i) b 0.

(* the view lies inside the buffer, the buffer is made of bytes and can hold
   size() elements (the documented general precondition of the class) *)
Definition wf (v : view) (b : list Z) : bool :=
  (0 <=? voff v) && (szof (vT v) <=? vcap v) && (voff v + vcap v <=? zlen b) &&
  (zlen b <? 2 ^ 64) && all_bytes b &&
  (szof (vT v) + size_of v b <=? vcap v) &&
  (match vT v with U8 | U16 | U32 | U64 => true | _ => false end).
