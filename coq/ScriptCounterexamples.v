(* ScriptCounterexamples.v — statements of ScriptSpec.v that are false as
   written, with the witnesses. *)
From Coq Require Import ZArith List Bool Lia.
From Sbepp Require Import CInt Bytes Msg Layout Wire MsgSpec Cursor CursorSpec Checked ScriptSpec.
Import ListNotations.
Local Open Scope Z_scope.

(* ================================================================== *)
(* C06: stmt_checked_exact needs [bytes_ok b]                          *)
(* ================================================================== *)

(* The buffer of stmt_checked_exact is an arbitrary [list Z].  On an element
   outside [0,256) a header value decodes to a negative number; the visitor's
   flat-group test (rem / blockLength < numInGroup) and the exact arithmetic of
   [fit_groups] (pos + dim + numInGroup * blockLength <= len) then disagree.

   message: 2-byte header (blockLength : uint16), one flat group whose
   dimension is (blockLength : uint8, numInGroup : uint8); buffer
   [0;0; -1;5]: group blockLength = -1, numInGroup = 5. *)
Definition cx_dim : dim :=
  {| d_size := 2; d_bl_off := 0; d_bl_t := U8; d_n_off := 1; d_n_t := U8; d_fills := [] |}.
Definition cx_msg : message :=
  {| m_hdr_size := 2; m_bl_off := 0; m_bl_t := U16; m_cbl := 0; m_fills := [];
     m_level := Level [] (GCons cx_dim 0 (Level [] GNil []) GNil) [] |}.
Definition cx_cl : clevel := CLevel [] (CGCons (CLevel [] CGNil) CGNil).
Definition cx_buf : list Z := [0; 0; -1; 5].

Example cx_values :
  size_bytes_checked false cx_buf 5 cx_msg cx_cl = CkInvalid 1 /\
  described_fit false cx_buf cx_msg = Some (-1) /\
  bytes_ok cx_buf = false.
Proof. vm_compute. repeat split; reflexivity. Qed.

Theorem checked_exact_false_as_written : ~ stmt_checked_exact.
Proof.
  intros H. specialize (H false cx_buf cx_msg cx_cl 5%nat).
  assert (Hs : is_signed (m_bl_t cx_msg) = false) by reflexivity.
  assert (Hbo : 0 <= m_bl_off cx_msg) by (vm_compute; discriminate).
  assert (Hbe : m_bl_off cx_msg + tbytes (m_bl_t cx_msg) <= m_hdr_size cx_msg)
    by (vm_compute; discriminate).
  assert (Hwt : wf_table_level (m_level cx_msg)).
  { cbn. repeat split; try constructor; try reflexivity; try (vm_compute; discriminate). }
  assert (Hwc : wf_clevel (m_hdr_size cx_msg) (m_level cx_msg) cx_cl) by (cbn; tauto).
  assert (Hlen : len cx_buf < 2 ^ 63) by (vm_compute; reflexivity).
  assert (Hfuel : (length cx_buf < 5)%nat) by (cbn; lia).
  specialize (H Hs Hbo Hbe Hwt Hwc Hlen Hfuel).
  vm_compute in H. discriminate H.
Qed.
Print Assumptions checked_exact_false_as_written.
