(* IoModel.v — model of sbeppc's output phase (C20).

   What is transcribed (sbeppc/src/sbepp/sbeppc):
     schema_compiler::compile()        create_output_dirs(); compile_types();
                                       make_tags_header(); compile_messages();
                                       make_top_header()           -> [plan_of]
     fs_provider::create_directories   std::filesystem::create_directories(p, ec);
                                       if(ec) throw_error(...)      -> [create_directories]
     fs_provider::write_file           std::ofstream os{path, binary|out};
                                       if(!os) throw_error("can't open file");
                                       os << data;
                                       [fixed code only:] os.close();
                                       if(!os) throw_error("can't write file");
                                                                     -> [write_file]
     main()                            catch(sbe_error) { reporter.error(what); return 1; }
                                       return 0;                     -> [run]

   The operating system is a FAULT ORACLE: the k-th primitive call (mkdir,
   open, write, close; numbered from 0 in the order they are made) is answered
   by [orc k]:  [NoFault] = the call does all it was asked, [Fail e] = it
   returns -1 / NULL with errno e and has no effect on the disk (a failing
   close still releases the descriptor; the data written before stays),
   [Short m] = a write(2)/writev(2) of n >= 2 bytes accepts only
   max 1 (min m (n-1)) bytes (any other call ignores [Short]).  "Natural"
   failures of the environment (ENOENT because a parent is missing, EISDIR,
   EROFS, quota ...) are oracle answers like any other: the theorems quantify
   over every oracle.

   libstdc++ behaviour that is part of the model (basic_file_stdio.cc /
   fstream.tcc, GCC 12): [std::filesystem::create_directories] stats the path
   and walks up to the first existing ancestor, then mkdir(2)s the missing
   directories top-down and stops at the first failure; [basic_filebuf] writes
   the whole string with ONE write/writev call (at [<<] when it is larger than
   the 8 kB stream buffer, otherwise when the buffer is flushed by
   close()/the destructor) and [xwrite]/[xwritev] retry after a short write
   until everything is written or a call fails; after a failed write nothing
   is retried and close(2) is still called.  The stream destructor swallows
   every error; [ofstream::close()] reports them in the stream state.

   [Module Legacy] is the code before the repair: nothing is checked after
   [<<], the destructor closes.  Definitions only; stdlib only; extractable. *)
From Coq Require Import ZArith List Bool Arith.
Import ListNotations.

(* ---------------------------------------------------------------- paths *)
Definition name := list Z.          (* one path component, as bytes *)
Definition path := list name.       (* components, outermost first; [] = the root
                                       of the scratch area, which always exists *)
Definition content := list Z.       (* file content, bytes *)

Fixpoint list_eqb {A : Type} (eqb : A -> A -> bool) (a b : list A) : bool :=
  match a, b with
  | [], [] => true
  | x :: a', y :: b' => eqb x y && list_eqb eqb a' b'
  | _, _ => false
  end.
Definition name_eqb : name -> name -> bool := list_eqb Z.eqb.
Definition path_eqb : path -> path -> bool := list_eqb name_eqb.

(* ----------------------------------------------------------------- disk *)
Record disk := mkDisk { dirs : list path; files : list (path * content) }.

Definition empty_disk : disk := mkDisk [] [].

Fixpoint lookup (fs : list (path * content)) (p : path) : option content :=
  match fs with
  | [] => None
  | (q, c) :: r => if path_eqb q p then Some c else lookup r p
  end.

Fixpoint set_file (fs : list (path * content)) (p : path) (c : content)
  : list (path * content) :=
  match fs with
  | [] => [(p, c)]
  | (q, d) :: r => if path_eqb q p then (q, c) :: r else (q, d) :: set_file r p c
  end.

Definition file_of (d : disk) (p : path) : option content := lookup (files d) p.

Definition put_file (d : disk) (p : path) (c : content) : disk :=
  mkDisk (dirs d) (set_file (files d) p c).

Definition append_file (d : disk) (p : path) (bytes : content) : disk :=
  put_file d p (match file_of d p with Some c => c | None => [] end ++ bytes).

Definition is_dir (d : disk) (p : path) : bool :=
  match p with
  | [] => true
  | _ => existsb (path_eqb p) (dirs d)
  end.

Definition add_dir (d : disk) (p : path) : disk :=
  if is_dir d p then d else mkDisk (dirs d ++ [p]) (files d).

(* --------------------------------------------------------------- faults *)
Inductive errno := ENOSPC | EACCES | EIO | Eother (n : Z).
Inductive fault := NoFault | Fail (e : errno) | Short (m : nat).
Definition oracle := nat -> fault.

Definition fails (f : fault) : bool :=
  match f with Fail _ => true | _ => false end.

Definition no_fault : oracle := fun _ => NoFault.

(* bytes accepted by a write of n bytes answered by f; None = the call failed *)
Definition short_len (m n : nat) : nat := Nat.max 1 (Nat.min m (n - 1)).
Definition accepted (f : fault) (n : nat) : option nat :=
  match f with
  | NoFault => Some n
  | Fail _ => None
  | Short m => Some (if 2 <=? n then short_len m n else n)
  end.

(* ---------------------------------------------------------------- calls *)
Inductive call :=
| CMkdir (p : path)
| COpen (p : path)
| CWrite (p : path) (req : nat) (done : nat)   (* done = bytes accepted *)
| CClose (p : path).

(* running state: index of the next primitive call, the disk, the calls made
   so far (newest first) with the oracle's answer *)
Record st := mkSt { next : nat; dk : disk; log : list (call * fault) }.

Definition tick (s : st) (d : disk) (c : call) (f : fault) : st :=
  mkSt (S (next s)) d ((c, f) :: log s).

(* what reporter.error prints, by kind *)
Inductive diag :=
| DMkdir (p : path) (e : errno)   (* can't create directory {p}, error: `{strerror e}` *)
| DOpen (p : path)                (* can't open file: `{p}` *)
| DWrite (p : path).              (* can't write file: `{p}`  (fixed code only) *)

Inductive outcome := Done (s : st) | Thrown (s : st) (d : diag).

(* ----------------------------------------------------------------- plan *)
Inductive step := Mkdir (p : path) | WriteFile (p : path) (c : content).
Definition plan := list step.

(* -------------------------------------------- create_directories(p, ec) *)
(* rp = reversed path.  Walk up from p to the first existing ancestor; the
   result lists the missing directories outermost first *)
Fixpoint walk_up (d : disk) (rp : list name) (acc : list path) : list path :=
  match rp with
  | [] => acc
  | _ :: rp' => if is_dir d (rev rp) then acc else walk_up d rp' (rev rp :: acc)
  end.
Definition missing (d : disk) (p : path) : list path := walk_up d (rev p) [].

Fixpoint mkdirs (orc : oracle) (s : st) (target : path) (ps : list path) : outcome :=
  match ps with
  | [] => Done s
  | q :: r =>
    let f := orc (next s) in
    match f with
    | Fail e => Thrown (tick s (dk s) (CMkdir q) f) (DMkdir target e)
    | _ => mkdirs orc (tick s (add_dir (dk s) q) (CMkdir q) f) target r
    end
  end.

Definition create_directories (orc : oracle) (s : st) (p : path) : outcome :=
  mkdirs orc s p (missing (dk s) p).

(* ------------------------------------------------- the write(2) loop    *)
(* xwrite / xwritev: one call for everything that is left, again after a short
   write.  Returns the state and whether everything was written.  [fuel] is
   only there for structural recursion: [length rest] always suffices because
   every successful call accepts at least one byte *)
Fixpoint write_loop (fuel : nat) (orc : oracle) (s : st) (p : path) (rest : content)
  : st * bool :=
  match rest with
  | [] => (s, true)
  | _ :: _ =>
    match fuel with
    | O => (s, false)
    | S fuel' =>
      let n := length rest in
      let f := orc (next s) in
      match accepted f n with
      | None => (tick s (dk s) (CWrite p n 0) f, false)
      | Some w =>
        write_loop fuel' orc
          (tick s (append_file (dk s) p (firstn w rest)) (CWrite p n w) f)
          p (skipn w rest)
      end
    end
  end.

(* ----------------------------------------------- fs_provider::write_file *)
(* [checked] = the stream state is tested after close() (the repaired code) *)
Definition write_file_gen (checked : bool) (orc : oracle) (s : st) (p : path) (c : content)
  : outcome :=
  let f := orc (next s) in
  match f with
  | Fail _ => Thrown (tick s (dk s) (COpen p) f) (DOpen p)
  | _ =>
    (* fopen(path, "wb"): created or truncated *)
    let s1 := tick s (put_file (dk s) p []) (COpen p) f in
    let (s2, wok) := write_loop (length c) orc s1 p c in
    let fc := orc (next s2) in
    let s3 := tick s2 (dk s2) (CClose p) fc in
    if checked && negb (wok && negb (fails fc)) then Thrown s3 (DWrite p) else Done s3
  end.

Definition write_file := write_file_gen true.

Definition exec_step_gen (checked : bool) (orc : oracle) (s : st) (x : step) : outcome :=
  match x with
  | Mkdir p => create_directories orc s p
  | WriteFile p c => write_file_gen checked orc s p c
  end.

Fixpoint exec_gen (checked : bool) (orc : oracle) (s : st) (pl : plan) : outcome :=
  match pl with
  | [] => Done s
  | x :: r =>
    match exec_step_gen checked orc s x with
    | Done s' => exec_gen checked orc s' r
    | Thrown s' d => Thrown s' d
    end
  end.

(* ---------------------------------------------------------------- main() *)
Record result := mkResult {
  status : nat;                    (* process exit status *)
  diagnostic : option diag;        (* the "Error: ..." line, if any *)
  final : disk;                    (* what is on the disk afterwards *)
  calls : list (call * fault)      (* primitive calls made, oldest first *)
}.

Definition run_gen (checked : bool) (pl : plan) (orc : oracle) (d0 : disk) : result :=
  match exec_gen checked orc (mkSt 0 d0 []) pl with
  | Done s => mkResult 0 None (dk s) (rev (log s))
  | Thrown s d => mkResult 1 (Some d) (dk s) (rev (log s))
  end.

Definition run : plan -> oracle -> disk -> result := run_gen true.
Definition ncalls (r : result) : nat := length (calls r).

Module Legacy.
  (* the code before the repair: the ofstream is never looked at after [<<] *)
  Definition write_file := write_file_gen false.
  Definition run : plan -> oracle -> disk -> result := run_gen false.
End Legacy.

(* ------------------------------------------------------- specification  *)
(* what the plan asks for, with no notion of calls, faults or order of
   primitive operations: the files of the initial disk overridden by the
   planned files, a later write to the same path overriding an earlier one *)
Fixpoint planned (pl : plan) (fs : list (path * content)) : list (path * content) :=
  match pl with
  | [] => fs
  | Mkdir _ :: r => planned r fs
  | WriteFile p c :: r => planned r (set_file fs p c)
  end.

Fixpoint plan_files (pl : plan) : list (path * content) :=
  match pl with
  | [] => []
  | Mkdir _ :: r => plan_files r
  | WriteFile p c :: r => (p, c) :: plan_files r
  end.

Fixpoint plan_dirs (pl : plan) : list path :=
  match pl with
  | [] => []
  | Mkdir p :: r => p :: plan_dirs r
  | WriteFile _ _ :: r => plan_dirs r
  end.

(* ------------------------------- the plan schema_compiler::compile() makes *)
Record generated := mkGenerated {
  out_dir : path;                        (* --output-dir *)
  schema_name : name;
  type_files : list (name * content);    (* in the order types_compiler emits them *)
  schema_hdr : content;                  (* schema/schema.hpp *)
  message_files : list (name * content); (* in the order messages_compiler emits them *)
  top_hdr : content                      (* <schema_name>.hpp *)
}.

Definition s_schema : name := ([115; 99; 104; 101; 109; 97])%Z.            (* "schema" *)
Definition s_types : name := ([116; 121; 112; 101; 115])%Z.                (* "types" *)
Definition s_messages : name := ([109; 101; 115; 115; 97; 103; 101; 115])%Z. (* "messages" *)
Definition s_hpp : name := ([46; 104; 112; 112])%Z.                        (* ".hpp" *)

Definition plan_of (g : generated) : plan :=
  let base := out_dir g ++ [schema_name g] in
  [ Mkdir (base ++ [s_schema]); Mkdir (base ++ [s_types]); Mkdir (base ++ [s_messages]) ]
  ++ map (fun nc => WriteFile (base ++ [s_types; fst nc ++ s_hpp]) (snd nc)) (type_files g)
  ++ [ WriteFile (base ++ [s_schema; s_schema ++ s_hpp]) (schema_hdr g) ]
  ++ map (fun nc => WriteFile (base ++ [s_messages; fst nc ++ s_hpp]) (snd nc)) (message_files g)
  ++ [ WriteFile (base ++ [schema_name g ++ s_hpp]) (top_hdr g) ].

(* ------------------------------------------------ oracles from schedules *)
(* used by the driver: [(k, persistent, f)] = call k (and every later call when
   persistent) is answered f; the first matching entry wins *)
Fixpoint sched_oracle (sch : list (nat * bool * fault)) (k : nat) : fault :=
  match sch with
  | [] => NoFault
  | (i, pers, f) :: r =>
    if (k =? i) || (pers && (i <? k)) then f else sched_oracle r k
  end.

(* ------------------------------------------- names for the OCaml driver *)
(* The extracted model of every property lives in one flat OCaml file, where
   clashing identifiers are renamed by position.  The driver therefore only
   uses the [io_]-prefixed aliases below (and the constructors of [call],
   [diag], [errno], [step], which are specific to this file). *)
Definition io_run (checked : bool) (pl : plan) (orc : oracle) (d0 : disk) : result :=
  run_gen checked pl orc d0.
Definition io_plan_of (out : path) (sname : name) (ts : list (name * content))
  (sh : content) (ms : list (name * content)) (top : content) : plan :=
  plan_of (mkGenerated out sname ts sh ms top).
Definition io_sched (sch : list (nat * bool * fault)) : oracle := sched_oracle sch.
Definition io_nofault : fault := NoFault.
Definition io_fail (e : errno) : fault := Fail e.
Definition io_short (m : nat) : fault := Short m.
Definition io_errno_code (e : errno) : Z :=
  match e with ENOSPC => 28 | EACCES => 13 | EIO => 5 | Eother n => n end%Z.
Definition io_errno_of_code (n : Z) : errno :=
  if Z.eqb n 28 then ENOSPC else if Z.eqb n 13 then EACCES else if Z.eqb n 5 then EIO
  else Eother n.
(* 0 = the call succeeded, otherwise the errno it failed with *)
Definition io_fault_code (f : fault) : Z :=
  match f with Fail e => io_errno_code e | _ => 0%Z end.
Definition io_disk (ds : list path) (fs : list (path * content)) : disk := mkDisk ds fs.
Definition io_dirs (d : disk) : list path := dirs d.
Definition io_files (d : disk) : list (path * content) := files d.
Definition io_file_of (d : disk) (p : path) : option content := file_of d p.
Definition io_status (r : result) : nat := status r.
Definition io_diag (r : result) : option diag := diagnostic r.
Definition io_final (r : result) : disk := final r.
Definition io_calls (r : result) : list (call * fault) := calls r.
Definition io_plan_files (pl : plan) : list (path * content) := plan_files pl.
Definition io_planned (pl : plan) (d : disk) : list (path * content) := planned pl (files d).
Definition io_lookup (fs : list (path * content)) (p : path) : option content := lookup fs p.
