(* SrcTablesProofs.v — the properties' statements about the table-like parts of
   the code, proved about SrcTables.v, which harness/srctables.py REGENERATES
   from /repo's current sources on every run (types_compiler.hpp built_in_*
   maps, utils.hpp type maps and size table, the validator's size table, the C++
   keyword list, the SBEPP_BUILT_IN_IMPL invocations of sbepp.hpp).  All proofs
   are by computation over the 11 primitive types: a changed table entry makes
   the corresponding theorem fail to check. *)
From Coq Require Import ZArith List String Bool Ascii.
From Sbepp Require Import CInt Bytes Fp Optional OptLit Rules SrcTables.
Import ListNotations.
Import IEEE.
Import Opt.
Local Open Scope string_scope.

Definition prim_name (p : prim) : string :=
  match p with
  | PChar => "char" | PInt8 => "int8" | PInt16 => "int16" | PInt32 => "int32" | PInt64 => "int64"
  | PUint8 => "uint8" | PUint16 => "uint16" | PUint32 => "uint32" | PUint64 => "uint64"
  | PFloat => "float" | PDouble => "double"
  end.

Fixpoint lookup {A} (k : string) (l : list (string * A)) : option A :=
  match l with
  | [] => None
  | (k', v) :: r => if String.eqb k k' then Some v else lookup k r
  end.

Definition src_table (w : Lit.which) : list (string * string) :=
  match w with
  | Lit.WMin => src_min_values
  | Lit.WMax => src_max_values
  | Lit.WNull => src_null_values
  end.

(* the C++ type sbeppc uses for a primitive type *)
Definition cpp_type_name (p : prim) : string :=
  match p with
  | PChar => "char" | PFloat => "float" | PDouble => "double"
  | _ => "::std::" ++ prim_name p ++ "_t"
  end.

Definition prim_bytes (p : prim) : Z :=
  match p with
  | PChar | PInt8 | PUint8 => 1
  | PInt16 | PUint16 => 2
  | PInt32 | PUint32 | PFloat => 4
  | PInt64 | PUint64 | PDouble => 8
  end.

(* value of a SBEPP_BUILT_IN_IMPL argument: integer limits through CInt,
   floating-point limits as bit patterns (Fp.v) *)
Definition bty_int (t : bty) : option ity :=
  match t with
  | BI8 => Some I8 | BU8 => Some U8 | BI16 => Some I16 | BU16 => Some U16
  | BI32 => Some I32 | BU32 => Some U32 | BI64 => Some I64 | BU64 => Some U64
  | BF32 | BF64 => None
  end.

Fixpoint beval (e : bexpr) : option Z :=
  match e with
  | BLit z => Some z
  | BPlus e n => option_map (fun v => v + n)%Z (beval e)
  | BMinus e n => option_map (fun v => v - n)%Z (beval e)
  | BLim t l =>
    match bty_int t, l with
    | Some i, BMin => Some (tmin i)
    | Some i, BLowest => Some (tmin i)
    | Some i, BMax => Some (tmax i)
    | Some _, BQnan => None
    | None, BMin => Some (fl_min (match t with BF32 => F32 | _ => F64 end))
    | None, BMax => Some (fl_max (match t with BF32 => F32 | _ => F64 end))
    | None, BQnan => Some (fl_qnan (match t with BF32 => F32 | _ => F64 end))
    | None, BLowest => Some (fneg (match t with BF32 => F32 | _ => F64 end)
                                  (fl_max (match t with BF32 => F32 | _ => F64 end)))
    end
  end.

Definition which_all : list Lit.which := [Lit.WMin; Lit.WMax; Lit.WNull].

Definition res_eqb (r : Lit.res Z) (v : Z) : bool :=
  match r with Lit.Ok z => Z.eqb z v | _ => false end.

(* ------------------------------------------------------------------ *)
(* statements                                                          *)
(* ------------------------------------------------------------------ *)

(* C16: the generator's default min/max/null literal of every primitive type,
   AS WRITTEN IN THE SOURCE NOW, denotes the value the built-in type exposes *)
Definition stmt_src_defaults_denote : Prop :=
  forall w p, exists s,
    lookup (prim_name p) (src_table w) = Some s /\
    Lit.denote p s = Lit.Ok (Lit.builtin_val w p).

(* ... and is the text the literal model (OptLit.v) works with *)
Definition stmt_src_defaults_are_model : Prop :=
  forall w p, lookup (prim_name p) (src_table w) = Some (Lit.default_lit w p).

(* every table has exactly the 11 primitive types as keys *)
Definition stmt_src_tables_keys : Prop :=
  forall l, In l [src_min_values; src_max_values; src_null_values; src_cpp_types;
                  src_required_wrappers; src_optional_wrappers] ->
    map fst l = map prim_name all_prims \/
    (List.length l = 11%nat /\ forall p, exists v, lookup (prim_name p) l = Some v).

(* C01/C02/C16: accessors of a field whose type is the built-in primitive p use
   the wrapper of THAT primitive *)
Definition stmt_src_wrappers : Prop :=
  forall p,
    lookup (prim_name p) src_required_wrappers = Some ("::sbepp::" ++ prim_name p ++ "_t") /\
    lookup (prim_name p) src_optional_wrappers = Some ("::sbepp::" ++ prim_name p ++ "_opt_t").

(* C01/C04: the size tables of the validator (layout) and of the generator
   (cursor offsets) agree with each other and with the encoding width *)
Definition stmt_src_sizes : Prop :=
  forall p,
    lookup (prim_name p) src_cpp_types = Some (cpp_type_name p) /\
    lookup (prim_name p) src_prim_sizes = Some (prim_bytes p) /\
    lookup (cpp_type_name p) src_underlying_sizes = Some (prim_bytes p).

(* C08: the keyword list of the validator is the one the rules model uses *)
Definition stmt_src_keywords : Prop :=
  map Rules.lit src_keywords = Rules.cpp_keywords.

(* C16: the built-in types of the runtime header expose the SBE defaults *)
Definition stmt_src_builtins : Prop :=
  forall p, exists ty mn mx nl,
    lookup (prim_name p) (map (fun x => let '(n, t, a, b, c) := x in (n, (t, a, b, c))) src_builtins)
    = Some (ty, mn, mx, nl) /\
    ("::" ++ ty = cpp_type_name p \/ ty = cpp_type_name p) /\
    beval mn = Some (builtin_min p) /\
    beval mx = Some (builtin_max p) /\
    beval nl = Some (builtin_null p).

(* ------------------------------------------------------------------ *)
(* proofs: finite checks lifted to the quantified statements           *)
(* ------------------------------------------------------------------ *)

Lemma all_prims_complete p : In p all_prims.
Proof. destruct p; cbv [all_prims app]; simpl; tauto. Qed.

Lemma which_all_complete w : In w which_all.
Proof. destruct w; simpl; tauto. Qed.

Definition opt_str_eqb (a : option string) (b : string) : bool :=
  match a with Some s => String.eqb s b | None => false end.

Lemma opt_str_eqb_true a b : opt_str_eqb a b = true -> a = Some b.
Proof. destruct a as [s|]; cbn; [|discriminate]. intros H. apply String.eqb_eq in H. now subst. Qed.

Definition check_defaults_denote : bool :=
  forallb (fun w => forallb (fun p =>
    match lookup (prim_name p) (src_table w) with
    | Some s => res_eqb (Lit.denote p s) (Lit.builtin_val w p)
    | None => false
    end) all_prims) which_all.

Lemma check_defaults_denote_ok : check_defaults_denote = true.
Proof. vm_compute. reflexivity. Qed.

Theorem src_defaults_denote : stmt_src_defaults_denote.
Proof.
  intros w p.
  pose proof check_defaults_denote_ok as H. unfold check_defaults_denote in H.
  rewrite forallb_forall in H. specialize (H w (which_all_complete w)).
  rewrite forallb_forall in H. specialize (H p (all_prims_complete p)).
  destruct (lookup (prim_name p) (src_table w)) as [s|]; [|discriminate].
  exists s. split; [reflexivity|].
  unfold res_eqb in H. destruct (Lit.denote p s) as [z| |]; try discriminate.
  apply Z.eqb_eq in H. now subst.
Qed.

Definition check_defaults_model : bool :=
  forallb (fun w => forallb (fun p =>
    opt_str_eqb (lookup (prim_name p) (src_table w)) (Lit.default_lit w p)) all_prims) which_all.

Lemma check_defaults_model_ok : check_defaults_model = true.
Proof. vm_compute. reflexivity. Qed.

Theorem src_defaults_are_model : stmt_src_defaults_are_model.
Proof.
  intros w p.
  pose proof check_defaults_model_ok as H. unfold check_defaults_model in H.
  rewrite forallb_forall in H. specialize (H w (which_all_complete w)).
  rewrite forallb_forall in H. specialize (H p (all_prims_complete p)).
  now apply opt_str_eqb_true.
Qed.

Definition check_wrappers : bool :=
  forallb (fun p =>
    opt_str_eqb (lookup (prim_name p) src_required_wrappers) ("::sbepp::" ++ prim_name p ++ "_t") &&
    opt_str_eqb (lookup (prim_name p) src_optional_wrappers) ("::sbepp::" ++ prim_name p ++ "_opt_t"))
    all_prims.

Lemma check_wrappers_ok : check_wrappers = true.
Proof. vm_compute. reflexivity. Qed.

Theorem src_wrappers : stmt_src_wrappers.
Proof.
  intros p. pose proof check_wrappers_ok as H. unfold check_wrappers in H.
  rewrite forallb_forall in H. specialize (H p (all_prims_complete p)).
  apply andb_true_iff in H. destruct H as [H1 H2].
  split; now apply opt_str_eqb_true.
Qed.

Definition opt_z_eqb (a : option Z) (b : Z) : bool :=
  match a with Some z => Z.eqb z b | None => false end.

Lemma opt_z_eqb_true a b : opt_z_eqb a b = true -> a = Some b.
Proof. destruct a as [z|]; cbn; [|discriminate]. intros H. apply Z.eqb_eq in H. now subst. Qed.

Definition check_sizes : bool :=
  forallb (fun p =>
    opt_str_eqb (lookup (prim_name p) src_cpp_types) (cpp_type_name p) &&
    opt_z_eqb (lookup (prim_name p) src_prim_sizes) (prim_bytes p) &&
    opt_z_eqb (lookup (cpp_type_name p) src_underlying_sizes) (prim_bytes p)) all_prims.

Lemma check_sizes_ok : check_sizes = true.
Proof. vm_compute. reflexivity. Qed.

Theorem src_sizes : stmt_src_sizes.
Proof.
  intros p. pose proof check_sizes_ok as H. unfold check_sizes in H.
  rewrite forallb_forall in H. specialize (H p (all_prims_complete p)).
  apply andb_true_iff in H. destruct H as [H H3].
  apply andb_true_iff in H. destruct H as [H1 H2].
  repeat split; (now apply opt_str_eqb_true) || (now apply opt_z_eqb_true).
Qed.

Theorem src_tables_keys : stmt_src_tables_keys.
Proof.
  intros l Hl. left. cbn [In] in Hl.
  repeat (destruct Hl as [<-|Hl]; [vm_compute; reflexivity|]). contradiction.
Qed.

Theorem src_keywords : stmt_src_keywords.
Proof. vm_compute. reflexivity. Qed.

Definition builtin_entry (p : prim) : option (string * bexpr * bexpr * bexpr) :=
  lookup (prim_name p) (map (fun x => let '(n, t, a, b, c) := x in (n, (t, a, b, c))) src_builtins).

Definition check_builtins : bool :=
  forallb (fun p =>
    match builtin_entry p with
    | Some (ty, mn, mx, nl) =>
      (String.eqb ("::" ++ ty) (cpp_type_name p) || String.eqb ty (cpp_type_name p)) &&
      opt_z_eqb (beval mn) (builtin_min p) &&
      opt_z_eqb (beval mx) (builtin_max p) &&
      opt_z_eqb (beval nl) (builtin_null p)
    | None => false
    end) all_prims.

Lemma check_builtins_ok : check_builtins = true.
Proof. vm_compute. reflexivity. Qed.

Theorem src_builtins_ok : stmt_src_builtins.
Proof.
  intros p. pose proof check_builtins_ok as H. unfold check_builtins in H.
  rewrite forallb_forall in H. specialize (H p (all_prims_complete p)).
  fold (builtin_entry p).
  destruct (builtin_entry p) as [[[[ty mn] mx] nl]|]; [|discriminate].
  exists ty, mn, mx, nl.
  apply andb_true_iff in H. destruct H as [H H4].
  apply andb_true_iff in H. destruct H as [H H3].
  apply andb_true_iff in H. destruct H as [H1 H2].
  split; [reflexivity|]. split.
  - apply orb_true_iff in H1. destruct H1 as [H1|H1]; apply String.eqb_eq in H1; auto.
  - repeat split; now apply opt_z_eqb_true.
Qed.

Print Assumptions src_defaults_denote.
Print Assumptions src_defaults_are_model.
Print Assumptions src_wrappers.
Print Assumptions src_sizes.
Print Assumptions src_tables_keys.
Print Assumptions src_keywords.
Print Assumptions src_builtins_ok.
