(* Extract.v — extraction of the executable model to OCaml.  Only
   ExtrOcamlBasic is used: Z, N, positive stay the extracted inductive types. *)
From Coq Require Import Extraction ExtrOcamlBasic ZArith.
From Sbepp Require Import CInt Bitset.
Extraction Language OCaml.
Extraction "model.ml"
  Z.add Z.mul Z.sub Z.div_eucl Z.compare Z.of_nat Z.to_nat Z.opp Z.eqb Z.ltb Z.leb
  CInt.wrap CInt.in_range CInt.cadd CInt.cmul CInt.csub CInt.cshl
  Bitset.get_bit Bitset.set_bit Bitset.Legacy.get_bit Bitset.Legacy.set_bit
  Bitset.spec_get Bitset.spec_set Bitset.visit_set.
