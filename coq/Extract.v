(* Extract.v -- GENERATED from extract.d/*.txt by harness/common.py; do not edit.
   Only ExtrOcamlBasic is used: Z, N, positive, nat stay the extracted inductive types. *)
From Coq Require Import Extraction ExtrOcamlBasic.
From Coq Require Import ZArith.
From Sbepp Require Import CInt.
From Sbepp Require Import Bitset.
Extraction Language OCaml.
Extraction "model.ml"
  Z.add
  Z.mul
  Z.sub
  Z.div_eucl
  Z.compare
  Z.of_nat
  Z.to_nat
  Z.opp
  Z.eqb
  Z.ltb
  Z.leb
  Z.of_N
  Z.to_N
  N.add
  N.mul
  N.sub
  N.div_eucl
  N.compare
  N.of_nat
  N.to_nat
  N.eqb
  N.ltb
  N.leb
  CInt.wrap
  CInt.in_range
  CInt.cadd
  CInt.cmul
  CInt.csub
  CInt.cshl
  CInt.ccast
  Bitset.get_bit
  Bitset.set_bit
  Bitset.Legacy.get_bit
  Bitset.Legacy.set_bit
  Bitset.spec_get
  Bitset.spec_set
  Bitset.visit_set.
