(* Extract.v -- GENERATED from extract.d/*.txt by harness/common.py; do not edit.
   Only ExtrOcamlBasic is used: Z, N, positive, nat stay the extracted inductive types. *)
From Coq Require Import Extraction ExtrOcamlBasic.
From Coq Require Import ZArith.
From Sbepp Require Import CInt.
From Sbepp Require Import StaticArray.
From Sbepp Require Import Bitset.
From Sbepp Require Import Bytes Msg Layout Wire.
From Sbepp Require Import Cursor.
From Sbepp Require Import CursorSpec.
Extraction Language OCaml.
Separate Extraction
  Z.add
  Z.mul
  Z.sub
  Z.div_eucl
  Z.compare
  Z.of_nat
  Z.to_nat
  Z.opp
  Z.eqb
  Z.ltb
  Z.leb
  Z.of_N
  Z.to_N
  N.add
  N.mul
  N.sub
  N.div_eucl
  N.compare
  N.of_nat
  N.to_nat
  N.eqb
  N.ltb
  N.leb
  CInt.wrap
  CInt.in_range
  CInt.cadd
  CInt.cmul
  CInt.csub
  CInt.cshl
  CInt.ccast
  StaticArray.SArr.assign_string_ptr
  StaticArray.SArr.assign_string_range
  StaticArray.SArr.assign_range
  StaticArray.SArr.assign_iter
  StaticArray.SArr.assign_ilist
  StaticArray.SArr.assign_count
  StaticArray.SArr.fill
  StaticArray.SArr.strlen
  StaticArray.SArr.strlen_r
  StaticArray.SArr.Legacy.strlen
  StaticArray.SArr.spec_assign_string
  StaticArray.SArr.spec_assign
  StaticArray.SArr.spec_strlen
  StaticArray.SArr.spec_strlen_r
  StaticArray.SArr.split3
  Bitset.get_bit
  Bitset.set_bit
  Bitset.Legacy.get_bit
  Bitset.Legacy.set_bit
  Bitset.spec_get
  Bitset.spec_set
  Bitset.visit_set
  Bytes.in_buf
  Bytes.enc
  Bytes.dec
  Bytes.interp
  Bytes.to_raw
  Bytes.slice
  Bytes.splice
  Bytes.len
  Bytes.bytes_ok
  Bytes.get_primitive_bitcast
  Bytes.set_primitive_bitcast
  Bytes.get_primitive_memcpy
  Bytes.set_primitive_memcpy
  Msg.enc_message
  Msg.enc_level
  Msg.msg_size_bytes
  Msg.msg_resolve
  Msg.get_field
  Msg.set_field
  Msg.locate_group
  Msg.group_size_bytes
  Msg.group_resize
  Msg.group_fill_header
  Msg.locate_data
  Msg.get_data
  Msg.assign_data
  Msg.entry_size_bytes
  Msg.flat_group_size
  Msg.LegacyMsg.flat_group_size
  Msg.is_flat
  Msg.tbytes
  Layout.compile_message
  Layout.cursor_fields
  Layout.type_size
  Layout.member_offsets
  Msg.msg_fill_header
  Wire.over_message
  Wire.over_size
  Cursor.cur_field
  Cursor.cur_group
  Cursor.cur_data
  Cursor.trav_message
  Cursor.cacc_of
  Cursor.size_check
  Cursor.data_size_at
  Msg.nth_group_pos
  Msg.nth_data_pos
  Msg.groups_end
  Msg.default_fuel
  Msg.group_at
  CursorSpec.trait_size
  CursorSpec.counts_gs
  CursorSpec.data_total.
