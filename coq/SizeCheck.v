(* SizeCheck.v — SBEPP_SIZE_CHECK(begin, end, offset, size) (sbepp.hpp):
     begin && begin <= end && (offset + size) <= static_cast<std::size_t>(end - begin)
   modelled in Cursor.size_check; what it guarantees. *)
From Coq Require Import ZArith Bool Lia.
From Sbepp Require Import Cursor.
Local Open Scope Z_scope.
Ltac Zify.zify_post_hook ::= Z.div_mod_to_equations.

(* a passed check means the accessed bytes [begin+offset, begin+offset+size)
   lie inside [begin, end) -- wherever the view starts *)
Lemma size_check_sound b e off sz :
  e - b < 2 ^ 64 -> size_check b e off sz = true -> b <= e /\ b + off + sz <= e.
Proof.
  unfold size_check. intros Hlt H. apply andb_true_iff in H. destruct H as [H1 H2].
  apply Z.leb_le in H1, H2. rewrite Z.mod_small in H2 by lia. lia.
Qed.

(* no spurious failure: accessed bytes inside the buffer pass *)
Lemma size_check_complete b e off sz :
  b <= e -> e - b < 2 ^ 64 -> b + off + sz <= e -> size_check b e off sz = true.
Proof.
  unfold size_check. intros Hbe Hlt H. apply andb_true_iff. split; apply Z.leb_le; [lia|].
  rewrite Z.mod_small by lia. lia.
Qed.

(* the macro before the fix converted a negative end - begin to size_t: a view
   that starts PAST the end of its buffer passed the check *)
Lemma legacy_size_check_begin_past_end_refuted :
  exists b e off sz, e < b /\ legacy_size_check b e off sz = true /\ e < b + off + sz.
Proof. exists 1012, 64, 0, 4. vm_compute. repeat split; reflexivity. Qed.
