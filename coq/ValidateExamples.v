(* ValidateExamples.v — concrete schemas: non-vacuity instances of the C08
   theorems and the refutation of the validator before the repair. *)
From Coq Require Import ZArith List Bool String.
From Sbepp Require Import Bytes Rules Validate ValidateProofs Pipeline PipelineProofs.
Import ListNotations.
Local Open Scope string_scope.
Local Open Scope Z_scope.

(* ------------------------------------------------------------------ *)
(* concrete schemas: non-vacuity and the refutation of the old code     *)
(* ------------------------------------------------------------------ *)

Definition mk_type (n p : str) : element_def :=
  EType {| t_name := n; t_prim := p; t_presence := PRequired; t_length := 1; t_offset := None;
           t_min := None; t_max := None; t_null := None; t_const := None; t_vref := None |}.

Definition ex_header : element_def :=
  EComposite (lit "messageHeader") None
    [mk_type (lit "blockLength") k_uint16; mk_type (lit "templateId") k_uint16;
     mk_type (lit "schemaId") k_uint16; mk_type (lit "version") k_uint16].

Definition ex_point : element_def :=
  EComposite (lit "Point") None
    [mk_type (lit "x") k_int32;
     EType {| t_name := lit "y"; t_prim := k_int32; t_presence := PRequired; t_length := 1; t_offset := Some 8;
              t_min := None; t_max := None; t_null := None; t_const := None; t_vref := None |};
     ERef (lit "tag") (lit "Tag") None].

Definition ex_tag : element_def := mk_type (lit "Tag") k_uint8.

Definition mk_field (n ty : str) (o : option Z) : field_def :=
  {| f_name := n; f_type := ty; f_offset := o; f_presence := PRequired; f_vref := None |}.

Definition ex_message (fs : list field_def) (bl : option Z) : message_def :=
  {| m_name := lit "M"; m_id := 1; m_bl := bl; m_fields := fs; m_groups := []; m_data := [] |}.

Definition ex_schema (fs : list field_def) (bl : option Z) : schema_def :=
  {| sc_name := lit "p"; sc_header := lit "messageHeader"; sc_types := [ex_header; ex_point; ex_tag];
     sc_messages := [ex_message fs bl] |}.

(* a valid schema: composite with a gap, field with custom offset, explicit blockLength *)
Definition ex_good : schema_def :=
  ex_schema [mk_field (lit "a") k_uint32 None; mk_field (lit "p") (lit "point") (Some 6);
             mk_field (lit "b") k_uint16 None] (Some 32).

Example validate_iff_rules_nonvacuous :
  (exists st, validate ex_good = VOk st) /\ rules_ok ex_good = true.
Proof. split; [eexists|]; vm_compute; reflexivity. Qed.

Example accepted_no_overlap_nonvacuous :
  rules_ok ex_good = true /\
  In (EComposite (lit "Point") None
        [mk_type (lit "x") k_int32;
         EType {| t_name := lit "y"; t_prim := k_int32; t_presence := PRequired; t_length := 1; t_offset := Some 8;
                  t_min := None; t_max := None; t_null := None; t_const := None; t_vref := None |};
         ERef (lit "tag") (lit "Tag") None]) (all_elements (sc_types ex_good)) /\
  In (m_fields (ex_message [mk_field (lit "a") k_uint32 None; mk_field (lit "p") (lit "point") (Some 6);
                            mk_field (lit "b") k_uint16 None] (Some 32)), Some 32) (schema_levels ex_good).
Proof. split; [vm_compute; reflexivity|]. split; [do 5 right; left; reflexivity | left; reflexivity]. Qed.

(* offset below the minimum: rejected, with the rule class *)
Example rejects_offset_below_minimum :
  validate (ex_schema [mk_field (lit "a") k_uint32 None; mk_field (lit "b") k_uint16 (Some 3)] None)
  = VErr OffsetTooSmall.
Proof. vm_compute. reflexivity. Qed.

Example rejects_cycle :
  validate {| sc_name := lit "p"; sc_header := lit "messageHeader";
              sc_types := [ex_header; EComposite (lit "A") None [ERef (lit "b") (lit "B") None];
                           EComposite (lit "B") None [ERef (lit "a") (lit "a") None]];
              sc_messages := [] |} = VErr CyclicReference.
Proof. vm_compute. reflexivity. Qed.

(* THE DEFECT of the code before the repair: the first field ends exactly at
   2^64, the running offset wraps to 0 and the other fields are laid over the
   start of the block; the computed blockLength is 8 although field a lies at
   offset 2^64-4 *)
Definition ex_wrap : schema_def :=
  ex_schema [mk_field (lit "a") k_uint32 (Some 18446744073709551612);
             mk_field (lit "b") k_uint32 (Some 0); mk_field (lit "c") k_uint32 (Some 4)] None.

Example legacy_accepts_overlap_refuted :
  Legacy.accepts ex_wrap = true /\ rules_ok ex_wrap = false /\
  validate ex_wrap = VErr OffsetOverflow.
Proof. vm_compute. repeat split; reflexivity. Qed.

(* ------------------------------------------------------------------ *)
(* C09                                                                 *)
(* ------------------------------------------------------------------ *)

Example validated_no_crash_nonvacuous :
  exists st, validate ex_good = VOk st /\ gen_lookups ex_good = VOk tt.
Proof. eexists. split; vm_compute; reflexivity. Qed.

(* the Crash branches are live: without validation the lookups do crash *)
Example gen_lookups_crash_reachable :
  gen_lookups (ex_schema [mk_field (lit "a") (lit "NoSuchType") None] None) = VCrash MapAt /\
  gen_lookups {| sc_name := lit "p"; sc_header := lit "Tag"; sc_types := [ex_tag]; sc_messages := [] |}
  = VCrash BadVariant.
Proof. split; vm_compute; reflexivity. Qed.

Definition ex_files : file_map :=
  [(lit "main.xml", []); (lit "a.xml", [lit "b.xml"]); (lit "b.xml", [lit "a.xml"]); (lit "t.xml", [])].

Example include_terminates_nonvacuous :
  load_main true ex_files (lit "main.xml") [lit "t.xml"] = Loaded /\
  load_main true ex_files (lit "main.xml") [lit "a.xml"] = LoadErr /\
  load_main true ex_files (lit "main.xml") [lit "nope.xml"] = LoadErr.
Proof. vm_compute. repeat split; reflexivity. Qed.

(* the code before the repair on the same cycle: the recursion never ends *)
Example legacy_include_cycle_refuted :
  load_main false ex_files (lit "main.xml") [lit "a.xml"] = LoadDiverge /\
  load false ex_files 2000 [] (lit "a.xml") = LoadDiverge.
Proof. vm_compute. split; reflexivity. Qed.

Example run_total_nonvacuous :
  run true {| in_argv_ok := true; in_files := ex_files; in_main := lit "main.xml"; in_main_includes := [lit "t.xml"];
              in_xml_ok := true; in_schema := ex_good; in_output_ok := true |} = Exit0 /\
  run true {| in_argv_ok := true; in_files := ex_files; in_main := lit "main.xml"; in_main_includes := [lit "t.xml"];
              in_xml_ok := true; in_schema := ex_wrap; in_output_ok := true |} = ExitErr /\
  run false {| in_argv_ok := true; in_files := ex_files; in_main := lit "main.xml"; in_main_includes := [lit "a.xml"];
               in_xml_ok := true; in_schema := ex_good; in_output_ok := true |} = Diverge.
Proof. vm_compute. repeat split; reflexivity. Qed.
