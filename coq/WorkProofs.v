(* WorkProofs.v — C06: the work bound of size_bytes_checked (statements in
   WorkSpec.v).

   Invariant: 0 <= ck_rem and ck_rem never increases; every completed pass of
   the entry loop of a nested (non-flat) group consumes at least one byte of
   ck_rem at the entry's own level (the dimension of its first group, of size
   >= 2 by wf_dim, or the length prefix of its first data member), so the
   number of passes is at most ck_rem <= len b < fuel.

   Work: a potential argument.  With W >= cl_members + 1 of every nested entry
   level, a part of the visit started in state s and finished in state s'
   satisfies
       steps s' + W * k <= steps s + A + W * (rem s - rem s')
   where A is the number of members of the part and k = 1 when the part
   certainly consumes a byte (k = 0 otherwise); a failing part reports at most
   steps s + B + W * rem s. *)
From Coq Require Import ZArith List Bool Lia ZifyBool.
From Sbepp Require Import CInt CIntFacts Bytes BytesFacts Msg Layout Wire MsgSpec LayoutProofs
  MsgProofs Cursor CursorSpec CursorProofs Checked ScriptSpec CheckedProofs WorkSpec.
Import ListNotations.
Local Open Scope Z_scope.

(* ================================================================== *)
(* the member count is non-negative                                    *)
(* ================================================================== *)

Lemma level_groups_ind (P : level -> Prop) (Q : groups -> Prop) :
  (forall fs gs ds, Q gs -> P (Level fs gs ds)) ->
  Q GNil ->
  (forall d cbl l rest, P l -> Q rest -> Q (GCons d cbl l rest)) ->
  (forall l, P l) /\ (forall gs, Q gs).
Proof.
  intros HL HN HC. split.
  - apply (level_mind P Q).
    + intros fs gs IH ds. apply HL, IH.
    + exact HN.
    + intros d cbl l IHl rest IHr. apply HC; assumption.
  - apply (groups_mind P Q).
    + intros fs gs IH ds. apply HL, IH.
    + exact HN.
    + intros d cbl l IHl rest IHr. apply HC; assumption.
Qed.

Lemma members_nonneg :
  (forall l cl, 0 <= cl_members l cl) /\ (forall gs cgs, 0 <= gs_members gs cgs).
Proof.
  apply (level_groups_ind (fun l => forall cl, 0 <= cl_members l cl)
                          (fun gs => forall cgs, 0 <= gs_members gs cgs)).
  - intros fs gs ds IH [al cgs]. cbn [cl_members]. specialize (IH cgs). lia.
  - intros cgs. cbn [gs_members]. lia.
  - intros d cbl l rest IHl IHr [|cl crest]; cbn [gs_members]; [lia|].
    specialize (IHl cl). specialize (IHr crest). lia.
Qed.

Lemma cl_members_nonneg l cl : 0 <= cl_members l cl.
Proof. apply members_nonneg. Qed.
Lemma gs_members_nonneg gs cgs : 0 <= gs_members gs cgs.
Proof. apply members_nonneg. Qed.

Lemma wf_dim_size d : wf_dim d -> 2 <= d_size d.
Proof.
  intros (_ & _ & Hbo & Hbe & Hno & Hne & Hdisj).
  pose proof (tbytes_pos (d_bl_t d)). pose proof (tbytes_pos (d_n_t d)). lia.
Qed.

(* ================================================================== *)
(* the potential                                                       *)
(* ================================================================== *)

Section Work.
  Variables (be : bool) (b : list Z) (fuel : nat) (W : Z).
  Hypothesis Hok : bytes_ok b = true.
  Hypothesis Hfuel : (length b < fuel)%nat.
  Hypothesis HW : 0 <= W.

  Definition post (s : ck) (A B k : Z) (out : ckout) : Prop :=
    match out with
    | KOk s' => 0 <= ck_rem s' /\ ck_rem s' + k <= ck_rem s /\ ck_steps s <= ck_steps s' /\
                ck_steps s' + W * k <= ck_steps s + A + W * (ck_rem s - ck_rem s')
    | KInvalid st => ck_steps s <= st <= ck_steps s + B + W * ck_rem s
    | KOob _ _ st => ck_steps s <= st <= ck_steps s + B + W * ck_rem s
    | KFuel => False
    end.

  Lemma Wmul x : 0 <= x -> 0 <= W * x.
  Proof. intros H. apply Z.mul_nonneg_nonneg; assumption. Qed.

  Lemma post_weaken s A B k A' B' k' out :
    post s A B k out -> 0 <= ck_rem s -> k' <= k -> A + W * k' <= A' + W * k -> B <= B' ->
    post s A' B' k' out.
  Proof.
    intros H Hr Hk HA HB. destruct out as [s'|st|kk o st|]; cbn [post] in *; lia.
  Qed.

  Lemma post_bind s A1 B1 k1 A2 B2 k2 out1 (f : ck -> ckout) :
    0 <= ck_rem s -> 0 <= k1 ->
    post s A1 B1 k1 out1 ->
    (forall s1, 0 <= ck_rem s1 -> ck_rem s1 + k1 <= ck_rem s -> post s1 A2 B2 k2 (f s1)) ->
    post s (A1 + A2) (Z.max B1 (A1 + B2 - W * k1)) (k1 + k2)
      (match out1 with
       | KOk s1 => f s1
       | KInvalid st => KInvalid st
       | KOob k o st => KOob k o st
       | KFuel => KFuel
       end).
  Proof.
    intros Hr Hk1 H1 H2. pose proof (Wmul k1 Hk1) as Hwk.
    destruct out1 as [s1|st|kk o st|]; cbn [post] in H1.
    - destruct H1 as (H1a & H1b & H1c & H1d). specialize (H2 s1 H1a H1b).
      destruct (f s1) as [s'|st|kk o st|]; cbn [post] in *; lia.
    - cbn [post]. lia.
    - cbn [post]. lia.
    - contradiction.
  Qed.

  Lemma post_pre s s1 A B k k0 c out :
    0 <= k0 -> 0 <= ck_rem s1 -> ck_rem s1 + k0 <= ck_rem s ->
    ck_steps s <= ck_steps s1 <= ck_steps s + c ->
    post s1 A B k out -> post s (A + c) (B + c) (k + k0) out.
  Proof.
    intros Hk0 Hr1 Hr Hst H. pose proof (Wmul k0 Hk0) as Hwk.
    assert (Hm : W * (ck_rem s1 + k0) <= W * ck_rem s) by (apply Z.mul_le_mono_nonneg_l; lia).
    destruct out as [s'|st|kk o st|]; cbn [post] in *; lia.
  Qed.

  Lemma post_ok_refl s : 0 <= ck_rem s -> forall B, 0 <= B -> post s 0 B 0 (KOk s).
  Proof. intros Hr B HB. cbn [post]. lia. Qed.

  Lemma touch_some kind off w s bad0 :
    touch kind b off w s = Some bad0 -> exists o, bad0 = KOob kind o (ck_steps s).
  Proof.
    unfold touch. destruct ((0 <=? off) && (off + w <=? len b)); [discriminate|].
    intros H. inversion H. eexists. reflexivity.
  Qed.

  (* ---- fields ---- *)
  Lemma fields_work v : forall al s, 0 <= ck_rem s ->
    post s (Z.of_nat (length al)) (Z.of_nat (length al)) 0 (ck_fields b v al s).
  Proof.
    induction al as [|a r IH]; intros s Hr; cbn [ck_fields].
    - cbn [post length]. lia.
    - pose proof (Wmul _ Hr) as Hwr.
      destruct (if ca_view a then None else touch 1 b (ck_c s + ca_rel a) (ca_size a) s)
        as [bad0|] eqn:E.
      + destruct (ca_view a); [discriminate|]. apply touch_some in E. destruct E as [o ->].
        cbn [post length]. lia.
      + set (s1 := tick (set_c s (if ca_last a then block_end v
                                  else ck_c s + ca_rel a + ca_size a))).
        eapply post_weaken.
        * eapply (post_pre s s1 _ _ 0 0 1); [lia|exact Hr|cbn; lia|cbn; lia|].
          apply IH. exact Hr.
        * exact Hr.
        * lia.
        * cbn [length]. lia.
        * cbn [length]. lia.
  Qed.

  (* ---- data ---- *)
  Lemma datas_work v : forall ds (first : bool) s, 0 <= ck_rem s ->
    post s (Z.of_nat (length ds)) (Z.of_nat (length ds)) (if datas_empty ds then 0 else 1)
         (ck_datas be b v ds first s).
  Proof.
    induction ds as [|t r IH]; intros first s Hr; cbn [ck_datas datas_empty].
    - cbn [post length]. lia.
    - pose proof (Wmul _ Hr) as Hwr. pose proof (tbytes_pos t) as Ht.
      set (p := if first then block_end v else ck_c s).
      destruct (touch 2 b p (tbytes t) s) as [bad0|] eqn:E.
      + apply touch_some in E. destruct E as [o ->]. cbn [post length]. lia.
      + set (n := dec be (slice b p (tbytes t))).
        assert (Hn : 0 <= n) by (apply val_nonneg; exact Hok).
        unfold validate. cbn [ck_rem ck_c ck_steps tick set_c].
        destruct (Z.ltb_spec (ck_rem s) (tbytes t)) as [Hlt|Hge].
        { cbn [post length]. lia. }
        cbn [ck_rem ck_c ck_steps].
        destruct (Z.ltb_spec (ck_rem s - tbytes t) n) as [Hlt|Hge2].
        { cbn [post length]. lia. }
        match goal with |- context [ck_datas be b v r false ?x] => set (s2 := x) end.
        eapply post_weaken.
        * eapply (post_pre s s2 _ _ _ 1 1); [lia|cbn; lia|cbn; lia|cbn; lia|].
          apply IH. cbn. lia.
        * exact Hr.
        * destruct (datas_empty r); lia.
        * cbn [length]. destruct (datas_empty r); lia.
        * cbn [length]. lia.
  Qed.

  (* ---- the mutual statement ---- *)
  Definition P_level (l : level) : Prop :=
    forall cl hdr v s,
      wf_table_level l -> wf_clevel hdr l cl -> cl_members l cl <= W ->
      0 <= ck_rem s <= len b ->
      post s (cl_members l cl) (cl_members l cl) (if is_flat l then 0 else 1)
           (ck_level be b fuel l cl v s).

  Definition P_groups (gs : groups) : Prop :=
    forall cgs v (first : bool) s,
      wf_table_groups gs -> wf_cgroups gs cgs -> gs_members gs cgs <= W ->
      0 <= ck_rem s <= len b ->
      post s (gs_members gs cgs) (gs_members gs cgs) (if groups_empty gs then 0 else 1)
           (ck_groups be b fuel gs cgs v first s).

  Lemma work_groups_nil : P_groups GNil.
  Proof.
    intros cgs v first s _ _ _ Hr. cbn [ck_groups gs_members groups_empty post]. lia.
  Qed.

  Lemma work_level_step fs gs ds : P_groups gs -> P_level (Level fs gs ds).
  Proof.
    intros IHg cl hdr v s Hwt Hwc HM Hr.
    destruct cl as [al cgs]. cbn [wf_clevel] in Hwc. destruct Hwc as [_ Hcg].
    cbn [wf_table_level] in Hwt. destruct Hwt as (_ & _ & Hwg).
    rewrite ck_level_eq. cbn [clevel_fields clevel_groups cl_members] in *.
    pose proof (gs_members_nonneg gs cgs) as Hg0.
    eapply post_weaken.
    - eapply (post_bind s _ _ 0 _ _ _ (ck_fields b v al s)
               (fun s1 => match ck_groups be b fuel gs cgs v true s1 with
                          | KOk s2 => ck_datas be b v ds (groups_empty gs) s2
                          | KInvalid st => KInvalid st
                          | KOob k o st => KOob k o st
                          | KFuel => KFuel
                          end)); [lia|lia| |].
      + apply fields_work. lia.
      + intros s1 Hr1a Hr1b.
        eapply (post_bind s1 _ _ (if groups_empty gs then 0 else 1) _ _ _
                 (ck_groups be b fuel gs cgs v true s1)
                 (fun s2 => ck_datas be b v ds (groups_empty gs) s2));
          [lia|destruct (groups_empty gs); lia| |].
        * apply IHg; try assumption; lia.
        * intros s2 Hr2a Hr2b. apply datas_work. exact Hr2a.
    - lia.
    - unfold is_flat. cbn [level_groups level_datas].
      destruct (groups_empty gs), (datas_empty ds); cbn [andb]; lia.
    - unfold is_flat. cbn [level_groups level_datas].
      destruct (groups_empty gs), (datas_empty ds); cbn [andb]; lia.
    - destruct (groups_empty gs); lia.
  Qed.

  (* entries of a nested group *)
  Lemma entries_work l cl bl :
    P_level l -> wf_table_level l -> wf_clevel 0 l cl -> is_flat l = false -> 0 <= bl ->
    cl_members l cl + 1 <= W ->
    forall j n s, 0 <= ck_rem s <= len b -> ck_rem s < Z.of_nat j ->
      post s 0 (1 + cl_members l cl) 0 (ck_entries be b fuel l cl bl j n s).
  Proof.
    intros IHl Hwl Hcl Hfl Hbl HM.
    pose proof (cl_members_nonneg l cl) as HM0.
    induction j as [|j IHj]; intros n s Hr Hj; rewrite ck_entries_eq.
    - destruct (n <=? 0); [|lia]. apply post_ok_refl; lia.
    - destruct (n <=? 0); [apply post_ok_refl; lia|].
      cbv zeta. pose proof (Wmul (ck_rem s) ltac:(lia)) as Hwr.
      set (s' := tick (if is_empty_level l cl then set_c s (ck_c s + bl) else s)).
      assert (Hs' : ck_rem s' = ck_rem s /\ ck_steps s' = ck_steps s + 1).
      { unfold s'. destruct (is_empty_level l cl); cbn; lia. }
      unfold validate.
      destruct (Z.ltb_spec (ck_rem s') bl) as [Hlt|Hge].
      + cbn [post]. lia.
      + match goal with |- context [ck_level be b fuel l cl ?e ?x] => set (ev := e); set (s2 := x) end.
        assert (Hs2 : ck_rem s2 = ck_rem s - bl /\ ck_steps s2 = ck_steps s + 1)
          by (cbn [s2 ck_rem ck_steps]; lia).
        pose proof (IHl cl 0 ev s2 Hwl Hcl ltac:(lia) ltac:(lia)) as Hl. rewrite Hfl in Hl.
        eapply post_weaken.
        * eapply (post_pre s s2 _ _ _ 0 1); [lia|lia|lia|lia|].
          eapply (post_bind s2 _ _ 1 0 (1 + cl_members l cl) 0 (ck_level be b fuel l cl ev s2)
                   (fun s3 => ck_entries be b fuel l cl bl j (n - 1) s3)); [lia|lia|exact Hl|].
          intros s3 Hr3a Hr3b. apply IHj; lia.
        * lia.
        * lia.
        * lia.
        * lia.
  Qed.

  (* what on_group does after the dimension: no iteration for a flat group *)
  Lemma group_body_work d l cl p s1 :
    P_level l -> wf_table_level l -> wf_clevel 0 l cl -> cl_members l cl + 1 <= W ->
    0 <= ck_rem s1 <= len b ->
    post s1 0 (1 + cl_members l cl) 0 (ck_group_body be b fuel d l cl p s1).
  Proof.
    intros IHl Hwl Hcl HM Hr1.
    pose proof (cl_members_nonneg l cl) as HMl.
    unfold ck_group_body. cbv zeta.
    set (bl := dec be (slice b (p + d_bl_off d) (tbytes (d_bl_t d)))).
    set (n := dec be (slice b (p + d_n_off d) (tbytes (d_n_t d)))).
    assert (Hbl : 0 <= bl) by (apply val_nonneg; exact Hok).
    assert (Hn : 0 <= n) by (apply val_nonneg; exact Hok).
    pose proof (Wmul (ck_rem s1) ltac:(lia)) as Hwr1.
    destruct (is_flat l) eqn:Hfl.
    - rewrite flat_check by lia.
      assert (Hnb : 0 <= n * bl) by (apply Z.mul_nonneg_nonneg; assumption).
      pose proof (Wmul _ Hnb) as Hwnb.
      destruct (Z.ltb_spec (ck_rem s1) (n * bl)) as [Hlt|Hge2].
      + cbn [post]. lia.
      + cbn [post ck_rem ck_steps]. lia.
    - apply entries_work; try assumption; unfold len in *; lia.
  Qed.

  Lemma work_groups_step d cbl l rest : P_level l -> P_groups rest -> P_groups (GCons d cbl l rest).
  Proof.
    intros IHl IHr cgs v first s Hwt Hwc HM Hr.
    destruct cgs as [|cl crest]; [contradiction|].
    cbn [wf_table_groups] in Hwt. destruct Hwt as (Hd & Hcbl & Hwl & Hwr).
    cbn [wf_cgroups] in Hwc. destruct Hwc as (Hcl & Hcr).
    pose proof (wf_dim_size d Hd) as Hds.
    cbn [gs_members groups_empty] in *.
    pose proof (cl_members_nonneg l cl) as HMl. pose proof (gs_members_nonneg rest crest) as HMr.
    pose proof (Wmul (ck_rem s) ltac:(lia)) as Hwrs.
    set (p := if first then block_end v else ck_c s).
    rewrite (ck_groups_cons be b fuel d cbl l rest cl crest v first s p eq_refl).
    unfold validate. cbn [ck_rem ck_c ck_steps tick set_c].
    destruct (Z.ltb_spec (ck_rem s) (d_size d)) as [Hlt|Hge].
    { cbn [post]. lia. }
    match goal with |- context [touch 3 b (p + d_bl_off d) _ ?x] => set (s1 := x) end.
    assert (Hs1 : ck_rem s1 = ck_rem s - d_size d /\ ck_steps s1 = ck_steps s + 1)
      by (cbn [s1 ck_rem ck_steps]; lia).
    destruct (touch 3 b (p + d_bl_off d) (tbytes (d_bl_t d)) s1) as [bad0|] eqn:E1.
    { apply touch_some in E1. destruct E1 as [o ->]. cbn [post]. lia. }
    destruct (touch 3 b (p + d_n_off d) (tbytes (d_n_t d)) s1) as [bad0|] eqn:E2.
    { apply touch_some in E2. destruct E2 as [o ->]. cbn [post]. lia. }
    assert (Hbody : post s1 0 (1 + cl_members l cl) 0 (ck_group_body be b fuel d l cl p s1))
      by (apply group_body_work; try assumption; lia).
    eapply post_weaken.
    - eapply (post_pre s s1 _ _ _ 2 1); [lia|lia|lia|lia|].
      eapply (post_bind s1 _ _ 0 _ _ 0 (ck_group_body be b fuel d l cl p s1)
               (fun s2 => ck_groups be b fuel rest crest v false s2)); [lia|lia|exact Hbody|].
      intros s2 Hr2a Hr2b.
      eapply post_weaken.
      + apply IHr; try assumption; lia.
      + exact Hr2a.
      + destruct (groups_empty rest); lia.
      + instantiate (1 := gs_members rest crest). destruct (groups_empty rest); lia.
      + apply Z.le_refl.
    - lia.
    - lia.
    - lia.
    - lia.
  Qed.

  Lemma work_all : (forall l, P_level l) /\ (forall gs, P_groups gs).
  Proof.
    apply level_groups_ind.
    - intros fs gs ds. apply work_level_step.
    - exact work_groups_nil.
    - intros d cbl l rest. apply work_groups_step.
  Qed.
End Work.

Theorem checked_work_bound : stmt_checked_work_bound.
Proof.
  unfold stmt_checked_work_bound. intros be b m cl fuel Hok Hs Hbo Hbe Hwt Hwc Hfuel.
  pose proof (tbytes_pos (m_bl_t m)) as Ht.
  pose proof (cl_members_nonneg (m_level m) cl) as HM.
  assert (Hlen : 0 <= len b) by (unfold len; lia).
  set (M := cl_members (m_level m) cl) in *.
  unfold size_bytes_checked.
  destruct (Z.ltb_spec (len b) (m_hdr_size m)) as [Hlt|Hge].
  { split; [discriminate|]. cbn [ckres_steps]. nia. }
  set (bl := dec be (slice b (m_bl_off m) (tbytes (m_bl_t m)))).
  assert (Hbl : 0 <= bl) by (apply val_nonneg; exact Hok).
  unfold validate. cbn [ck_rem ck_c ck_steps].
  destruct (Z.ltb_spec (len b) (m_hdr_size m)) as [|_]; [lia|].
  cbn [ck_rem ck_c ck_steps].
  destruct (Z.ltb_spec (len b - m_hdr_size m) bl) as [Hlt|Hge2].
  { split; [discriminate|]. cbn [ckres_steps]. nia. }
  match goal with |- context [ck_level be b fuel (m_level m) cl ?e ?x] => set (v := e); set (s2 := x) end.
  pose proof (proj1 (work_all be b fuel M Hok Hfuel HM) (m_level m) cl (m_hdr_size m) v s2
                Hwt Hwc ltac:(unfold M; lia) ltac:(cbn [s2 ck_rem]; lia)) as H.
  fold M in H.
  assert (Hr2 : 0 <= ck_rem s2 <= len b) by (cbn [s2 ck_rem]; lia).
  assert (Hst2 : ck_steps s2 = 0) by reflexivity.
  assert (Hm1 : 0 <= M * ck_rem s2 <= M * len b).
  { split; [apply Z.mul_nonneg_nonneg; lia|apply Z.mul_le_mono_nonneg_l; lia]. }
  destruct (ck_level be b fuel (m_level m) cl v s2) as [s3|st|k o st|]; cbn [post] in H.
  - split; [discriminate|]. cbn [ckres_steps].
    destruct H as (Ha & Hb & Hc & Hd).
    assert (0 <= M * ck_rem s3) by (apply Z.mul_nonneg_nonneg; lia).
    assert (0 <= M * (if is_flat (m_level m) then 0 else 1)) by (destruct (is_flat (m_level m)); lia).
    lia.
  - split; [discriminate|]. cbn [ckres_steps]. lia.
  - split; [discriminate|]. cbn [ckres_steps]. lia.
  - contradiction.
Qed.
Print Assumptions checked_work_bound.

(* ================================================================== *)
(* the outcome does not depend on the fuel                             *)
(* ================================================================== *)

(* consumption facts extracted from the potential (W is immaterial here) *)
Section Consume.
  Variables (be : bool) (b : list Z) (fuel : nat).
  Hypothesis Hok : bytes_ok b = true.
  Hypothesis Hfuel : (length b < fuel)%nat.

  Lemma fields_rem v al s s1 : 0 <= ck_rem s ->
    ck_fields b v al s = KOk s1 -> 0 <= ck_rem s1 <= ck_rem s.
  Proof.
    intros Hr E. pose proof (fields_work b fuel 0 Hfuel ltac:(lia) v al s Hr) as H.
    rewrite E in H. cbn [post] in H. lia.
  Qed.

  Lemma level_rem l cl hdr v s s3 :
    wf_table_level l -> wf_clevel hdr l cl -> 0 <= ck_rem s <= len b -> is_flat l = false ->
    ck_level be b fuel l cl v s = KOk s3 -> 0 <= ck_rem s3 /\ ck_rem s3 + 1 <= ck_rem s.
  Proof.
    intros Hwl Hcl Hr Hfl E.
    pose proof (cl_members_nonneg l cl) as HM.
    pose proof (proj1 (work_all be b fuel (cl_members l cl) Hok Hfuel HM) l cl hdr v s
                  Hwl Hcl ltac:(lia) Hr) as H.
    rewrite E, Hfl in H. cbn [post] in H. lia.
  Qed.

  Lemma group_body_rem d l cl p s1 s2 :
    wf_table_level l -> wf_clevel 0 l cl -> 0 <= ck_rem s1 <= len b ->
    ck_group_body be b fuel d l cl p s1 = KOk s2 -> 0 <= ck_rem s2 <= ck_rem s1.
  Proof.
    intros Hwl Hcl Hr E.
    pose proof (cl_members_nonneg l cl) as HM.
    pose proof (group_body_work be b fuel (cl_members l cl + 1) Hok Hfuel ltac:(lia) d l cl p s1
                  (proj1 (work_all be b fuel (cl_members l cl + 1) Hok Hfuel ltac:(lia)) l)
                  Hwl Hcl ltac:(lia) Hr) as H.
    rewrite E in H. cbn [post] in H. lia.
  Qed.
End Consume.

Section Fuel.
  Variables (be : bool) (b : list Z) (fuel1 fuel2 : nat).
  Hypothesis Hok : bytes_ok b = true.
  Hypothesis Hf1 : (length b < fuel1)%nat.
  Hypothesis Hf2 : (length b < fuel2)%nat.

  Definition Q_level (l : level) : Prop :=
    forall cl hdr v s,
      wf_table_level l -> wf_clevel hdr l cl -> 0 <= ck_rem s <= len b ->
      ck_level be b fuel1 l cl v s = ck_level be b fuel2 l cl v s.

  Definition Q_groups (gs : groups) : Prop :=
    forall cgs v (first : bool) s,
      wf_table_groups gs -> wf_cgroups gs cgs -> 0 <= ck_rem s <= len b ->
      ck_groups be b fuel1 gs cgs v first s = ck_groups be b fuel2 gs cgs v first s.

  Lemma fuel_level_step fs gs ds : Q_groups gs -> Q_level (Level fs gs ds).
  Proof.
    intros IHg cl hdr v s Hwt Hwc Hr.
    destruct cl as [al cgs]. cbn [wf_clevel] in Hwc. destruct Hwc as [_ Hcg].
    cbn [wf_table_level] in Hwt. destruct Hwt as (_ & _ & Hwg).
    rewrite !ck_level_eq. cbn [clevel_fields clevel_groups].
    destruct (ck_fields b v al s) as [s1|st|k o st|] eqn:Ef; try reflexivity.
    pose proof (fields_rem b fuel1 Hf1 v al s s1 ltac:(lia) Ef) as Hr1.
    rewrite (IHg cgs v true s1 Hwg Hcg ltac:(lia)). reflexivity.
  Qed.

  Lemma fuel_entries l cl bl :
    Q_level l -> wf_table_level l -> wf_clevel 0 l cl -> is_flat l = false -> 0 <= bl ->
    forall j1 j2 n s, 0 <= ck_rem s <= len b ->
      ck_rem s < Z.of_nat j1 -> ck_rem s < Z.of_nat j2 ->
      ck_entries be b fuel1 l cl bl j1 n s = ck_entries be b fuel2 l cl bl j2 n s.
  Proof.
    intros IHl Hwl Hcl Hfl Hbl.
    induction j1 as [|j1 IHj]; intros j2 n s Hr Hj1 Hj2;
      rewrite (ck_entries_eq be b fuel1), (ck_entries_eq be b fuel2).
    - destruct (n <=? 0); [reflexivity|lia].
    - destruct (n <=? 0); [reflexivity|].
      destruct j2 as [|j2]; [lia|]. cbv zeta.
      remember (tick (if is_empty_level l cl then set_c s (ck_c s + bl) else s)) as s' eqn:Es'.
      assert (Hs' : ck_rem s' = ck_rem s).
      { rewrite Es'. destruct (is_empty_level l cl); reflexivity. }
      clear Es'.
      destruct (validate s' bl) as [s2|st|k o st|] eqn:Ev; try reflexivity.
      assert (Hs2 : ck_rem s2 = ck_rem s - bl /\ bl <= ck_rem s).
      { unfold validate in Ev. destruct (Z.ltb_spec (ck_rem s') bl); [discriminate|].
        injection Ev as <-. cbn [ck_rem]. lia. }
      match goal with |- context [ck_level be b fuel1 l cl ?e s2] => set (ev := e) end.
      rewrite <- (IHl cl 0 ev s2 Hwl Hcl ltac:(lia)).
      destruct (ck_level be b fuel1 l cl ev s2) as [s3|st|k o st|] eqn:El; try reflexivity.
      pose proof (level_rem be b fuel1 Hok Hf1 l cl 0 ev s2 s3 Hwl Hcl ltac:(lia) Hfl El) as Hr3.
      apply IHj; lia.
  Qed.

  Lemma fuel_groups_step d cbl l rest : Q_level l -> Q_groups rest -> Q_groups (GCons d cbl l rest).
  Proof.
    intros IHl IHr cgs v first s Hwt Hwc Hr.
    destruct cgs as [|cl crest]; [contradiction|].
    cbn [wf_table_groups] in Hwt. destruct Hwt as (Hd & Hcbl & Hwl & Hwr).
    cbn [wf_cgroups] in Hwc. destruct Hwc as (Hcl & Hcr).
    pose proof (wf_dim_size d Hd) as Hds.
    set (p := if first then block_end v else ck_c s).
    rewrite (ck_groups_cons be b fuel1 d cbl l rest cl crest v first s p eq_refl).
    rewrite (ck_groups_cons be b fuel2 d cbl l rest cl crest v first s p eq_refl).
    destruct (validate (tick (set_c s (p + d_size d))) (d_size d)) as [s1|st|k o st|] eqn:Ev;
      try reflexivity.
    assert (Hs1 : 0 <= ck_rem s1 <= len b).
    { unfold validate in Ev. cbn [ck_rem ck_c ck_steps tick set_c] in Ev.
      destruct (Z.ltb_spec (ck_rem s) (d_size d)); [discriminate|].
      injection Ev as <-. cbn [ck_rem]. lia. }
    destruct (touch 3 b (p + d_bl_off d) (tbytes (d_bl_t d)) s1); [reflexivity|].
    destruct (touch 3 b (p + d_n_off d) (tbytes (d_n_t d)) s1); [reflexivity|].
    assert (Hbody : ck_group_body be b fuel1 d l cl p s1 = ck_group_body be b fuel2 d l cl p s1).
    { unfold ck_group_body. cbv zeta. destruct (is_flat l) eqn:Hfl; [reflexivity|].
      apply fuel_entries; try assumption; try (apply val_nonneg; exact Hok);
        unfold len in *; lia. }
    rewrite <- Hbody.
    destruct (ck_group_body be b fuel1 d l cl p s1) as [s2|st|k o st|] eqn:Eb; try reflexivity.
    pose proof (group_body_rem be b fuel1 Hok Hf1 d l cl p s1 s2 Hwl Hcl Hs1 Eb) as Hr2.
    apply IHr; try assumption; lia.
  Qed.

  Lemma fuel_all : (forall l, Q_level l) /\ (forall gs, Q_groups gs).
  Proof.
    apply level_groups_ind.
    - intros fs gs ds. apply fuel_level_step.
    - intros cgs v first s _ _ _. reflexivity.
    - intros d cbl l rest. apply fuel_groups_step.
  Qed.
End Fuel.

Theorem checked_fuel_irrelevant : stmt_checked_fuel_irrelevant.
Proof.
  unfold stmt_checked_fuel_irrelevant.
  intros be b m cl fuel1 fuel2 Hok Hs Hbo Hbe Hwt Hwc Hf1 Hf2.
  pose proof (tbytes_pos (m_bl_t m)) as Ht.
  assert (Hlen : 0 <= len b) by (unfold len; lia).
  unfold size_bytes_checked.
  destruct (Z.ltb_spec (len b) (m_hdr_size m)) as [Hlt|Hge]; [reflexivity|].
  set (bl := dec be (slice b (m_bl_off m) (tbytes (m_bl_t m)))).
  assert (Hbl : 0 <= bl) by (apply val_nonneg; exact Hok).
  unfold validate. cbn [ck_rem ck_c ck_steps].
  destruct (Z.ltb_spec (len b) (m_hdr_size m)) as [|_]; [lia|].
  cbn [ck_rem ck_c ck_steps].
  destruct (Z.ltb_spec (len b - m_hdr_size m) bl) as [Hlt|Hge2]; [reflexivity|].
  match goal with |- context [ck_level be b fuel1 (m_level m) cl ?e ?x] => set (v := e); set (s2 := x) end.
  rewrite (proj1 (fuel_all be b fuel1 fuel2 Hok Hf1 Hf2) (m_level m) cl (m_hdr_size m) v s2
             Hwt Hwc ltac:(cbn [s2 ck_rem]; lia)).
  reflexivity.
Qed.
Print Assumptions checked_fuel_irrelevant.
