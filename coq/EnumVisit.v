(* EnumVisit.v — model of the generated tag_invoke(visit_tag, Enum, Visitor)
   (types_compiler.hpp:357-395): a switch over the validValue constants that
   calls on_enum_value(e, <value tag>) for the matching case and
   on_enum_value(e, unknown_enum_value_tag) in the default branch. *)
From Coq Require Import ZArith List Bool Lia.
Import ListNotations.
Local Open Scope Z_scope.

(* index of the validValue whose constant equals [v] *)
Fixpoint enum_visit (vals : list Z) (v : Z) : option nat :=
  match vals with
  | [] => None
  | x :: r => if x =? v then Some O else option_map S (enum_visit r v)
  end.

Lemma enum_visit_some vals v i :
  enum_visit vals v = Some i -> nth_error vals i = Some v.
Proof.
  revert i. induction vals as [|x r IH]; intros i H; [discriminate|].
  cbn in H. destruct (Z.eqb_spec x v) as [->|Hne].
  - injection H as <-. reflexivity.
  - destruct (enum_visit r v) as [j|] eqn:E; [|discriminate].
    injection H as <-. cbn. apply IH. reflexivity.
Qed.

Lemma enum_visit_none vals v : enum_visit vals v = None <-> ~ In v vals.
Proof.
  induction vals as [|x r IH]; cbn; [tauto|].
  destruct (Z.eqb_spec x v) as [->|Hne].
  - split; [discriminate|]. intros H. exfalso. apply H. now left.
  - destruct (enum_visit r v) eqn:E; cbn.
    + split; [discriminate|]. intros H.
      assert (Hn : ~ In v r) by (intros Hin; apply H; now right).
      apply IH in Hn. discriminate.
    + split; [|reflexivity]. intros _ [Heq|Hin]; [congruence|].
      exact (proj1 IH eq_refl Hin).
Qed.

(* with pairwise distinct constants (enforced by the schema) the reported tag
   is THE tag of the value *)
Lemma enum_visit_unique vals v i :
  NoDup vals -> nth_error vals i = Some v -> enum_visit vals v = Some i.
Proof.
  revert i. induction vals as [|x r IH]; intros i Hnd Hn; [destruct i; discriminate|].
  inversion Hnd as [|? ? Hnot Hnd']; subst. cbn.
  destruct i as [|i]; cbn in Hn.
  - injection Hn as ->. rewrite Z.eqb_refl. reflexivity.
  - destruct (Z.eqb_spec x v) as [->|Hne].
    + exfalso. apply Hnot. eapply nth_error_In; eauto.
    + rewrite (IH i Hnd' Hn). reflexivity.
Qed.
