(* GroupIterProofs.v — lemmas and proofs about GroupIter.v (C12). *)
From Coq Require Import ZArith Bool Lia List.
From Sbepp Require Import CInt CIntFacts GroupIter.
Import ListNotations.
Import GI.
Local Open Scope Z_scope.

(* ------------------------------------------------------------------ *)
(* CInt helpers                                                        *)
(* ------------------------------------------------------------------ *)
Lemma in_range_of t z : tmin t <= z <= tmax t -> in_range t z = true.
Proof. intros H. apply in_range_iff. exact H. Qed.

Lemma wrap_id' t z : tmin t <= z <= tmax t -> wrap t z = z.
Proof. intros H. apply wrap_id, in_range_of, H. Qed.

Lemma uns_cases t : is_uns t = true -> t = U8 \/ t = U16 \/ t = U32 \/ t = U64.
Proof. destruct t; try discriminate; intros _; auto. Qed.

Lemma uns_range t z : is_uns t = true -> in_range t z = true -> 0 <= z < 2 ^ bits t.
Proof.
  intros Hu Hr. apply in_range_iff in Hr.
  destruct t; try discriminate Hu; cbn in *; lia.
Qed.

Lemma uns_range_64 t z : is_uns t = true -> in_range t z = true ->
  0 <= z < 18446744073709551616.
Proof.
  intros Hu Hr. apply in_range_iff in Hr.
  destruct t; try discriminate Hu; cbn in *; lia.
Qed.

Lemma wrap_uns_add t a b : is_signed t = false ->
  wrap t (wrap t a + wrap t b) = wrap t (a + b).
Proof. intros Hs. unfold wrap. rewrite Hs. symmetry. apply Zplus_mod. Qed.

Lemma wrap_uns_sub t a b : is_signed t = false ->
  wrap t (wrap t a - wrap t b) = wrap t (a - b).
Proof. intros Hs. unfold wrap. rewrite Hs. symmetry. apply Zminus_mod. Qed.

Lemma wrap_uns_mul t a b : is_signed t = false ->
  wrap t (wrap t a * wrap t b) = wrap t (a * b).
Proof. intros Hs. unfold wrap. rewrite Hs. symmetry. apply Zmult_mod. Qed.

(* converting an unsigned value to the signed type of the same width *)
Lemma wrap_signed_of_unsigned t x : is_uns t = true ->
  wrap (to_signed t) (wrap t x) = wrap (to_signed t) x.
Proof.
  intros Hu. destruct t; try discriminate Hu; unfold wrap; cbn;
    rewrite Zplus_mod_idemp_l; reflexivity.
Qed.

Lemma padd_id p v : tmin I64 <= p + v <= tmax I64 -> padd p v = p + v.
Proof. intros H. unfold padd. apply wrap_id'. exact H. Qed.

Lemma psub_id p v : tmin I64 <= p - v <= tmax I64 -> psub p v = p - v.
Proof. intros H. unfold psub. apply wrap_id'. exact H. Qed.

Lemma cmul_i64 a b :
  tmin I64 <= a <= tmax I64 -> tmin I64 <= b <= tmax I64 ->
  tmin I64 <= a * b <= tmax I64 ->
  cmul I64 I64 a b = Some (a * b).
Proof.
  intros Ha Hb Hab. unfold cmul, cbin. cbn [uac promote ity_eqb].
  rewrite (wrap_id' I64 a Ha), (wrap_id' I64 b Hb).
  unfold arith. cbn [is_signed]. rewrite (in_range_of _ _ Hab). reflexivity.
Qed.

(* the byte offset of the repaired operator+= is the mathematical product *)
Lemma offset_fixed_ok S B n bl :
  tmin I64 <= n <= tmax I64 -> 0 <= bl < 2 ^ 64 ->
  - 2 ^ 63 < n * bl < 2 ^ 63 ->
  offset_fixed S B n bl = Some (n * bl).
Proof.
  intros Hn Hbl Hp. unfold offset_fixed, ccast, PTRDIFF_T.
  rewrite (wrap_id' I64 n Hn).
  destruct (Z.eq_dec n 0) as [->|Hne].
  - pose proof (wrap_range I64 bl) as Hw. apply in_range_iff in Hw.
    rewrite cmul_i64; [reflexivity|cbn; lia|exact Hw|cbn; lia].
  - assert (Hb63 : bl < 2 ^ 63) by nia.
    assert (Hbr : tmin I64 <= bl <= tmax I64) by (cbn in *; lia).
    rewrite (wrap_id' I64 bl Hbr).
    apply cmul_i64; [exact Hn|exact Hbr|cbn in *; lia].
Qed.

(* index += n *)
Lemma idx_add_ok S idx n : is_uns S = true ->
  in_range S idx = true -> in_range (dty S) n = true -> in_range S (idx + n) = true ->
  idx_add S idx n = GOk (idx + n).
Proof.
  intros Hu Hi Hn Hr. apply in_range_iff in Hi, Hn, Hr.
  unfold idx_add, cadd, cbin, ccast.
  destruct S; try discriminate Hu; cbn [dty to_signed uac promote ity_eqb] in *.
  - (* uint8 + int8 in int *)
    rewrite (wrap_id' I32 idx), (wrap_id' I32 n) by (cbn in *; lia).
    unfold arith. cbn [is_signed]. rewrite in_range_of by (cbn in *; lia).
    cbn [of_opt gbind]. rewrite wrap_id' by exact Hr. reflexivity.
  - rewrite (wrap_id' I32 idx), (wrap_id' I32 n) by (cbn in *; lia).
    unfold arith. cbn [is_signed]. rewrite in_range_of by (cbn in *; lia).
    cbn [of_opt gbind]. rewrite wrap_id' by exact Hr. reflexivity.
  - unfold arith. cbn [is_signed]. rewrite wrap_uns_add by reflexivity.
    cbn [of_opt gbind]. rewrite (wrap_id' U32 (idx + n) Hr), wrap_id' by exact Hr. reflexivity.
  - unfold arith. cbn [is_signed]. rewrite wrap_uns_add by reflexivity.
    cbn [of_opt gbind]. rewrite (wrap_id' U64 (idx + n) Hr), wrap_id' by exact Hr. reflexivity.
Qed.

(* index++ and index-- *)
Lemma idx_inc_ok S idx : is_uns S = true ->
  in_range S idx = true -> in_range S (idx + 1) = true ->
  idx_step cadd S idx = GOk (idx + 1).
Proof.
  intros Hu Hi Hr. apply in_range_iff in Hi, Hr.
  unfold idx_step, cadd, cbin, ccast, INT.
  destruct S; try discriminate Hu; cbn [uac promote ity_eqb] in *.
  - rewrite (wrap_id' I32 idx), (wrap_id' I32 1) by (cbn in *; lia).
    unfold arith. cbn [is_signed]. rewrite in_range_of by (cbn in *; lia).
    cbn [of_opt gbind]. rewrite wrap_id' by exact Hr. reflexivity.
  - rewrite (wrap_id' I32 idx), (wrap_id' I32 1) by (cbn in *; lia).
    unfold arith. cbn [is_signed]. rewrite in_range_of by (cbn in *; lia).
    cbn [of_opt gbind]. rewrite wrap_id' by exact Hr. reflexivity.
  - unfold arith. cbn [is_signed]. rewrite wrap_uns_add by reflexivity.
    cbn [of_opt gbind]. rewrite (wrap_id' U32 (idx + 1) Hr), wrap_id' by exact Hr. reflexivity.
  - unfold arith. cbn [is_signed]. rewrite wrap_uns_add by reflexivity.
    cbn [of_opt gbind]. rewrite (wrap_id' U64 (idx + 1) Hr), wrap_id' by exact Hr. reflexivity.
Qed.

Lemma idx_dec_ok S idx : is_uns S = true ->
  in_range S idx = true -> in_range S (idx - 1) = true ->
  idx_step csub S idx = GOk (idx - 1).
Proof.
  intros Hu Hi Hr. apply in_range_iff in Hi, Hr.
  unfold idx_step, csub, cbin, ccast, INT.
  destruct S; try discriminate Hu; cbn [uac promote ity_eqb] in *.
  - rewrite (wrap_id' I32 idx), (wrap_id' I32 1) by (cbn in *; lia).
    unfold arith. cbn [is_signed]. rewrite in_range_of by (cbn in *; lia).
    cbn [of_opt gbind]. rewrite wrap_id' by exact Hr. reflexivity.
  - rewrite (wrap_id' I32 idx), (wrap_id' I32 1) by (cbn in *; lia).
    unfold arith. cbn [is_signed]. rewrite in_range_of by (cbn in *; lia).
    cbn [of_opt gbind]. rewrite wrap_id' by exact Hr. reflexivity.
  - unfold arith. cbn [is_signed]. rewrite wrap_uns_sub by reflexivity.
    cbn [of_opt gbind]. rewrite (wrap_id' U32 (idx - 1) Hr), wrap_id' by exact Hr. reflexivity.
  - unfold arith. cbn [is_signed]. rewrite wrap_uns_sub by reflexivity.
    cbn [of_opt gbind]. rewrite (wrap_id' U64 (idx - 1) Hr), wrap_id' by exact Hr. reflexivity.
Qed.

(* -n for a difference_type value other than its minimum *)
Lemma neg_diff_ok S n : is_uns S = true ->
  - tmax (dty S) <= n <= tmax (dty S) ->
  cneg (dty S) n = Some (- n) /\ ccast (dty S) (- n) = - n /\
  in_range (dty S) n = true /\ in_range (dty S) (- n) = true.
Proof.
  intros Hu Hn. unfold cneg, ccast.
  destruct S; try discriminate Hu; cbn [dty to_signed promote] in *;
    unfold arith; cbn [is_signed];
    (rewrite in_range_of by (cbn in *; lia));
    (rewrite wrap_id' by (cbn in *; lia));
    repeat split; apply in_range_of; cbn in *; lia.
Qed.

(* index - rhs.index converted to difference_type *)
Lemma it_diff_ok S a b : is_uns S = true ->
  in_range S (i_idx a) = true -> in_range S (i_idx b) = true ->
  in_range (dty S) (i_idx a - i_idx b) = true ->
  it_diff S a b = GOk (i_idx a - i_idx b).
Proof.
  intros Hu Ha Hb Hd. apply in_range_iff in Ha, Hb. pose proof Hd as Hd'. apply in_range_iff in Hd'.
  unfold it_diff, csub, cbin, ccast.
  destruct S; try discriminate Hu; cbn [dty to_signed uac promote ity_eqb] in *.
  - rewrite (wrap_id' I32 (i_idx a)), (wrap_id' I32 (i_idx b)) by (cbn in *; lia).
    unfold arith. cbn [is_signed]. rewrite in_range_of by (cbn in *; lia).
    cbn [of_opt gbind]. rewrite wrap_id' by exact Hd'. reflexivity.
  - rewrite (wrap_id' I32 (i_idx a)), (wrap_id' I32 (i_idx b)) by (cbn in *; lia).
    unfold arith. cbn [is_signed]. rewrite in_range_of by (cbn in *; lia).
    cbn [of_opt gbind]. rewrite wrap_id' by exact Hd'. reflexivity.
  - unfold arith. cbn [is_signed]. rewrite wrap_uns_sub by reflexivity.
    cbn [of_opt gbind]. rewrite (wrap_signed_of_unsigned U32) by reflexivity.
    cbn [to_signed]. rewrite wrap_id' by exact Hd'. reflexivity.
  - unfold arith. cbn [is_signed]. rewrite wrap_uns_sub by reflexivity.
    cbn [of_opt gbind]. rewrite (wrap_signed_of_unsigned U64) by reflexivity.
    cbn [to_signed]. rewrite wrap_id' by exact Hd'. reflexivity.
Qed.

(* difference_type values are ptrdiff_t values *)
Lemma diff_in_i64 S n : is_uns S = true -> in_range (dty S) n = true ->
  tmin I64 <= n <= tmax I64.
Proof.
  intros Hu Hn. apply in_range_iff in Hn.
  destruct S; try discriminate Hu; cbn in *; lia.
Qed.

(* ------------------------------------------------------------------ *)
(* random_access_iterator                                              *)
(* ------------------------------------------------------------------ *)

(* the iterator denoting entry [i] of a group whose first entry is at [base]:
   this is the specification of where an iterator should be *)
Definition it_at (base bl e i : Z) : iter := mkIter (base + i * bl) bl i e.

(* the representability guards of one step from index [i] to index [j] *)
Definition step_ok (S : ity) (base bl i j : Z) : Prop :=
  in_range S i = true /\ in_range S j = true /\
  i * bl < 2 ^ 63 /\ j * bl < 2 ^ 63 /\
  tmin I64 <= base + j * bl <= tmax I64.

Lemma it_add_with_at S B base bl e i n :
  is_uns S = true -> is_uns B = true -> in_range B bl = true ->
  in_range (dty S) n = true -> step_ok S base bl i (i + n) ->
  it_add_with offset_fixed S B (it_at base bl e i) n = GOk (it_at base bl e (i + n)).
Proof.
  intros HS HB Hbl Hn (Hi & Hj & Hib & Hjb & Haddr).
  pose proof (uns_range_64 B bl HB Hbl) as Hbl'.
  pose proof (uns_range_64 S i HS Hi) as Hi'.
  pose proof (uns_range_64 S _ HS Hj) as Hj'.
  pose proof (diff_in_i64 S n HS Hn) as Hn64.
  assert (Hp1 : 0 <= i * bl) by (apply Z.mul_nonneg_nonneg; lia).
  assert (Hp2 : 0 <= (i + n) * bl) by (apply Z.mul_nonneg_nonneg; lia).
  assert (Hnb : n * bl = (i + n) * bl - i * bl) by ring.
  unfold it_add_with, it_at. cbn [i_ptr i_bl i_idx i_end].
  rewrite offset_fixed_ok; [|exact Hn64|change (2 ^ 64) with 18446744073709551616; lia|].
  2:{ rewrite Hnb. change (2 ^ 63) with 9223372036854775808 in *. lia. }
  cbn [of_opt gbind]. rewrite idx_add_ok by assumption. cbn [gbind].
  rewrite padd_id.
  - do 2 f_equal. ring.
  - replace (base + i * bl + n * bl) with (base + (i + n) * bl) by ring. exact Haddr.
Qed.

Lemma it_plus_at S B base bl e i n :
  is_uns S = true -> is_uns B = true -> in_range B bl = true ->
  in_range (dty S) n = true -> step_ok S base bl i (i + n) ->
  it_plus S B (it_at base bl e i) n = GOk (it_at base bl e (i + n)).
Proof.
  intros HS HB Hbl Hn Hstep. unfold it_plus, it_add_assign_g, to_diff, ccast.
  rewrite wrap_id by exact Hn. apply it_add_with_at; assumption.
Qed.

Lemma it_minus_at S B base bl e i n :
  is_uns S = true -> is_uns B = true -> in_range B bl = true ->
  - tmax (dty S) <= n <= tmax (dty S) -> step_ok S base bl i (i - n) ->
  it_minus S B (it_at base bl e i) n = GOk (it_at base bl e (i - n)).
Proof.
  intros HS HB Hbl Hn Hstep.
  destruct (neg_diff_ok S n HS Hn) as (Hneg & Hcast & Hr & Hrn).
  unfold it_minus, it_sub_assign_g, to_diff.
  assert (Hcn : ccast (dty S) n = n) by (apply wrap_id; exact Hr).
  rewrite Hcn, Hneg. cbn [of_opt gbind]. rewrite Hcast.
  replace (i - n) with (i + - n) in * by ring.
  apply it_add_with_at; assumption.
Qed.

(* (it + n) - n == it and (it - n) + n == it, for positive and negative n *)
Theorem plus_minus_cancel S B base bl e i n :
  is_uns S = true -> is_uns B = true -> in_range B bl = true ->
  - tmax (dty S) <= n <= tmax (dty S) -> step_ok S base bl i (i + n) ->
  tmin I64 <= base + i * bl <= tmax I64 ->
  it_plus S B (it_at base bl e i) n = GOk (it_at base bl e (i + n)) /\
  it_minus S B (it_at base bl e (i + n)) n = GOk (it_at base bl e i).
Proof.
  intros HS HB Hbl Hn Hstep Hai.
  destruct (neg_diff_ok S n HS Hn) as (_ & _ & Hr & _).
  split; [apply it_plus_at; assumption|].
  replace i with (i + n - n) at 2 by ring.
  apply it_minus_at; try assumption.
  destruct Hstep as (Hi & Hj & Hib & Hjb & Haddr).
  replace (i + n - n) with i by ring. repeat split; assumption || lia.
Qed.

Theorem minus_plus_cancel S B base bl e i n :
  is_uns S = true -> is_uns B = true -> in_range B bl = true ->
  - tmax (dty S) <= n <= tmax (dty S) -> step_ok S base bl i (i - n) ->
  tmin I64 <= base + i * bl <= tmax I64 ->
  it_minus S B (it_at base bl e i) n = GOk (it_at base bl e (i - n)) /\
  it_plus S B (it_at base bl e (i - n)) n = GOk (it_at base bl e i).
Proof.
  intros HS HB Hbl Hn Hstep Hai.
  destruct (neg_diff_ok S n HS Hn) as (_ & _ & Hr & _).
  split; [apply it_minus_at; assumption|].
  replace i with (i - n + n) at 2 by ring.
  apply it_plus_at; try assumption.
  destruct Hstep as (Hi & Hj & Hib & Hjb & Haddr).
  replace (i - n + n) with i by ring. repeat split; assumption || lia.
Qed.

(* it[n] is *(it + n), and both are the address of entry i + n *)
Theorem subscript_is_plus S B base bl e i n :
  is_uns S = true -> is_uns B = true -> in_range B bl = true ->
  in_range (dty S) n = true -> step_ok S base bl i (i + n) ->
  it_subscript S B (it_at base bl e i) n = GOk (base + (i + n) * bl) /\
  gbind (it_plus S B (it_at base bl e i) n) (fun r => GOk (it_deref r))
    = GOk (base + (i + n) * bl).
Proof.
  intros HS HB Hbl Hn Hstep. unfold it_subscript.
  rewrite it_plus_at by assumption. cbn. split; reflexivity.
Qed.

(* ++ / -- move by exactly one entry *)
Lemma it_inc_at chk S B base bl e i :
  is_uns S = true -> is_uns B = true -> in_range B bl = true ->
  step_ok S base bl i (i + 1) ->
  (chk = true -> 0 <= e - (base + i * bl) < 2 ^ 64 /\ base + (i + 1) * bl <= e) ->
  it_inc chk S B (it_at base bl e i) = GOk (it_at base bl e (i + 1)).
Proof.
  intros HS HB Hbl (Hi & Hj & Hib & Hjb & Haddr) Hchk.
  pose proof (uns_range_64 B bl HB Hbl) as Hbl'.
  unfold it_inc, it_at. cbn [i_ptr i_bl i_idx i_end].
  assert (Hsc : size_check chk (base + i * bl) e bl = true).
  { unfold size_check. destruct chk; [|reflexivity]. cbn [negb orb].
    destruct (Hchk eq_refl) as [Hr Hle].
    apply andb_true_iff; split; [apply Z.leb_le; lia|].
    apply Z.leb_le. unfold SIZE_T.
    rewrite !wrap_id' by (cbn; change (2 ^ 64) with 18446744073709551616 in *; lia).
    lia. }
  rewrite Hsc, idx_inc_ok by assumption. cbn [gbind].
  rewrite padd_id.
  - do 2 f_equal. ring.
  - replace (base + i * bl + bl) with (base + (i + 1) * bl) by ring. exact Haddr.
Qed.

Lemma it_dec_at S B base bl e i :
  is_uns S = true -> is_uns B = true -> in_range B bl = true ->
  step_ok S base bl i (i - 1) ->
  it_dec S B (it_at base bl e i) = GOk (it_at base bl e (i - 1)).
Proof.
  intros HS HB Hbl (Hi & Hj & Hib & Hjb & Haddr).
  unfold it_dec, it_at. cbn [i_ptr i_bl i_idx i_end].
  rewrite idx_dec_ok by assumption. cbn [gbind].
  rewrite psub_id.
  - do 2 f_equal. ring.
  - replace (base + i * bl - bl) with (base + (i - 1) * bl) by ring. exact Haddr.
Qed.

(* distance = index difference *)
Theorem distance_is_index_diff S base bl e i j :
  is_uns S = true -> in_range S i = true -> in_range S j = true ->
  in_range (dty S) (i - j) = true ->
  it_diff S (it_at base bl e i) (it_at base bl e j) = GOk (i - j).
Proof. intros HS Hi Hj Hd. apply (it_diff_ok S (it_at base bl e i) (it_at base bl e j)); assumption. Qed.

(* ordering = index ordering; for non-empty blocks it is also address order *)
Theorem order_is_index_order base bl e i j :
  let a := it_at base bl e i in
  let b := it_at base bl e j in
  it_eq a b = (i =? j) /\ it_lt a b = (i <? j) /\ it_le a b = (i <=? j) /\
  (0 < bl -> it_lt a b = (it_deref a <? it_deref b) /\
             it_eq a b = (it_deref a =? it_deref b)) /\
  (bl = 0 -> it_deref a = it_deref b).
Proof.
  cbn. unfold it_eq, it_lt, it_le, it_deref, it_at. cbn [i_idx i_ptr].
  repeat split; try reflexivity.
  - destruct (Z.ltb_spec i j), (Z.ltb_spec (base + i * bl) (base + j * bl)); try reflexivity; nia.
  - destruct (Z.eqb_spec i j), (Z.eqb_spec (base + i * bl) (base + j * bl)); try reflexivity; nia.
  - intros ->. lia.
Qed.

(* ------------------------------------------------------------------ *)
(* flat_group_base                                                     *)
(* ------------------------------------------------------------------ *)

(* header contents are values of the header types; the dimension composite
   (size [g_hdr g] = sbepp::size_bytes(dimension), ANY such size) has room for
   blockLength and numInGroup and its size is below 2^63, so that
   header size + numInGroup * blockLength (< 2^63 in the theorems) does not
   wrap std::size_t; the address of the first entry is a representable address *)
Definition wf_grp (S B : ity) (g : grp) : Prop :=
  is_uns S = true /\ is_uns B = true /\
  in_range S (g_ng g) = true /\ in_range B (g_bl g) = true /\
  wsize B + wsize S <= g_hdr g < 2 ^ 63 /\
  tmin I64 <= g_ptr g + g_hdr g <= tmax I64.

(* precondition of every accessor when size checks are enabled: the view
   [g_ptr, g_end) covers the header and all the entries the header announces *)
Definition fits (chk : bool) (S B : ity) (g : grp) : Prop :=
  chk = true ->
  0 <= g_end g - g_ptr g < 2 ^ 64 /\
  g_ptr g + g_hdr g + g_ng g * g_bl g <= g_end g.

Lemma wsize_pos t : 1 <= wsize t <= 8.
Proof. destruct t; cbn; lia. Qed.

(* the header of a well-formed group is at least 2 bytes *)
Lemma wf_hdr_bounds S B g : wf_grp S B g -> 2 <= g_hdr g < 9223372036854775808.
Proof.
  intros (_ & _ & _ & _ & Hh & _). pose proof (wsize_pos S). pose proof (wsize_pos B).
  change (2 ^ 63) with 9223372036854775808 in Hh. lia.
Qed.

Lemma hdr_size_bounds S B : is_uns S = true -> is_uns B = true -> 2 <= hdr_size S B <= 16.
Proof.
  intros HS HB. destruct S; try discriminate HS; destruct B; try discriminate HB; cbn; lia.
Qed.

Lemma hdr_ok_fits chk S B g : wf_grp S B g -> fits chk S B g -> hdr_ok chk S B g = true.
Proof.
  intros Hwf Hf. pose proof (wf_hdr_bounds S B g Hwf) as Hh.
  destruct Hwf as (HS & HB & Hng & Hbl & Hhd & Ha). unfold hdr_ok, size_check.
  destruct chk; [|reflexivity]. cbn [negb orb]. destruct (Hf eq_refl) as [Hr Hle].
  pose proof (uns_range_64 S _ HS Hng). pose proof (uns_range_64 B _ HB Hbl).
  assert (0 <= g_ng g * g_bl g) by (apply Z.mul_nonneg_nonneg; lia).
  apply andb_true_iff; split; [apply Z.leb_le; lia|].
  apply Z.leb_le. unfold SIZE_T.
  rewrite !wrap_id' by (cbn; change (2 ^ 64) with 18446744073709551616 in *; lia).
  lia.
Qed.

(* static_cast<std::size_t>(a) * block_length *)
Lemma cmul_sizet B a bl : is_uns B = true -> in_range B bl = true ->
  0 <= a -> a * bl < 2 ^ 64 ->
  cmul SIZE_T B (ccast SIZE_T a) bl = Some (a * bl) /\ uac SIZE_T B = U64.
Proof.
  intros HB Hbl Ha Hp. pose proof (uns_range_64 B bl HB Hbl) as Hbl'.
  change (2 ^ 64) with 18446744073709551616 in Hp.
  assert (Hu : uac SIZE_T B = U64) by (destruct B; try discriminate HB; reflexivity).
  split; [|exact Hu].
  unfold cmul, cbin. rewrite Hu. unfold ccast, SIZE_T, arith. cbn [is_signed].
  rewrite (wrap_id' U64 bl) by (cbn; lia).
  destruct (Z.eq_dec bl 0) as [->|Hne].
  - rewrite !Z.mul_0_r. reflexivity.
  - assert (a < 18446744073709551616) by nia.
    rewrite !(wrap_id' U64 a) by (cbn; lia).
    rewrite wrap_id' by (cbn; nia). reflexivity.
Qed.

(* for every header size H (as long as H + numInGroup * blockLength is a
   std::size_t value) *)
Lemma size_bytes_fixed_ok S B H ng bl :
  is_uns S = true -> is_uns B = true -> in_range S ng = true -> in_range B bl = true ->
  0 <= H -> H + ng * bl < 2 ^ 64 ->
  size_bytes_fixed S B H ng bl = Some (H + ng * bl).
Proof.
  intros HS HB Hng Hbl Hh Hp.
  pose proof (uns_range_64 S ng HS Hng) as Hng'. pose proof (uns_range_64 B bl HB Hbl) as Hbl'.
  assert (0 <= ng * bl) by (apply Z.mul_nonneg_nonneg; lia).
  change (2 ^ 64) with 18446744073709551616 in Hp.
  unfold size_bytes_fixed.
  destruct (cmul_sizet B ng bl HB Hbl) as [Hm Hu];
    [lia|change (2 ^ 64) with 18446744073709551616; lia|].
  rewrite Hm, Hu. cbn [obind]. unfold cadd, cbin, SIZE_T. cbn [uac promote ity_eqb].
  unfold arith. cbn [is_signed]. rewrite wrap_uns_add by reflexivity.
  rewrite wrap_id' by (cbn; lia). reflexivity.
Qed.

Lemma g_begin_ok chk S B g : wf_grp S B g -> fits chk S B g ->
  g_begin chk S B g = GOk (it_at (g_ptr g + g_hdr g) (g_bl g) (g_end g) 0).
Proof.
  intros Hwf Hf. unfold g_begin, gassert. rewrite (hdr_ok_fits chk S B g Hwf Hf), orb_true_r.
  destruct Hwf as (HS & HB & Hng & Hbl & Hhd & Ha).
  unfold g_begin_ptr, it_at. rewrite padd_id by exact Ha. do 2 f_equal. ring.
Qed.

(* end() is positioned after the last entry and carries index numInGroup *)
Lemma g_end_it_ok chk S B g : wf_grp S B g -> fits chk S B g ->
  g_ng g * g_bl g < 2 ^ 63 ->
  tmin I64 <= g_ptr g + g_hdr g + g_ng g * g_bl g <= tmax I64 ->
  g_end_it chk S B g = GOk (it_at (g_ptr g + g_hdr g) (g_bl g) (g_end g) (g_ng g)).
Proof.
  intros Hwf Hf Hp Ha. pose proof (hdr_ok_fits chk S B g Hwf Hf) as Hh.
  pose proof (wf_hdr_bounds S B g Hwf) as Hhs.
  destruct Hwf as (HS & HB & Hng & Hbl & Hhd & Hb).
  change (2 ^ 63) with 9223372036854775808 in Hp.
  unfold g_end_it, g_end_it_g, g_size_bytes_g, gassert. rewrite Hh, orb_true_r.
  rewrite size_bytes_fixed_ok by (assumption || lia || (change (2 ^ 64) with 18446744073709551616; lia)).
  cbn [of_opt gbind]. unfold it_at.
  rewrite padd_id by (rewrite Z.add_assoc; exact Ha).
  do 2 f_equal. ring.
Qed.

(* begin() + size() == end(): same position, same index, compares equal;
   and stepping size() times with ++ reaches end() as well *)
Theorem begin_plus_size chk S B g : wf_grp S B g -> fits chk S B g ->
  g_ng g * g_bl g < 2 ^ 63 ->
  tmin I64 <= g_ptr g + g_hdr g + g_ng g * g_bl g <= tmax I64 ->
  in_range (dty S) (g_ng g) = true ->
  exists b e,
    g_begin chk S B g = GOk b /\ g_end_it chk S B g = GOk e /\
    it_plus S B b (g_ng g) = GOk e /\
    i_ptr e = g_ptr g + g_hdr g + g_ng g * g_bl g /\ i_idx e = g_ng g /\
    it_diff S e b = GOk (g_ng g).
Proof.
  intros Hwf Hf Hp Ha Hd.
  exists (it_at (g_ptr g + g_hdr g) (g_bl g) (g_end g) 0),
         (it_at (g_ptr g + g_hdr g) (g_bl g) (g_end g) (g_ng g)).
  rewrite g_begin_ok, g_end_it_ok by assumption.
  destruct Hwf as (HS & HB & Hng & Hbl & Hhd & Hb).
  pose proof (uns_range_64 S _ HS Hng).
  assert (H0 : in_range S 0 = true)
    by (apply in_range_of; destruct S; try discriminate HS; cbn; lia).
  split; [reflexivity|]. split; [reflexivity|].
  split; [|split; [|split]].
  - replace (g_ng g) with (0 + g_ng g) at 2 by ring.
    apply it_plus_at; try assumption.
    rewrite Z.add_0_l. repeat split; try assumption; lia.
  - cbn. ring.
  - reflexivity.
  - rewrite distance_is_index_diff; try assumption.
    + f_equal. ring.
    + rewrite Z.sub_0_r. exact Hd.
Qed.

(* the i-th ++ from begin() is at entry i (i <= numInGroup); zero-length
   blocks included *)
Lemma it_inc_n_at chk S B base bl e k : forall i,
  is_uns S = true -> is_uns B = true -> in_range B bl = true ->
  0 <= i -> in_range S (i + Z.of_nat k) = true ->
  (i + Z.of_nat k) * bl < 2 ^ 63 ->
  tmin I64 <= base -> base + (i + Z.of_nat k) * bl <= tmax I64 ->
  (chk = true -> e - (base + i * bl) < 2 ^ 64 /\ base + (i + Z.of_nat k) * bl <= e) ->
  it_inc_n chk S B k (it_at base bl e i) = GOk (it_at base bl e (i + Z.of_nat k)).
Proof.
  induction k as [|k IH]; intros i HS HB Hbl Hi Hr Hp Hlo Hhi Hchk.
  - cbn [it_inc_n]. rewrite Z.add_0_r. reflexivity.
  - pose proof (uns_range_64 B bl HB Hbl) as Hbl'.
    pose proof (uns_range_64 S _ HS Hr) as Hr'.
    pose proof (proj1 (in_range_iff _ _) Hr) as Hr2.
    rewrite Nat2Z.inj_succ in *.
    change (2 ^ 63) with 9223372036854775808 in *.
    change (2 ^ 64) with 18446744073709551616 in *.
    assert (Hm0 : 0 <= i * bl) by (apply Z.mul_nonneg_nonneg; lia).
    assert (Hm1 : i * bl <= (i + 1) * bl) by nia.
    assert (Hm2 : (i + 1) * bl <= (i + Z.succ (Z.of_nat k)) * bl) by nia.
    cbn [it_inc_n]. rewrite it_inc_at; try assumption.
    + cbn [gbind]. replace (i + Z.succ (Z.of_nat k)) with (i + 1 + Z.of_nat k) in * by lia.
      apply IH; try assumption; try lia.
      intros Hc. destruct (Hchk Hc). split; lia.
    + repeat split; try lia;
        apply in_range_of; destruct S; try discriminate HS; cbn in *; lia.
    + intros Hc. destruct (Hchk Hc). change (2 ^ 64) with 18446744073709551616. lia.
Qed.

(* operator[](pos), front(), back() denote entries pos, 0, numInGroup-1,
   which start at data start + i * wire blockLength *)
Lemma g_at_ok chk S B g pos : wf_grp S B g -> fits chk S B g ->
  0 <= pos < g_ng g -> pos * g_bl g < 2 ^ 63 ->
  tmin I64 <= g_ptr g + g_hdr g + pos * g_bl g <= tmax I64 ->
  g_at chk S B g pos = GOk (g_ptr g + g_hdr g + pos * g_bl g).
Proof.
  intros Hwf Hf Hpos Hp Ha. pose proof (hdr_ok_fits chk S B g Hwf Hf) as Hh.
  destruct Hwf as (HS & HB & Hng & Hbl & Hhd & Hb).
  pose proof (uns_range_64 S _ HS Hng) as Hng'.
  assert (Hps : in_range S pos = true).
  { apply in_range_iff in Hng. apply in_range_of.
    destruct S; try discriminate HS; cbn in *; lia. }
  unfold g_at, gassert, ccast. rewrite (wrap_id S pos Hps), Hh.
  destruct (Z.ltb_spec pos (g_ng g)); [|lia]. cbn [andb]. rewrite orb_true_r.
  change (2 ^ 63) with 9223372036854775808 in Hp.
  destruct (cmul_sizet B pos (g_bl g) HB Hbl) as [Hm _];
    [lia|change (2 ^ 64) with 18446744073709551616; lia|].
  unfold ccast in Hm. rewrite Hm. cbn [of_opt gbind it_deref i_ptr].
  unfold g_begin_ptr. rewrite (padd_id (g_ptr g)) by exact Hb.
  rewrite padd_id by exact Ha. reflexivity.
Qed.

(* with checks enabled an out-of-range position is reported, never dereferenced *)
Lemma g_at_assert S B g pos : ~ (ccast S pos < g_ng g) -> g_at true S B g pos = GAssert.
Proof.
  intros Hn. unfold g_at, gassert. cbn [negb orb].
  destruct (Z.ltb_spec (ccast S pos) (g_ng g)); [contradiction|].
  rewrite andb_false_r. reflexivity.
Qed.

Lemma g_front_ok chk S B g : wf_grp S B g -> fits chk S B g -> 0 < g_ng g ->
  g_front chk S B g = GOk (g_ptr g + g_hdr g).
Proof.
  intros Hwf Hf Hne. pose proof (hdr_ok_fits chk S B g Hwf Hf) as Hh.
  unfold g_front, gassert. rewrite Hh. destruct (Z.eqb_spec (g_ng g) 0); [lia|].
  cbn [negb andb]. rewrite orb_true_r, g_begin_ok by assumption.
  cbn. f_equal. ring.
Qed.

Lemma g_back_ok chk S B g : wf_grp S B g -> fits chk S B g -> 0 < g_ng g ->
  g_ng g * g_bl g < 2 ^ 63 ->
  tmin I64 <= g_ptr g + g_hdr g + g_ng g * g_bl g <= tmax I64 ->
  g_back chk S B g = GOk (g_ptr g + g_hdr g + (g_ng g - 1) * g_bl g).
Proof.
  intros Hwf Hf Hne Hp Ha. pose proof (hdr_ok_fits chk S B g Hwf Hf) as Hh.
  unfold g_back, g_back_g, gassert. rewrite Hh. destruct (Z.eqb_spec (g_ng g) 0); [lia|].
  cbn [negb andb]. rewrite orb_true_r.
  fold (g_end_it chk S B g). rewrite g_end_it_ok by assumption. cbn [gbind].
  destruct Hwf as (HS & HB & Hng & Hbl & Hhd & Hb).
  pose proof (uns_range_64 S _ HS Hng) as Hng'. pose proof (uns_range_64 B _ HB Hbl) as Hbl'.
  assert (0 <= (g_ng g - 1) * g_bl g <= g_ng g * g_bl g) by nia.
  rewrite it_dec_at; try assumption.
  - reflexivity.
  - repeat split; try assumption; try lia.
    apply in_range_iff in Hng. apply in_range_of. destruct S; try discriminate HS; cbn in *; lia.
Qed.

Theorem entry_i_address chk S B g : wf_grp S B g -> fits chk S B g ->
  g_ng g * g_bl g < 2 ^ 63 ->
  tmin I64 <= g_ptr g + g_hdr g + g_ng g * g_bl g <= tmax I64 ->
  let data := g_ptr g + g_hdr g in
  (forall pos, 0 <= pos < g_ng g -> g_at chk S B g pos = GOk (data + pos * g_bl g)) /\
  (0 < g_ng g -> g_front chk S B g = GOk data /\
                 g_back chk S B g = GOk (data + (g_ng g - 1) * g_bl g)) /\
  (forall k, Z.of_nat k <= g_ng g ->
     gbind (g_begin chk S B g) (it_inc_n chk S B k)
       = GOk (it_at data (g_bl g) (g_end g) (Z.of_nat k))).
Proof.
  intros Hwf Hf Hp Ha data.
  pose proof Hwf as (HS & HB & Hng & Hbl & Hhd & Hb).
  pose proof (uns_range_64 S _ HS Hng) as Hng'. pose proof (uns_range_64 B _ HB Hbl) as Hbl'.
  change (2 ^ 63) with 9223372036854775808 in Hp.
  split; [|split].
  - intros pos Hpos. assert (0 <= pos * g_bl g <= g_ng g * g_bl g) by nia.
    apply g_at_ok; try assumption; change (2 ^ 63) with 9223372036854775808; lia.
  - intros Hne. split; [apply g_front_ok; assumption|apply g_back_ok; assumption].
  - intros k Hk. rewrite g_begin_ok by assumption. cbn [gbind].
    assert (0 <= Z.of_nat k * g_bl g <= g_ng g * g_bl g) by nia.
    rewrite it_inc_n_at; try assumption; rewrite ?Z.add_0_l; try lia.
    + reflexivity.
    + apply in_range_iff in Hng. apply in_range_of. destruct S; try discriminate HS; cbn in *; lia.
    + intros Hc. destruct (Hf Hc) as [Hr Hle].
      change (2 ^ 64) with 18446744073709551616 in *.
      pose proof (wf_hdr_bounds S B g Hwf). split; lia.
Qed.

(* ------------------------------------------------------------------ *)
(* byte level                                                          *)
(* ------------------------------------------------------------------ *)
Lemma enc_le_length w v : length (enc_le w v) = w.
Proof. revert v. induction w as [|w IH]; intros v; cbn; [reflexivity|]. rewrite IH. reflexivity. Qed.

Lemma dec_enc_le w : forall v, 0 <= v < 256 ^ Z.of_nat w -> dec_le (enc_le w v) = v.
Proof.
  induction w as [|w IH]; intros v Hv.
  - cbn in *. lia.
  - rewrite Nat2Z.inj_succ, Z.pow_succ_r in Hv by lia.
    cbn [enc_le dec_le]. rewrite IH.
    + pose proof (Z.div_mod v 256 ltac:(lia)). lia.
    + split; [apply Z.div_pos; lia|apply Z.div_lt_upper_bound; lia].
Qed.

Lemma uns_pow_bytes t : is_uns t = true -> 256 ^ Z.of_nat (wbytes t) = 2 ^ bits t.
Proof. destruct t; try discriminate; intros _; reflexivity. Qed.

Lemma blen_app a b : blen (a ++ b) = blen a + blen b.
Proof. unfold blen. rewrite app_length, Nat2Z.inj_add. reflexivity. Qed.

Lemma blen_nonneg a : 0 <= blen a.
Proof. unfold blen. lia. Qed.

Lemma blen_enc_le w v : blen (enc_le w v) = Z.of_nat w.
Proof. unfold blen. rewrite enc_le_length. reflexivity. Qed.

(* a slice that lies inside a prefix *)
Lemma slice_prefix pre rest off n :
  0 <= off -> off + Z.of_nat n <= blen pre ->
  slice (pre ++ rest) off n = Some (firstn n (skipn (Z.to_nat off) pre)).
Proof.
  intros Ho Hn. unfold slice. rewrite blen_app. pose proof (blen_nonneg rest).
  destruct (Z.ltb_spec off 0); [lia|].
  destruct (Z.ltb_spec (blen pre + blen rest) (off + Z.of_nat n)); [lia|]. cbn [orb].
  f_equal. rewrite skipn_app, firstn_app.
  assert (Hl : (n - length (skipn (Z.to_nat off) pre) = 0)%nat).
  { rewrite skipn_length. unfold blen in Hn. lia. }
  rewrite Hl. cbn [firstn]. apply app_nil_r.
Qed.

Lemma slice_app pre l post : slice (pre ++ l ++ post) (blen pre) (length l) = Some l.
Proof.
  rewrite app_assoc. rewrite slice_prefix.
  - f_equal. unfold blen. rewrite Nat2Z.id, skipn_app, skipn_all, Nat.sub_diag.
    cbn [skipn app]. apply firstn_all.
  - apply blen_nonneg.
  - rewrite blen_app. unfold blen. lia.
Qed.

Lemma rd_at t buf pre v post off :
  buf = pre ++ enc_le (wbytes t) v ++ post -> off = blen pre ->
  is_uns t = true -> in_range t v = true -> rd t buf off = Some v.
Proof.
  intros -> -> Hu Hr. unfold rd.
  rewrite <- (enc_le_length (wbytes t) v) at 2. rewrite slice_app.
  rewrite dec_enc_le; [reflexivity|].
  rewrite (uns_pow_bytes t Hu). apply uns_range; assumption.
Qed.

Lemma skipn_add {A} (a b : nat) : forall l : list A, skipn (a + b) l = skipn b (skipn a l).
Proof.
  induction a as [|a IH]; intros l; [reflexivity|].
  destruct l as [|x l]; [cbn; rewrite skipn_nil; reflexivity|]. cbn. apply IH.
Qed.

(* ------------------------------------------------------------------ *)
(* dimension composites of any layout                                  *)
(* ------------------------------------------------------------------ *)

(* a dimension layout: blockLength and numInGroup lie inside the composite and
   do not overlap -- in any order, with any padding and any further members
   (numGroups, numVarDataFields, ...) *)
Definition wf_hlay (S B : ity) (L : hlay) : Prop :=
  0 <= h_bl L /\ 0 <= h_ng L /\
  h_bl L + wsize B <= h_size L /\ h_ng L + wsize S <= h_size L /\
  (h_bl L + wsize B <= h_ng L \/ h_ng L + wsize S <= h_bl L).

(* such a composite is at least sizeof(blockLength) + sizeof(numInGroup) long *)
Lemma wf_hlay_size S B L : wf_hlay S B L -> wsize B + wsize S <= h_size L.
Proof.
  intros (H1 & H2 & H3 & H4 & H5). pose proof (wsize_pos S). pose proof (wsize_pos B).
  destruct H5; lia.
Qed.

(* the two-member composite is the special case *)
Lemma std_hlay_wf S B : wf_hlay S B (std_hlay S B) /\ h_size (std_hlay S B) = hdr_size S B.
Proof.
  unfold wf_hlay, std_hlay, hdr_size. cbn [h_size h_bl h_ng].
  pose proof (wsize_pos S). pose proof (wsize_pos B). repeat split; lia.
Qed.

Lemma rd_some_bounds t l off v : rd t l off = Some v -> 0 <= off /\ off + wsize t <= blen l.
Proof.
  unfold rd, slice, wsize.
  destruct (Z.ltb_spec off 0); cbn [orb]; [discriminate|].
  destruct (Z.ltb_spec (blen l) (off + Z.of_nat (wbytes t))); [discriminate|]. intros _. lia.
Qed.

(* bytes [off, off+n) of [l], seen through pre ++ l ++ post *)
Lemma slice_embed pre l post off n :
  0 <= off -> off + Z.of_nat n <= blen l ->
  slice (pre ++ l ++ post) (blen pre + off) n = slice l off n.
Proof.
  intros Ho Hn. unfold slice. rewrite !blen_app.
  pose proof (blen_nonneg pre). pose proof (blen_nonneg post).
  destruct (Z.ltb_spec (blen pre + off) 0); [lia|].
  destruct (Z.ltb_spec off 0); [lia|].
  destruct (Z.ltb_spec (blen pre + (blen l + blen post)) (blen pre + off + Z.of_nat n)); [lia|].
  destruct (Z.ltb_spec (blen l) (off + Z.of_nat n)); [lia|]. cbn [orb]. f_equal.
  replace (Z.to_nat (blen pre + off)) with (length pre + Z.to_nat off)%nat by (unfold blen; lia).
  rewrite skipn_add, skipn_app, skipn_all, Nat.sub_diag. cbn [app skipn].
  rewrite skipn_app, firstn_app.
  assert (Hl : (n - length (skipn (Z.to_nat off) l) = 0)%nat)
    by (rewrite skipn_length; unfold blen in Hn; lia).
  rewrite Hl. cbn [firstn]. apply app_nil_r.
Qed.

Lemma rd_embed t pre l post off v :
  rd t l off = Some v -> rd t (pre ++ l ++ post) (blen pre + off) = Some v.
Proof.
  intros Hr. destruct (rd_some_bounds t l off v Hr) as [Ho Hn]. unfold rd in *.
  rewrite slice_embed; [exact Hr|exact Ho|unfold wsize in Hn; exact Hn].
Qed.

(* replacing [old] by [new] of the same length does not change what is read
   before or after it *)
Lemma slice_frame pre old new post off n :
  length old = length new -> 0 <= off ->
  (off + Z.of_nat n <= blen pre \/ blen pre + blen old <= off) ->
  slice (pre ++ new ++ post) off n = slice (pre ++ old ++ post) off n.
Proof.
  intros Hlen Ho [Hc|Hc].
  - rewrite !slice_prefix by assumption. reflexivity.
  - assert (Hb : blen new = blen old) by (unfold blen; lia).
    unfold slice. rewrite !blen_app, Hb.
    destruct ((off <? 0) || (blen pre + (blen old + blen post) <? off + Z.of_nat n)); [reflexivity|].
    do 2 f_equal. unfold blen in Hc.
    rewrite !skipn_app.
    rewrite (skipn_all2 pre), (skipn_all2 new), (skipn_all2 old) by lia.
    rewrite Hlen. reflexivity.
Qed.

Lemma rd_frame t pre old new post off :
  length old = length new -> 0 <= off ->
  (off + wsize t <= blen pre \/ blen pre + blen old <= off) ->
  rd t (pre ++ new ++ post) off = rd t (pre ++ old ++ post) off.
Proof.
  intros Hlen Ho Hc. unfold rd. rewrite (slice_frame pre old new post); [reflexivity|assumption..].
Qed.

(* resize(count) / clear(): exactly the numInGroup bytes of the header are
   rewritten -- wherever numInGroup lies in the dimension composite --, size()
   afterwards is count and blockLength is unchanged.  (No separate bound on
   the header size is needed: the header lies in a buffer shorter than 2^63.) *)
Theorem resize_frame chk S B L buf p e count :
  is_uns S = true -> is_uns B = true -> wf_hlay S B L ->
  0 <= p -> p + h_size L <= blen buf -> blen buf < 2 ^ 63 ->
  (chk = true -> 0 <= e - p < 2 ^ 64 /\ h_size L <= e - p) ->
  exists pre old post,
    buf = pre ++ old ++ post /\ blen pre = p + h_ng L /\ length old = wbytes S /\
    let buf' := pre ++ enc_le (wbytes S) (ccast S count) ++ post in
    g_resize chk S B L buf p e count = GOk buf' /\
    g_clear chk S B L buf p e = GOk (pre ++ enc_le (wbytes S) 0 ++ post) /\
    (forall g, read_grp chk S B L buf p e = GOk g ->
       read_grp chk S B L buf' p e = GOk (mkGrp p e (h_size L) (g_bl g) (ccast S count))).
Proof.
  intros HS HB (Hb0 & Hn0 & Hbin & Hnin & Hdisj) Hp Hlen H63 Hchk.
  change (2 ^ 63) with 9223372036854775808 in H63.
  pose proof (wsize_pos S) as HwS. pose proof (wsize_pos B) as HwB.
  set (off := Z.to_nat (p + h_ng L)).
  set (pre := firstn off buf). set (old := firstn (wbytes S) (skipn off buf)).
  set (post := skipn (off + wbytes S) buf).
  exists pre, old, post.
  assert (Hoff : Z.of_nat off = p + h_ng L) by (unfold off; lia).
  assert (Hlb : (off + wbytes S <= length buf)%nat) by (unfold blen, wsize in *; lia).
  assert (Hsc : size_check chk p e (h_size L) = true).
  { unfold size_check. destruct chk; [|reflexivity]. cbn [negb orb].
    destruct (Hchk eq_refl) as [Hr Hle]. apply andb_true_iff; split; [apply Z.leb_le; lia|].
    apply Z.leb_le. unfold SIZE_T.
    rewrite !wrap_id' by (cbn; change (2 ^ 64) with 18446744073709551616 in *; lia). lia. }
  assert (Hpa : padd p (h_ng L) = p + h_ng L) by (apply padd_id; cbn; lia).
  assert (Hpb : padd p (h_bl L) = p + h_bl L) by (apply padd_id; cbn; lia).
  assert (Hwr : forall v, wr S buf (p + h_ng L) v = Some (pre ++ enc_le (wbytes S) v ++ post)).
  { intros v. unfold wr.
    destruct (Z.ltb_spec (p + h_ng L) 0); [lia|].
    destruct (Z.ltb_spec (blen buf) (p + h_ng L + wsize S)); [lia|]. reflexivity. }
  assert (Hsplit : buf = pre ++ old ++ post).
  { unfold pre, old, post. rewrite skipn_add.
    rewrite (firstn_skipn (wbytes S) (skipn off buf)). symmetry. apply firstn_skipn. }
  assert (Hpre : blen pre = p + h_ng L)
    by (unfold pre, blen; rewrite firstn_length_le by lia; exact Hoff).
  assert (Hold : length old = wbytes S).
  { unfold old. rewrite firstn_length_le; [reflexivity|]. rewrite skipn_length. lia. }
  split; [exact Hsplit|]. split; [exact Hpre|]. split; [exact Hold|].
  split; [|split].
  - unfold g_resize. rewrite Hsc, Hpa, Hwr. reflexivity.
  - unfold g_clear, g_resize. rewrite Hsc, Hpa, Hwr.
    assert (Hz : ccast S 0 = 0) by (destruct S; try discriminate HS; reflexivity).
    rewrite Hz. reflexivity.
  - intros g Hg. unfold read_grp in *. rewrite Hsc in *. rewrite Hpa, Hpb in *.
    (* blockLength lies before or after the rewritten bytes *)
    assert (HrdB : rd B (pre ++ enc_le (wbytes S) (ccast S count) ++ post) (p + h_bl L)
                   = rd B buf (p + h_bl L)).
    { rewrite Hsplit at 1. apply rd_frame; [rewrite enc_le_length; exact Hold|lia|].
      assert (Hbo : blen old = wsize S) by (unfold blen, wsize; rewrite Hold; reflexivity).
      rewrite Hbo, Hpre. destruct Hdisj; [left|right]; lia. }
    rewrite HrdB.
    destruct (rd B buf (p + h_bl L)) as [bl|]; cbn [of_opt gbind] in *; [|discriminate].
    rewrite (rd_at S _ pre (ccast S count) post);
      [|reflexivity|symmetry; exact Hpre|exact HS|apply wrap_range].
    cbn [of_opt gbind].
    destruct (rd S buf (p + h_ng L)); cbn [of_opt gbind] in Hg; [|discriminate].
    injection Hg as <-. reflexivity.
Qed.

(* the legacy statement (two-member composite) is an instance *)
Corollary resize_frame_std chk S B buf p e count :
  is_uns S = true -> is_uns B = true ->
  0 <= p -> p + hdr_size S B <= blen buf -> blen buf < 2 ^ 63 ->
  (chk = true -> 0 <= e - p < 2 ^ 64 /\ hdr_size S B <= e - p) ->
  exists pre old post,
    buf = pre ++ old ++ post /\ blen pre = p + wsize B /\ length old = wbytes S /\
    let buf' := pre ++ enc_le (wbytes S) (ccast S count) ++ post in
    g_resize chk S B (std_hlay S B) buf p e count = GOk buf' /\
    g_clear chk S B (std_hlay S B) buf p e = GOk (pre ++ enc_le (wbytes S) 0 ++ post) /\
    (forall g, read_grp chk S B (std_hlay S B) buf p e = GOk g ->
       read_grp chk S B (std_hlay S B) buf' p e
         = GOk (mkGrp p e (hdr_size S B) (g_bl g) (ccast S count))).
Proof.
  intros HS HB. apply (resize_frame chk S B (std_hlay S B) buf p e count HS HB).
  apply std_hlay_wf.
Qed.

(* ------------------------------------------------------------------ *)
(* nested groups                                                       *)
(* ------------------------------------------------------------------ *)
Lemma padd_id64 p v : -9223372036854775808 <= p + v <= 9223372036854775807 -> padd p v = p + v.
Proof. intros H. apply padd_id. exact H. Qed.

Lemma wrap_i64_id z : -9223372036854775808 <= z <= 9223372036854775807 -> wrap I64 z = z.
Proof. intros H. apply wrap_id'. exact H. Qed.

Lemma wrap_u64_id z : 0 <= z <= 18446744073709551615 -> wrap U64 z = z.
Proof. intros H. apply wrap_id'. exact H. Qed.

Definition wf_nentry (bl : Z) (en : nentry) : Prop :=
  blen (ne_block en) = bl /\ in_range U16 (ne_ibl en) = true /\
  in_range U16 (ne_icnt en) = true /\ blen (ne_ipay en) = ne_icnt en * ne_ibl en.

(* specification: entry i starts where entry i-1 ends *)
Fixpoint starts_from (a : Z) (es : list nentry) : list Z :=
  match es with
  | [] => []
  | en :: t => a :: starts_from (a + blen (enc_entry en)) t
  end.

Lemma blen_enc_entry bl en : wf_nentry bl en ->
  blen (enc_entry en) = bl + 4 + ne_icnt en * ne_ibl en.
Proof.
  intros (Hb & _ & _ & Hp). unfold enc_entry.
  rewrite !blen_app, !blen_enc_le, Hb, Hp. lia.
Qed.

Lemma size_check_ok chk b e need :
  0 <= need -> (chk = true -> b + need <= e /\ 0 <= b /\ e < 2 ^ 63) ->
  size_check chk b e need = true.
Proof.
  intros Hn Hc. unfold size_check. destruct chk; [|reflexivity]. cbn [negb orb].
  destruct (Hc eq_refl) as (H1 & H2 & H3). change (2 ^ 63) with 9223372036854775808 in H3.
  apply andb_true_iff; split; [apply Z.leb_le; lia|].
  apply Z.leb_le. unfold SIZE_T. rewrite !wrap_id' by (cbn; lia). lia.
Qed.

(* one ++ of the forward iterator over one encoded entry *)
Lemma n_inc_entry chk S B buf pre en post bl idx e :
  buf = pre ++ enc_entry en ++ post -> wf_nentry bl en ->
  is_uns S = true -> in_range S idx = true -> in_range S (idx + 1) = true ->
  0 <= bl -> blen buf < 2 ^ 63 ->
  (chk = true -> blen pre + blen (enc_entry en) <= e /\ e < 2 ^ 63) ->
  n_inc chk S B buf (mkIter (blen pre) bl idx e)
    = GOk (mkIter (blen pre + blen (enc_entry en)) bl (idx + 1) e).
Proof.
  intros Hbuf Hwf HS Hidx Hidx1 Hbl H63 Hchk.
  pose proof (blen_enc_entry bl en Hwf) as Hlen.
  destruct Hwf as (Hb & Hibl & Hicnt & Hpay).
  pose proof (uns_range U16 _ eq_refl Hibl) as Hibl'. pose proof (uns_range U16 _ eq_refl Hicnt) as Hicnt'.
  cbn [bits] in Hibl', Hicnt'. change (2 ^ 16) with 65536 in *.
  change (2 ^ 63) with 9223372036854775808 in *.
  pose proof (blen_nonneg pre) as Hp0. pose proof (blen_nonneg post) as Hpost0.
  assert (Hprod : 0 <= ne_icnt en * ne_ibl en <= 65535 * 65535) by nia.
  assert (Htot : blen buf = blen pre + blen (enc_entry en) + blen post)
    by (rewrite Hbuf, !blen_app; lia).
  remember (blen pre) as p eqn:Ep.
  assert (Hip : padd p bl = p + bl) by (apply padd_id; cbn; lia).
  assert (Hsz : entry_size chk buf p bl e = GOk (blen (enc_entry en))).
  { unfold entry_size. rewrite Hip.
    unfold read_grp. cbn [std_hlay h_size h_bl h_ng].
    assert (Hip0 : padd (p + bl) 0 = p + bl) by (rewrite padd_id; cbn; lia).
    rewrite Hip0.
    assert (Hsc : size_check chk (p + bl) e (hdr_size U16 U16) = true).
    { apply size_check_ok; [cbn; lia|]. intros Hc. destruct (Hchk Hc).
      change (hdr_size U16 U16) with 4. lia. }
    rewrite Hsc.
    rewrite (rd_at U16 buf (pre ++ ne_block en) (ne_ibl en)
               (enc_le 2 (ne_icnt en) ++ ne_ipay en ++ post));
      [|rewrite Hbuf; unfold enc_entry; rewrite <- !app_assoc; reflexivity
       |rewrite blen_app, Hb, <- Ep; reflexivity|reflexivity|exact Hibl].
    cbn [of_opt gbind].
    assert (Hip2 : padd (p + bl) (wsize U16) = p + bl + 2) by (apply padd_id; cbn; lia).
    rewrite Hip2.
    rewrite (rd_at U16 buf (pre ++ ne_block en ++ enc_le 2 (ne_ibl en)) (ne_icnt en)
               (ne_ipay en ++ post));
      [|rewrite Hbuf; unfold enc_entry; rewrite <- !app_assoc; reflexivity
       |rewrite !blen_app, blen_enc_le, Hb, <- Ep; lia|reflexivity|exact Hicnt].
    cbn [of_opt gbind].
    unfold g_size_bytes, g_size_bytes_g, gassert, hdr_ok. cbn [g_ptr g_end g_hdr g_ng g_bl].
    rewrite Hsc, orb_true_r.
    rewrite size_bytes_fixed_ok; try reflexivity; try assumption;
      [|cbn; lia|change (hdr_size U16 U16) with 4; change (2 ^ 64) with 18446744073709551616; lia].
    cbn [of_opt gbind]. change (hdr_size U16 U16) with 4.
    rewrite padd_id64 by lia.
    unfold ccast, SIZE_T, PTRDIFF_T. rewrite wrap_i64_id by lia.
    rewrite wrap_u64_id by lia. f_equal. lia. }
  unfold n_inc. cbn [i_ptr i_bl i_idx i_end]. rewrite Hsz. cbn [gbind].
  rewrite size_check_ok; [|lia|intros Hc; destruct (Hchk Hc); lia].
  rewrite idx_inc_ok by assumption. cbn [gbind].
  rewrite padd_id by (cbn; lia). reflexivity.
Qed.

Lemma n_walk_chain chk S B bl e post : forall es buf pre idx fuel,
  buf = pre ++ concat (map enc_entry es) ++ post ->
  Forall (wf_nentry bl) es -> is_uns S = true ->
  0 <= idx -> in_range S (idx + Z.of_nat (length es)) = true ->
  0 <= bl -> blen buf < 2 ^ 63 ->
  (chk = true -> blen pre + blen (concat (map enc_entry es)) <= e /\ e < 2 ^ 63) ->
  (length es <= fuel)%nat ->
  n_walk chk S B buf fuel (idx + Z.of_nat (length es)) (mkIter (blen pre) bl idx e)
    = GOk (starts_from (blen pre) es).
Proof.
  induction es as [|en es IH]; intros buf pre idx fuel Hbuf Hwf HS Hidx Hr Hbl H63 Hchk Hfuel.
  - cbn [length starts_from]. rewrite Z.add_0_r.
    destruct fuel; cbn [n_walk i_idx]; [reflexivity|]. rewrite Z.eqb_refl. reflexivity.
  - destruct fuel as [|fuel]; [cbn in Hfuel; lia|].
    cbn [length] in *. rewrite Nat2Z.inj_succ in *.
    cbn [n_walk i_idx starts_from].
    destruct (Z.eqb_spec idx (idx + Z.succ (Z.of_nat (length es)))); [lia|].
    inversion Hwf as [|? ? Hen Hes]; subst.
    cbn [map concat] in *.
    assert (Hrng : in_range S idx = true /\ in_range S (idx + 1) = true).
    { apply in_range_iff in Hr.
      split; apply in_range_of; destruct S; try discriminate HS; cbn in *; lia. }
    destruct Hrng as [Hr0 Hr1].
    rewrite (n_inc_entry chk S B _ pre en (concat (map enc_entry es) ++ post) bl idx e);
      try assumption; try reflexivity.
    + cbn [gbind].
      replace (idx + Z.succ (Z.of_nat (length es))) with (idx + 1 + Z.of_nat (length es)) in * by lia.
      rewrite <- blen_app.
      rewrite (IH _ (pre ++ enc_entry en) (idx + 1) fuel); try assumption; try lia.
      * cbn [gbind it_deref i_ptr]. rewrite blen_app. reflexivity.
      * rewrite <- !app_assoc. reflexivity.
      * intros Hc. destruct (Hchk Hc) as [H1 H2]. rewrite !blen_app in *. split; lia.
    + rewrite <- !app_assoc. reflexivity.
    + intros Hc. destruct (Hchk Hc) as [H1 H2]. rewrite blen_app in H1.
      pose proof (blen_nonneg (concat (map enc_entry es))). split; lia.
Qed.

(* forward iteration over a nested group visits entry i where entry i-1 ends,
   the first one right after the dimension composite, whatever its layout [L]
   and whatever else it holds: [hdr] is ANY sequence of [h_size L] bytes from
   which blockLength and numInGroup are read back at their offsets; end()
   carries index numInGroup.  (No separate bound on the header size is needed:
   the header is part of a buffer shorter than 2^63.) *)
Theorem nested_forward_chain chk S B L hdr bl es pre post e :
  let buf := pre ++ enc_nested hdr es ++ post in
  let p := blen pre in
  is_uns S = true -> is_uns B = true ->
  blen hdr = h_size L ->
  rd B hdr (h_bl L) = Some bl -> rd S hdr (h_ng L) = Some (Z.of_nat (length es)) ->
  in_range B bl = true -> in_range S (Z.of_nat (length es)) = true ->
  Forall (wf_nentry bl) es -> blen buf < 2 ^ 63 ->
  (chk = true -> p + blen (enc_nested hdr es) <= e /\ e < 2 ^ 63) ->
  n_entries chk S B L buf p e = GOk (starts_from (p + h_size L) es) /\
  n_end_idx chk S B L buf p e = GOk (Z.of_nat (length es)).
Proof.
  intros buf p HS HB Hhl HrB HrS Hbl Hng Hwf H63 Hchk.
  pose proof (uns_range_64 B bl HB Hbl) as Hbl'.
  destruct (rd_some_bounds B hdr _ _ HrB) as [Hb0 Hb1].
  destruct (rd_some_bounds S hdr _ _ HrS) as [Hn0 Hn1].
  pose proof (wsize_pos S) as HwS. pose proof (wsize_pos B) as HwB.
  pose proof (blen_nonneg pre) as Hp0. pose proof (blen_nonneg post) as Hpost0.
  pose proof (blen_nonneg (concat (map enc_entry es))) as Hc0.
  change (2 ^ 63) with 9223372036854775808 in *.
  assert (Henc : blen (enc_nested hdr es) = h_size L + blen (concat (map enc_entry es))).
  { unfold enc_nested. rewrite blen_app, Hhl. reflexivity. }
  assert (Htot : blen buf = p + blen (enc_nested hdr es) + blen post)
    by (unfold buf, p; rewrite !blen_app; lia).
  assert (Hrg : read_grp chk S B L buf p e = GOk (mkGrp p e (h_size L) bl (Z.of_nat (length es)))).
  { unfold read_grp.
    rewrite size_check_ok; [|lia|intros Hc; destruct (Hchk Hc); fold p; lia].
    rewrite !padd_id by (cbn; lia).
    unfold buf, enc_nested, p. rewrite <- !app_assoc.
    rewrite (rd_embed B pre hdr _ _ _ HrB). cbn [of_opt gbind].
    rewrite (rd_embed S pre hdr _ _ _ HrS). reflexivity. }
  unfold n_entries, n_begin, n_end_idx. rewrite Hrg. cbn [gbind g_ng g_bl].
  split; [|reflexivity].
  unfold g_begin_ptr. cbn [g_ptr g_hdr]. rewrite padd_id by (cbn; lia).
  rewrite Nat2Z.id.
  assert (Hpre : p + h_size L = blen (pre ++ hdr)).
  { unfold p. rewrite blen_app, Hhl. reflexivity. }
  rewrite Hpre.
  pose proof (n_walk_chain chk S B bl e post es buf (pre ++ hdr) 0 (length es)) as Hw.
  rewrite Z.add_0_l in Hw.
  apply Hw; try assumption; try lia.
  - unfold buf, enc_nested. rewrite <- !app_assoc. reflexivity.
  - intros Hc. destruct (Hchk Hc) as [H1 H2]. rewrite <- Hpre. lia.
Qed.

(* the two-member composite holds its members where [std_hlay] says *)
Lemma enc_dim_std S B bl ng :
  is_uns S = true -> is_uns B = true -> in_range B bl = true -> in_range S ng = true ->
  blen (enc_dim S B bl ng) = h_size (std_hlay S B) /\
  rd B (enc_dim S B bl ng) (h_bl (std_hlay S B)) = Some bl /\
  rd S (enc_dim S B bl ng) (h_ng (std_hlay S B)) = Some ng.
Proof.
  intros HS HB Hbl Hng. unfold enc_dim, std_hlay, hdr_size. cbn [h_size h_bl h_ng].
  split; [|split].
  - rewrite blen_app, !blen_enc_le. reflexivity.
  - apply (rd_at B _ [] bl (enc_le (wbytes S) ng)); [reflexivity|reflexivity|exact HB|exact Hbl].
  - apply (rd_at S _ (enc_le (wbytes B) bl) ng []);
      [rewrite app_nil_r; reflexivity|rewrite blen_enc_le; reflexivity|exact HS|exact Hng].
Qed.

Lemma two_member_header_instance S B bl ng :
  is_uns S = true -> is_uns B = true -> in_range B bl = true -> in_range S ng = true ->
  (wf_hlay S B (std_hlay S B) /\ h_size (std_hlay S B) = hdr_size S B) /\
  blen (enc_dim S B bl ng) = h_size (std_hlay S B) /\
  rd B (enc_dim S B bl ng) (h_bl (std_hlay S B)) = Some bl /\
  rd S (enc_dim S B bl ng) (h_ng (std_hlay S B)) = Some ng.
Proof.
  intros HS HB Hbl Hng.
  split; [exact (std_hlay_wf S B)|exact (enc_dim_std S B bl ng HS HB Hbl Hng)].
Qed.

(* the legacy statement (two-member composite) is an instance *)
Corollary nested_forward_chain_std chk S B bl es pre post e :
  let hdr := enc_dim S B bl (Z.of_nat (length es)) in
  let buf := pre ++ enc_nested hdr es ++ post in
  let p := blen pre in
  is_uns S = true -> is_uns B = true -> in_range B bl = true ->
  in_range S (Z.of_nat (length es)) = true ->
  Forall (wf_nentry bl) es -> blen buf < 2 ^ 63 ->
  (chk = true -> p + blen (enc_nested hdr es) <= e /\ e < 2 ^ 63) ->
  n_entries chk S B (std_hlay S B) buf p e = GOk (starts_from (p + hdr_size S B) es) /\
  n_end_idx chk S B (std_hlay S B) buf p e = GOk (Z.of_nat (length es)).
Proof.
  intros hdr buf p HS HB Hbl Hng Hwf H63 Hchk.
  destruct (enc_dim_std S B bl (Z.of_nat (length es)) HS HB Hbl Hng) as (H1 & H2 & H3).
  apply (nested_forward_chain chk S B (std_hlay S B) hdr bl es pre post e); assumption.
Qed.

(* ------------------------------------------------------------------ *)
(* the code before fix_c12.diff violates the property                  *)
(* ------------------------------------------------------------------ *)

(* uint32 numInGroup / uint32 blockLength, blockLength 10: (begin()+2)-1 should
   be entry 1 at offset 8+10 = 18; the negative int32 n is converted to
   unsigned before the multiplication and the 32-bit product is zero-extended *)
Example legacy_plus_minus_refuted :
  gbind (Legacy.it_plus U32 U32 (it_at 8 10 0 0) 2) (fun a => Legacy.it_minus U32 U32 a 1)
    = GOk (mkIter 4294967314 10 1 0) /\
  gbind (it_plus U32 U32 (it_at 8 10 0 0) 2) (fun a => it_minus U32 U32 a 1)
    = GOk (it_at 8 10 0 1) /\ i_ptr (it_at 8 10 0 1) = 18.
Proof. vm_compute. repeat split; reflexivity. Qed.

(* uint8 numInGroup: g[128] converts 128 to difference_type int8 = -128 and
   lands before the buffer; uint16: g[32768] likewise *)
Example legacy_subscript_narrow_refuted :
  Legacy.g_at false U8 U8 (mkGrp 0 0 2 1 200) 128 = GOk (-126) /\
  g_at false U8 U8 (mkGrp 0 0 2 1 200) 128 = GOk 130 /\
  Legacy.g_at false U16 U16 (mkGrp 0 0 4 1 40000) 32768 = GOk (-32764) /\
  g_at false U16 U16 (mkGrp 0 0 4 1 40000) 32768 = GOk 32772 /\
  (* the same with a 7-byte SBE 2.0 style header (uint16/uint16 + numGroups + numVarDataFields) *)
  Legacy.g_at false U16 U16 (mkGrp 0 0 7 1 40000) 32768 = GOk (-32761) /\
  g_at false U16 U16 (mkGrp 0 0 7 1 40000) 32768 = GOk 32775.
Proof. vm_compute. repeat split; reflexivity. Qed.

(* positive n as well: int16 x uint32 is evaluated in 32 unsigned bits *)
Example legacy_subscript_wrap_refuted :
  Legacy.g_at false U16 U32 (mkGrp 0 0 6 2147483648 3) 2 = GOk 6 /\
  g_at false U16 U32 (mkGrp 0 0 6 2147483648 3) 2 = GOk 4294967302.
Proof. vm_compute. repeat split; reflexivity. Qed.

(* int32 x uint16 is evaluated in int: signed overflow *)
Example legacy_subscript_overflow_refuted :
  Legacy.g_at false U32 U16 (mkGrp 0 0 6 65535 40000) 39999 = GUB /\
  g_at false U32 U16 (mkGrp 0 0 6 65535 40000) 39999 = GOk 2621334471.
Proof. vm_compute. repeat split; reflexivity. Qed.

(* end(): numInGroup * blockLength in the promoted header types *)
Example legacy_end_refuted :
  Legacy.g_end_it false U32 U32 (mkGrp 0 0 8 65536 65536) = GOk (mkIter 8 65536 65536 0) /\
  g_end_it false U32 U32 (mkGrp 0 0 8 65536 65536) = GOk (mkIter 4294967304 65536 65536 0) /\
  Legacy.g_end_it false U16 U16 (mkGrp 0 0 4 65535 65535) = GUB /\
  g_end_it false U16 U16 (mkGrp 0 0 4 65535 65535) = GOk (mkIter 4294836229 65535 65535 0) /\
  (* 11-byte header (uint32/uint32 + numGroups + numVarDataFields) *)
  Legacy.g_end_it false U32 U32 (mkGrp 0 0 11 65536 65536) = GOk (mkIter 11 65536 65536 0) /\
  g_end_it false U32 U32 (mkGrp 0 0 11 65536 65536) = GOk (mkIter 4294967307 65536 65536 0).
Proof. vm_compute. repeat split; reflexivity. Qed.

(* ------------------------------------------------------------------ *)
(* the hypotheses of the theorems are satisfiable                      *)
(* ------------------------------------------------------------------ *)
Example plus_minus_cancel_nonvacuous :
  is_uns U32 = true /\ is_uns U32 = true /\ in_range U32 10 = true /\
  - tmax (dty U32) <= -1 <= tmax (dty U32) /\ step_ok U32 8 10 2 (2 + -1) /\
  tmin I64 <= 8 + 2 * 10 <= tmax I64 /\
  it_plus U32 U32 (it_at 8 10 0 2) (-1) = GOk (it_at 8 10 0 1) /\
  it_minus U32 U32 (it_at 8 10 0 1) (-1) = GOk (it_at 8 10 0 2).
Proof. vm_compute. repeat split; try reflexivity; discriminate. Qed.

Example minus_plus_cancel_nonvacuous :
  is_uns U8 = true /\ is_uns U64 = true /\ in_range U64 3 = true /\
  - tmax (dty U8) <= 127 <= tmax (dty U8) /\ step_ok U8 9 3 200 (200 - 127) /\
  tmin I64 <= 9 + 200 * 3 <= tmax I64 /\
  it_minus U8 U64 (it_at 9 3 0 200) 127 = GOk (it_at 9 3 0 73).
Proof. vm_compute. repeat split; try reflexivity; discriminate. Qed.

Example subscript_is_plus_nonvacuous :
  is_uns U16 = true /\ is_uns U32 = true /\ in_range U32 2147483648 = true /\
  in_range (dty U16) 2 = true /\ step_ok U16 6 2147483648 0 (0 + 2) /\
  it_subscript U16 U32 (it_at 6 2147483648 0 0) 2 = GOk 4294967302.
Proof. vm_compute. repeat split; try reflexivity; discriminate. Qed.

Example distance_is_index_diff_nonvacuous :
  is_uns U8 = true /\ in_range U8 0 = true /\ in_range U8 128 = true /\
  in_range (dty U8) (0 - 128) = true /\
  it_diff U8 (it_at 2 1 0 0) (it_at 2 1 0 128) = GOk (-128).
Proof. vm_compute. repeat split; reflexivity. Qed.

Definition ex_grp : grp := mkGrp 100 1000 2 0 255.   (* uint8/uint8, blockLength 0 *)
Definition ex_grp2 : grp := mkGrp 4 3000 3 10 200.   (* uint8/uint16, two-member header *)
(* uint8 numInGroup / uint16 blockLength + numGroups (uint16) + numVarDataFields (uint8): 6 bytes *)
Definition ex_grp3 : grp := mkGrp 4 3000 6 10 200.
(* blockLength (uint32) at offset 0, numInGroup (uint8) at offset 8: 9 bytes *)
Definition ex_grp4 : grp := mkGrp 0 100 9 7 13.

Example begin_plus_size_nonvacuous :
  wf_grp U8 U16 (mkGrp 4 1000 3 10 99) /\ fits true U8 U16 (mkGrp 4 1000 3 10 99) /\
  99 * 10 < 2 ^ 63 /\ tmin I64 <= 4 + hdr_size U8 U16 + 99 * 10 <= tmax I64 /\
  in_range (dty U8) 99 = true /\
  gbind (g_begin true U8 U16 (mkGrp 4 1000 3 10 99)) (fun b => it_plus U8 U16 b 99)
    = g_end_it true U8 U16 (mkGrp 4 1000 3 10 99) /\
  (* a 6-byte header: the view must cover 4 + 6 + 990 *)
  wf_grp U8 U16 (mkGrp 4 1000 6 10 99) /\ fits true U8 U16 (mkGrp 4 1000 6 10 99) /\
  tmin I64 <= 4 + 6 + 99 * 10 <= tmax I64 /\
  gbind (g_begin true U8 U16 (mkGrp 4 1000 6 10 99)) (fun b => it_plus U8 U16 b 99)
    = g_end_it true U8 U16 (mkGrp 4 1000 6 10 99) /\
  g_end_it true U8 U16 (mkGrp 4 1000 6 10 99) = GOk (mkIter 1000 10 99 1000) /\
  g_end_it true U8 U16 (mkGrp 4 999 6 10 99) = GOk (mkIter 1000 10 99 999) /\
  g_begin true U8 U16 (mkGrp 4 9 6 10 99) = GAssert.
Proof.
  vm_compute. repeat split; try reflexivity; try discriminate.
Qed.

Example entry_i_address_nonvacuous :
  wf_grp U8 U16 ex_grp2 /\ fits true U8 U16 ex_grp2 /\
  g_ng ex_grp2 * g_bl ex_grp2 < 2 ^ 63 /\
  tmin I64 <= g_ptr ex_grp2 + hdr_size U8 U16 + g_ng ex_grp2 * g_bl ex_grp2 <= tmax I64 /\
  g_at true U8 U16 ex_grp2 199 = GOk (4 + 3 + 199 * 10) /\
  g_back true U8 U16 ex_grp2 = GOk (4 + 3 + 199 * 10) /\
  wf_grp U8 U8 ex_grp /\ fits true U8 U8 ex_grp /\
  g_at true U8 U8 ex_grp 254 = GOk 102 /\
  g_at true U8 U8 ex_grp 255 = GAssert /\
  (* larger headers: the data start is g_ptr + g_hdr, not g_ptr + sizeof(bl) + sizeof(n) *)
  wf_grp U8 U16 ex_grp3 /\ fits true U8 U16 ex_grp3 /\
  g_at true U8 U16 ex_grp3 199 = GOk (4 + 6 + 199 * 10) /\
  g_front true U8 U16 ex_grp3 = GOk 10 /\
  g_back true U8 U16 ex_grp3 = GOk (4 + 6 + 199 * 10) /\
  wf_grp U8 U32 ex_grp4 /\ fits true U8 U32 ex_grp4 /\
  g_at true U8 U32 ex_grp4 12 = GOk (9 + 12 * 7) /\
  g_size_bytes true U8 U32 ex_grp4 = GOk (9 + 13 * 7).
Proof.
  vm_compute. repeat split; try reflexivity; try discriminate.
Qed.

Definition ex_entries : list nentry :=
  [mkNEntry [7; 7; 7] 2 1 [1; 2]; mkNEntry [8; 8; 8] 1 3 [4; 5; 6]; mkNEntry [9; 9; 9] 5 0 []].

Example nested_forward_chain_nonvacuous :
  let hdr := enc_dim U8 U32 3 3 in
  let buf := [0; 0] ++ enc_nested hdr ex_entries ++ [255] in
  is_uns U8 = true /\ is_uns U32 = true /\ in_range U32 3 = true /\
  in_range U8 (Z.of_nat (length ex_entries)) = true /\
  Forall (wf_nentry 3) ex_entries /\ blen buf < 2 ^ 63 /\
  (2 + blen (enc_nested hdr ex_entries) <= blen buf - 1 /\ blen buf - 1 < 2 ^ 63) /\
  n_entries true U8 U32 (std_hlay U8 U32) buf 2 (blen buf - 1) = GOk [7; 16; 26] /\
  starts_from (2 + hdr_size U8 U32) ex_entries = [7; 16; 26].
Proof.
  cbn zeta. repeat split; try reflexivity; try (vm_compute; try reflexivity; discriminate).
  repeat constructor; vm_compute; reflexivity.
Qed.

(* an 11-byte dimension composite: numInGroup (uint8) at offset 0, three bytes
   of padding, blockLength (uint32) at offset 4, then numGroups (uint16) and
   numVarDataFields (uint8) with arbitrary contents *)
Example nested_forward_chain_nonvacuous_layout :
  let L := mkHlay 11 4 0 in
  let hdr := [3; 170; 170; 170; 3; 0; 0; 0; 187; 187; 204] in
  let buf := [0; 0] ++ enc_nested hdr ex_entries ++ [255] in
  wf_hlay U8 U32 L /\ blen hdr = h_size L /\
  rd U32 hdr (h_bl L) = Some 3 /\ rd U8 hdr (h_ng L) = Some (Z.of_nat (length ex_entries)) /\
  blen buf < 2 ^ 63 /\
  (2 + blen (enc_nested hdr ex_entries) <= blen buf - 1 /\ blen buf - 1 < 2 ^ 63) /\
  n_entries true U8 U32 L buf 2 (blen buf - 1) = GOk [13; 22; 32] /\
  starts_from (2 + h_size L) ex_entries = [13; 22; 32] /\
  (* the two-member reading of the same bytes is something else *)
  n_entries true U8 U32 (std_hlay U8 U32) buf 2 (blen buf - 1) <> GOk [13; 22; 32].
Proof.
  cbn zeta. unfold wf_hlay.
  repeat split; try reflexivity; try (vm_compute; try reflexivity; discriminate).
  right. vm_compute. discriminate.
Qed.

Example resize_frame_nonvacuous :
  is_uns U16 = true /\ is_uns U8 = true /\ 0 <= 1 /\
  1 + hdr_size U16 U8 <= blen [9; 5; 1; 2; 7] /\ blen [9; 5; 1; 2; 7] < 2 ^ 63 /\
  (0 <= 4 - 1 < 2 ^ 64 /\ hdr_size U16 U8 <= 4 - 1) /\
  g_resize true U16 U8 (std_hlay U16 U8) [9; 5; 1; 2; 7] 1 4 65535 = GOk [9; 5; 255; 255; 7] /\
  g_clear true U16 U8 (std_hlay U16 U8) [9; 5; 1; 2; 7] 1 4 = GOk [9; 5; 0; 0; 7] /\
  g_resize true U16 U8 (std_hlay U16 U8) [9; 5; 1; 2; 7] 1 3 0 = GAssert.
Proof. vm_compute. repeat split; try reflexivity; discriminate. Qed.

(* numInGroup (uint16) BEFORE blockLength (uint8), and blockLength at 0 /
   numInGroup at 8 with padding in between: only the numInGroup bytes change *)
Example resize_frame_nonvacuous_layout :
  wf_hlay U16 U8 (mkHlay 3 2 0) /\
  g_resize true U16 U8 (mkHlay 3 2 0) [9; 1; 2; 5; 7] 1 4 65535 = GOk [9; 255; 255; 5; 7] /\
  g_clear true U16 U8 (mkHlay 3 2 0) [9; 1; 2; 5; 7] 1 4 = GOk [9; 0; 0; 5; 7] /\
  g_resize true U16 U8 (mkHlay 3 2 0) [9; 1; 2; 5; 7] 1 3 0 = GAssert /\
  wf_hlay U16 U8 (mkHlay 10 0 8) /\
  g_resize true U16 U8 (mkHlay 10 0 8) [5; 1; 2; 3; 4; 5; 6; 7; 8; 9; 7] 0 10 258
    = GOk [5; 1; 2; 3; 4; 5; 6; 7; 2; 1; 7] /\
  read_grp true U16 U8 (mkHlay 10 0 8) [5; 1; 2; 3; 4; 5; 6; 7; 2; 1; 7] 0 10
    = GOk (mkGrp 0 10 10 5 258).
Proof.
  unfold wf_hlay. repeat split; try (vm_compute; try reflexivity; discriminate).
  - right. vm_compute. discriminate.
  - left. vm_compute. discriminate.
Qed.
